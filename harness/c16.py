"""C16 — emu-sv open-system runs solve the Lindblad equation and stay physical
(decidable part: the generator exponentiated at every step)."""

from types import SimpleNamespace

from symex.api import Case
from symex import refs
from harness.svcommon import make_data, build_sv_impl, with_krylov_stub, h_ref_step, sv_stub_config

PROPERTY = "C16"

COVERS = [
    ("emu_sv/sv_backend_impl.py", "SVBackendImpl.__init__"),
    ("emu_sv/sv_backend_impl.py", "SVBackendImpl._run"),
    ("emu_sv/sv_backend_impl.py", "SVBackendImpl._evolve_step"),
    ("emu_sv/time_evolution.py", "EvolveDensityMatrix.apply"),
    ("emu_sv/time_evolution.py", "EvolveDensityMatrix.get_hamiltonian"),
    ("emu_sv/lindblad_operator.py", "RydbergLindbladian.__matmul__"),
    ("emu_sv/density_matrix_state.py", "DensityMatrix.make"),
]


def gksl(env, H, Ls, rho, n):
    """d rho/dt = -i[H,rho] + sum_q sum_k (L rho L^dag - 1/2 {L^dag L, rho})."""
    T = env.torch
    out = (-1.0j) * (H @ rho - rho @ H)
    for q in range(n):
        for L in Ls:
            Lq = refs.embed(T, L, q, n)
            LdL = Lq.mH @ Lq
            half = 0.5 if not env.mutant("no_anticommutator_half") else 1.0
            out = out + Lq @ rho @ Lq.mH - half * (LdL @ rho + rho @ LdL)
    return out


def dm_steps(n, steps, n_ops, slm, with_init):
    def fn(env):
        T = env.torch
        Ls = [env.tensor_cplx(f"L{k}", (2, 2)) for k in range(n_ops)]
        data, sym = make_data(env, n, steps, lindblad_ops=Ls, slm=slm, last_time=40)
        init = None
        if with_init:
            from harness.c06 import hermitian

            dms = env.mod("emu_sv.density_matrix_state")
            init = dms.DensityMatrix(hermitian(env, "rho0", 2**n), gpu=False)
            init_before = init.data.clone()
        cfg = sv_stub_config(initial_state=init)

        def run(rec):
            impl = build_sv_impl(env, data, cfg)
            impl._run()
            return impl

        impl, rec = with_krylov_stub(env, "mat", run)
        dms = env.mod("emu_sv.density_matrix_state")
        env.check(isinstance(impl.state, dms.DensityMatrix), "Lindblad noise selects the density-matrix solver")
        env.check(len(rec.calls) == steps, "exactly one exponential per target-time interval")
        for k, c in enumerate(rec.calls):
            t0, t1 = sym.ts[k], sym.ts[k + 1]
            U = sym.masked if (slm and bool(t0 < sym.slm_end)) else sym.full
            H = h_ref_step(env, sym, k, U, n)
            probe, got = c.M
            unit = 0.001 if not env.mutant("wrong_unit") else 1.0
            want = ((t1 - t0) * unit) * gksl(env, H, Ls, probe, n)
            env.check_eq(got, want, f"step {k}: exponentiated map = dt*1e-3*GKSL generator on Hermitian matrices (n={n}, ops={n_ops})")
            if k == 0:
                if with_init:
                    env.check_eq(c.v, init_before, "step 0 starts from the configured density matrix")
                else:
                    g = T.zeros(2**n, 2**n, dtype=T.complex128)
                    g[0, 0] = 1.0
                    env.check_eq(c.v, g, "step 0 starts from |g..g><g..g|")
            else:
                env.check_eq(c.v, rec.calls[k - 1].out, f"step {k} starts from the state returned by step {k-1}")
            env.check(c.kw.get("is_hermitian") is False, "Arnoldi (general) exponentiation requested")
        env.check_eq(impl.state.data, rec.calls[-1].out, "final state is the one returned by the last step")
        if with_init:
            # the exponentiation routine destroys its input tensor (it normalises it in place): a second emulation
            # with the same config must still start from the state the user configured
            env.check_eq(init.data, init_before, "the configured initial density matrix is not modified by the run")

    return fn


META = {
    "explanation": (
        "As C01 but with symbolic 2x2 jump operators: the real SVBackendImpl + EvolveDensityMatrix.apply + RydbergLindbladian are "
        "executed; krylov_exp is a recording stub that applies the closure it receives to a symbolic Hermitian probe matrix. z3 decides "
        "that the exponentiated map equals dt*1e-3 times the GKSL generator built from the dense Hamiltonian of that step and the "
        "jump operators acting on every atom, that one exponential is taken per interval with chained states, starting from "
        "|g..g><g..g| or the configured density matrix. Trace and Hermiticity preservation of the generator are decided under C06."
    ),
    "outside": [
        "Arnoldi accuracy, positivity under truncation error (C07, not applicable); Pulser's master-equation reference",
        "N > 3 atoms (N > 2 with more than one jump operator), > 3 jump operators, > 4 steps; non-Hermitian inputs (the closure is only real-linear)",
    ],
    "assumptions": ["jump operators act identically on every atom (Pulser's effective-noise contract)"],
}


def cases(tier):
    out = []
    grid = [(1, 2, 1, False, False), (2, 1, 1, True, False), (1, 1, 2, False, True)]
    if tier != "quick":
        grid += [(2, 2, 2, True, True), (2, 1, 3, False, False), (1, 3, 1, True, False), (3, 1, 1, False, False), (2, 3, 1, True, False), (1, 4, 2, False, True)]
    for n, k, ops, slm, init in grid:
        out.append(
            Case(
                f"dm_n{n}_steps{k}_ops{ops}{'_slm' if slm else ''}{'_init' if init else ''}",
                dm_steps(n, k, ops, slm, init),
                covers=COVERS,
                bounds={"atoms": n, "steps": k, "jump_ops": ops, "slm_mask": slm, "initial_state": init},
                canaries=["wrong_unit", "no_anticommutator_half"],
                weight=16**n * k * ops,
                deadline_s=1500,
            )
        )
    return out
