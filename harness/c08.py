"""C08 — Lanczos ground-state search is variational and meets its residual.

Decidable part only: the bookkeeping around the Lanczos quantities - which Ritz pair is
returned, that the returned vector has unit norm, when `converged` / `happy_breakdown`
are reported, restart handling, and the public entry point raising when neither holds.
That the Ritz value is the Rayleigh quotient, is variational, and that beta_j*|y_j| is the
true residual are theorems about exact Lanczos + LAPACK's eigh in floating point: outside.
"""

from types import SimpleNamespace

from symex.api import Case
from symex.env import b_and, b_or, b_not, b_implies, scalar

PROPERTY = "C08"

COVERS = [
    ("emu_base/math/krylov_energy_min.py", "krylov_energy_minimization"),
    ("emu_base/math/krylov_energy_min.py", "krylov_energy_minimization_impl"),
    ("emu_base/math/krylov_energy_min.py", "_lowest_eigenvector_krylov_method"),
    ("emu_base/math/krylov_energy_min.py", "_next_lanczos_iteration"),
    ("emu_base/math/krylov_energy_min.py", "_ritz_vector"),
    ("emu_base/math/krylov_energy_min.py", "_lowest_ritz_pair_tridiagonal"),
]

# concrete operator outputs (re, im) - the operator is a stub: only the bookkeeping is decided
OUTS = [((1.0, 0.0), (0.0, 2.0)), ((0.0, 0.5), (3.0, 0.0)), ((2.0, 0.0), (1.0, 1.0)), ((0.0, 0.0), (0.0, 0.25))]


class TorchProxy:
    def __init__(self, real, eigh):
        self._real = real
        self.linalg = SimpleNamespace(eigh=eigh)

    def __getattr__(self, name):
        return getattr(self._real, name)


def bookkeeping(max_k, max_restarts):
    def fn(env):
        T = env.torch
        km = env.mod("emu_base.math.krylov_energy_min")
        psi = T.tensor([3.0 + 0.0j, 4.0j], dtype=T.complex128)
        res_tol = env.real("residual_tol", lo=1e-12, hi=4.0)
        norm_tol = env.real("norm_tol", lo=1e-12, hi=1.0)
        calls = {"op": 0}
        eig = []
        op_in = []

        def op(x):
            op_in.append(x.clone())
            w = T.tensor([complex(*c) for c in OUTS[calls["op"] % len(OUTS)]], dtype=T.complex128)
            calls["op"] += 1
            return w

        def fake_eigh(h, UPLO="L"):
            n = h.shape[0]
            k = len(eig)
            theta = env.tensor_real(f"theta{k}", (n,), lo=-1000.0, hi=1000.0)
            y = env.tensor_real(f"y{k}", (n, n), lo=-1000.0, hi=1000.0)
            env.assume(scalar(T.linalg.vector_norm(y[:, 0])) > 0.01, "eigenvector returned by eigh is not (numerically) zero")
            eig.append(SimpleNamespace(h=h.clone(), theta=theta, y=y))
            return theta, y

        saved = km.torch
        km.torch = TorchProxy(saved, fake_eigh)
        try:
            res = km.krylov_energy_minimization_impl(
                op=op, psi=psi.clone(), residual_tolerance=res_tol, norm_tolerance=norm_tol, max_krylov_dim=max_k, max_restarts=max_restarts
            )
        finally:
            km.torch = saved
        n2 = T.vdot(res.ground_state.reshape(-1), res.ground_state.reshape(-1)).real
        if calls["op"] > 0 and eig:
            env.check_eq(n2, 1.0, "the returned vector has unit norm")
        # which eigh call produced the returned pair: the energy must be theta[0] of one call and the
        # vector the normalised combination built from that same call's eigenvector
        e = scalar(res.ground_energy)
        paired = []
        for k, rec in enumerate(eig):
            paired.append(env.eqv(e, scalar(rec.theta[0])))
        env.check(b_or(*paired) if paired else True, "the returned energy is the lowest Ritz value of one of the projected problems")
        # ... and energy and vector belong to the SAME projected problem (the statement's "energy equal to that
        # vector's Rayleigh quotient" can only hold if the pair is not mixed across iterations)
        got = res.ground_state.reshape(-1)
        same_pair = []
        for k, rec in enumerate(eig):
            first = (k // max_k) * max_k  # Lanczos basis of the cycle this eigh call belongs to
            basis = op_in[first : k + 1]
            rv = sum(c * vec for c, vec in zip(rec.y[:, 0], basis))
            rv = rv / rv.norm()
            if env.mutant("pair_from_previous_iteration") and k > 0:
                rv = None
            conds = [env.eqv(e, scalar(rec.theta[0]))]
            if rv is None:
                conds.append(False)
            else:
                for i in range(got.shape[0]):
                    conds.append(env.eqv(scalar(got[i].real), scalar(rv[i].real)))
                    conds.append(env.eqv(scalar(got[i].imag), scalar(rv[i].imag)))
            same_pair.append(b_and(*conds))
        if eig:
            env.check(b_or(*same_pair), "returned energy and returned vector are the Ritz pair of one and the same projected problem")
        env.check(b_implies(res.happy_breakdown, res.converged), "a happy breakdown counts as converged")
        tight = 1.0 if not env.mutant("loose_residual") else 2.0  # the mutant oracle demands half the tolerance
        env.check(
            b_implies(b_and(res.converged, b_not(res.happy_breakdown)), scalar(res.residual_norm) * tight < res_tol),
            "converged without breakdown => the reported residual is below the requested tolerance",
        )
        env.check(res.restart_count <= max_restarts, "no more restarts than allowed")
        env.check(res.iteration_count == calls["op"], "iteration count = number of operator applications")
        env.check(
            b_implies(b_not(b_or(res.converged, res.happy_breakdown)), res.restart_count == max_restarts and calls["op"] == (max_restarts + 1) * max_k),
            "non-convergence is only reported after every allowed restart and iteration was used",
        )
        # tridiagonal matrix handed to eigh: real, alphas on the diagonal, betas below it
        for rec in eig[:3]:
            h = rec.h
            n = h.shape[0]
            for i in range(n):
                for j in range(n):
                    if abs(i - j) > 1 or j > i:
                        env.check_eq(h[i, j], 0.0, "projected matrix: only diagonal and sub-diagonal are filled")

    return fn


def public_entry():
    """krylov_energy_minimization raises exactly when the search neither converged nor broke down."""

    def fn(env):
        T = env.torch
        km = env.mod("emu_base.math.krylov_energy_min")
        outcome = env.choice("impl_outcome", ["converged", "happy", "neither"])
        fake = km.KrylovEnergyResult(
            ground_state=T.tensor([1.0 + 0.0j, 0.0j], dtype=T.complex128),
            ground_energy=T.tensor(env.real("E"), dtype=T.float64),
            residual_norm=T.tensor(0.5, dtype=T.float64),
            converged=outcome in ("converged", "happy"),
            happy_breakdown=outcome == "happy",
            iteration_count=3,
            restart_count=1,
        )
        saved = km.krylov_energy_minimization_impl
        km.krylov_energy_minimization_impl = lambda **kw: fake
        try:
            try:
                out = km.krylov_energy_minimization(lambda x: x, fake.ground_state, norm_tolerance=1e-8, residual_tolerance=1e-8, max_krylov_dim=3)
                raised = False
            except RecursionError:
                out, raised = None, True
        finally:
            km.krylov_energy_minimization_impl = saved
        must_raise = outcome == "neither"
        if env.mutant("never_raises"):
            must_raise = False
        env.check(raised == must_raise, "the public entry point raises RecursionError exactly when the search neither converged nor broke down")
        if out is not None:
            env.check(out[0] is fake.ground_state, "returns the state of the result")
            env.check_eq(out[1], fake.ground_energy, "returns the energy of the result")

    return fn


META = {
    "explanation": (
        "krylov_energy_minimization_impl and its helpers are executed with the operator replaced by a stub returning concrete "
        "vectors and torch.linalg.eigh by a stub returning symbolic Ritz values/vectors, with symbolic tolerances; the executor "
        "forks on the code's comparisons (residual improvement, breakdown, convergence, restart). z3 decides: unit norm of the "
        "returned vector, the returned energy is the lowest Ritz value of one projected problem, converged-without-breakdown "
        "implies reported residual < tolerance, breakdown implies converged, restart/iteration accounting, the tridiagonal matrix "
        "handed to eigh has the Lanczos shape, and the public entry point raises exactly when neither converged nor broke down."
    ),
    "outside": [
        "variational bound, Rayleigh-quotient identity and the residual identity beta_j*|y_j| = |H psi - E psi| (exact-Lanczos theorems through LAPACK eigh in floating point)",
        "Krylov dimension > 2; Krylov dimension 2 combined with a restart (z3 `unknown`); more than 3 restarts; vectors of dimension > 2",
    ],
    "assumptions": ["eigh returns arbitrary real (theta, y) with a non-zero first eigenvector: only the bookkeeping is decided"],
}


def cases(tier):
    out = []
    # (2 Krylov vectors + a restart nests the normalisation square roots three deep: z3 answers `unknown`
    #  after 20 min even for the unit-norm clause, so that size is not part of the thorough tier)
    grid = [(1, 0), (2, 0), (1, 1)] if tier == "quick" else [(1, 0), (2, 0), (1, 1), (1, 2), (1, 3)]
    for mk, mr in grid:
        out.append(
            Case(
                f"bookkeeping_k{mk}_restarts{mr}",
                bookkeeping(mk, mr),
                covers=COVERS,
                bounds={"max_krylov_dim": mk, "max_restarts": mr},
                canaries=["loose_residual"] + (["pair_from_previous_iteration"] if mk * (mr + 1) > 1 else []),
                timeout_ms=60000,
                deadline_s=1500,
                weight=10 * mk * (mr + 1),
            )
        )
    out.append(Case("public_entry", public_entry(), covers=COVERS, bounds={"outcomes": 3}, canaries=["never_raises"]))
    return out
