"""C19 — Brent root finding terminates inside the bracket at a sign change.

No tensors: the real `BrentsRootFinder` runs on symbolic Python scalars.  The
deciding step is ONE INDUCTIVE STEP (get_next_abscissa + provide_ordinate) from
an arbitrary state satisfying the representation invariant BInv, plus the base
case (the real constructor establishes BInv), the ranking lemma T1, and a
bounded unrolling through the real `find_root_brents` as reachability witness.
"""

from symex.api import Case
from symex.env import b_and, b_or, b_not, b_implies

PROPERTY = "C19"

BRENT = "emu_base/math/brents_root_finding.py"
COVERS = [
    (BRENT, "BrentsRootFinder.__init__"),
    (BRENT, "BrentsRootFinder.get_next_abscissa"),
    (BRENT, "BrentsRootFinder.provide_ordinate"),
    (BRENT, "BrentsRootFinder.is_converged"),
    (BRENT, "find_root_brents"),
]


class _Stop(Exception):
    """End of a harness path (bound of the unrolling reached / nothing more to check)."""


# ---------------------------------------------------------------------------
# invariant
# ---------------------------------------------------------------------------
def strictly_between(x, p, q):
    """x strictly between p and q (either orientation)."""
    return b_or(b_and(p < x, x < q), b_and(q < x, x < p))


def weakly_between(x, p, q):
    return b_or(b_and(p <= x, x <= q), b_and(q <= x, x <= p))


def binv(rf, zeros=False):
    """Representation invariant of a finder *between* provide_ordinate / the
    constructor and the next get_next_abscissa.

    core   : a != b, sign change fa*fb < 0, b is the better guess |fb| <= |fa|
    history: (c, fc) is one of
       F1  c = b, fc = fb                      (a was replaced, no swap)
       F2  c = a, fc = fa                      (initial state / a replaced, swap)
       F3  c strictly beyond b, fc has the sign of fb, |fc| <= |fa|
       F4  c strictly beyond a, fc has the sign of fa, |fc| <= |fb|
             d is not strictly inside the bracket.
    zeros=True is the weak variant for exact-zero ordinates: fa*fb <= 0, and the
    sign facts about fc are weak.
    """
    a, b, c, d, fa, fb, fc = rf.a, rf.b, rf.c, rf.d, rf.fa, rf.fb, rf.fc
    if zeros:
        core = b_and(a != b, fa * fb <= 0, abs(fb) <= abs(fa))
        f3 = b_and(strictly_between(b, a, c), fc * fb >= 0, abs(fc) <= abs(fa))
        f4 = b_and(strictly_between(a, b, c), fc * fa >= 0, abs(fc) <= abs(fb))
    else:
        core = b_and(a != b, fa * fb < 0, abs(fb) <= abs(fa))
        f3 = b_and(strictly_between(b, a, c), fc * fb > 0, abs(fc) <= abs(fa))
        f4 = b_and(strictly_between(a, b, c), fc * fa > 0, abs(fc) <= abs(fb))
    f1 = b_and(c == b, fc == fb)
    f2 = b_and(c == a, fc == fa)
    hist = b_or(f1, f2, f3, f4)
    d_out = b_not(strictly_between(d, a, b))
    return b_and(core, hist, d_out)


# ---------------------------------------------------------------------------
# divisors of get_next_abscissa (division by a symbol does not raise in sym mode)
# ---------------------------------------------------------------------------
DIV = "no ZeroDivisionError in get_next_abscissa: "


def divisor_vcs(env, rf):
    """One VC per divisor the next get_next_abscissa() evaluates on the branch
    it takes; returns their conjunction."""
    eps = rf.epsilon
    fa, fb, fc = rf.fa, rf.fb, rf.fc
    sec = b_or(abs(fc - fa) < eps, abs(fc - fb) < eps)
    iqi = b_not(sec)
    conds = [
        (b_implies(sec, fa != fb), "secant divisor fa - fb is non-zero"),
        (b_implies(iqi, fa != 0), "interpolation divisor fa (s = fb/fa) is non-zero"),
        (b_implies(iqi, fc != 0), "interpolation divisor fc (r = fb/fc, t = fa/fc) is non-zero"),
        (
            b_implies(iqi, b_and(fa != fc, fb != fa, fb != fc)),
            "interpolation divisor q = (t-1)(s-1)(r-1) is non-zero",
        ),
    ]
    ok = True
    for c, lab in conds:
        env.check(c, DIV + lab)
        ok = b_and(ok, c)
    return ok


def guarded_next(env, rf, call=None):
    """get_next_abscissa() with the divisor VCs in front of it.  On the branch
    where some divisor is zero the real code must raise ZeroDivisionError (checked
    on concrete replays) and the path ends."""
    call = call or rf.get_next_abscissa
    ok = divisor_vcs(env, rf)
    if not ok:  # forks in sym mode (infeasible when the VCs hold)
        if not env.symbolic:
            try:
                call()
                raised = False
            except ZeroDivisionError:
                raised = True
            env.check(raised, "divisor model agrees with the real code: ZeroDivisionError is raised")
        raise _Stop()
    try:
        return call()
    except ZeroDivisionError:
        env.fail("ZeroDivisionError although every modelled divisor is non-zero")
        raise _Stop()


# ---------------------------------------------------------------------------
# inputs
# ---------------------------------------------------------------------------
EPS_KINDS = ("1", "1e-6", "sym")


def epsilon(env, kind):
    if kind == "1":
        return 1  # the noisy MPS solver's value (an int there, too)
    if kind == "1e-6":
        return 1e-6  # the default
    e = env.real("eps", lo=0.0, hi=2.0)
    env.assume(e > 0, "epsilon > 0")
    return e


def pos(env, name, hi=None):
    v = env.real(name, lo=0.0, hi=hi)
    env.assume(v > 0, f"{name} > 0")
    return v


def nonneg(env, name, hi=None):
    return env.real(name, lo=0.0, hi=hi)


FORMS = ("c_is_b", "c_is_a", "beyond_b", "beyond_a")


def arbitrary_finder(env, eps_kind, form, zeros=False):
    """An arbitrary finder state satisfying BInv, built from sign / orientation
    choices and positive magnitudes (so that concrete sampling works too)."""
    bm = env.mod("emu_base.math.brents_root_finding")
    rf = object.__new__(bm.BrentsRootFinder)
    rf.epsilon = epsilon(env, eps_kind)
    orient = env.choice("orientation(a-b)", [1, -1])
    sgn = env.choice("sign(fa)", [1, -1])
    b = env.real("b")
    w = pos(env, "w")
    a = b + orient * w
    mfa = pos(env, "|fa|")
    mfb = nonneg(env, "|fb|") if zeros else pos(env, "|fb|")
    env.assume(mfb <= mfa, "|fb| <= |fa|")
    fa, fb = sgn * mfa, -sgn * mfb
    if form == "c_is_b":
        c, fc = b, fb
    elif form == "c_is_a":
        c, fc = a, fa
    elif form == "beyond_b":
        c = b - orient * pos(env, "e_c")
        mfc = nonneg(env, "|fc|") if zeros else pos(env, "|fc|")
        env.assume(mfc <= mfa, "|fc| <= |fa|")
        fc = -sgn * mfc
        if zeros:
            # weak sign: fc may also have the other sign only if fb = 0
            pass
    else:
        c = a + orient * pos(env, "e_c")
        mfc = nonneg(env, "|fc|") if zeros else pos(env, "|fc|")
        env.assume(mfc <= mfb, "|fc| <= |fb|")
        fc = sgn * mfc
    d = env.real("d")
    env.assume(b_not(strictly_between(d, a, b)), "d is not strictly inside the bracket")
    rf.a, rf.b, rf.c, rf.d = a, b, c, d
    rf.fa, rf.fb, rf.fc = fa, fb, fc
    rf.bisection = env.boolean("bisection")
    rf.current_guess = b
    rf.next_abscissa = None
    return rf


# ---------------------------------------------------------------------------
# case: one inductive step
# ---------------------------------------------------------------------------
def inductive_step(eps_kind, form):
    def fn(env):
        rf = arbitrary_finder(env, eps_kind, form)
        env.check(binv(rf), "constructed pre-state satisfies BInv")
        a, b, fa, fb = rf.a, rf.b, rf.fa, rf.fb
        c0 = rf.c
        try:
            x = guarded_next(env, rf)
        except _Stop:
            return
        env.check(x == rf.next_abscissa, "get_next_abscissa returns next_abscissa")
        env.check(weakly_between(x, a, b), "next abscissa lies in the closed bracket")
        env.check(x != a, "next abscissa is not the far end a")
        inside = strictly_between(x, a, b)
        if env.mutant("require_midpoint"):
            env.check(x == (a + b) / 2, "next abscissa strictly inside the bracket")
        env.check(inside, "next abscissa strictly inside the bracket")
        env.check(b_and(rf.c == b, rf.fc == fb, rf.d == c0), "history shifted: c,fc = b,fb and d = old c")
        env.check(b_and(rf.a == a, rf.b == b, rf.fa == fa, rf.fb == fb), "get_next_abscissa leaves the bracket unchanged")
        env.assume(inside, "x strictly inside (otherwise the ordinate is the known f(b))")
        y = env.real("y", nonzero=True)
        rf.provide_ordinate(x, y)
        a2, b2, fa2, fb2 = rf.a, rf.b, rf.fa, rf.fb
        env.check(b_and(weakly_between(a2, a, b), weakly_between(b2, a, b)), "new bracket is contained in the old one")
        shrink = abs(a2 - b2) < abs(a - b)
        if env.mutant("halves"):
            shrink = abs(a2 - b2) * 2 <= abs(a - b)
        env.check(shrink, "new bracket is strictly shorter")
        env.check(fa2 * fb2 <= 0, "fa'*fb' <= 0")
        env.check(fa2 * fb2 < 0, "fa'*fb' < 0 for non-zero ordinates")
        env.check(abs(fb2) <= abs(fa2), "|fb'| <= |fa'|")
        env.check(b_or(b_and(a2 == x, fa2 == y), b_and(b2 == x, fb2 == y)), "the queried point is an end of the new bracket")
        env.check(rf.current_guess == b2, "current_guess is b'")
        env.check(binv(rf), "BInv is inductive")
        tol = pos(env, "tol")
        if rf.is_converged(tol):
            g = rf.current_guess
            env.check(
                b_and(abs(g - a2) < tol, abs(g - b2) < tol, fa2 * fb2 <= 0),
                "at convergence current_guess is within tolerance of both ends of a bracket with a sign change",
            )
        else:
            env.check(abs(a2 - b2) >= tol, "not converged means |b-a| >= tolerance")

    return fn


META = {
    "explanation": "",
    "outside": [],
    "assumptions": [],
}


def cases(tier):
    out = []
    for e in EPS_KINDS:
        for form in FORMS:
            out.append(
                Case(
                    name=f"step_eps{e}_{form}",
                    fn=inductive_step(e, form),
                    covers=COVERS[1:4],
                    bounds={"epsilon": e, "history form": form, "steps": 1},
                    canaries=["halves", "require_midpoint"],
                )
            )
    return out
