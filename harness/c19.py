"""C19 — Brent root finding terminates inside the bracket at a sign change.

No tensors: the real `BrentsRootFinder` runs on symbolic Python scalars.  The
deciding step is ONE INDUCTIVE STEP (get_next_abscissa + provide_ordinate) from
an arbitrary state satisfying the representation invariant BInv, plus the base
case (the real constructor establishes BInv), the ranking lemma T1, and a
bounded unrolling through the real `find_root_brents` as reachability witness.
"""

from symex.api import Case
from symex.env import b_and, b_or, b_not, b_implies

PROPERTY = "C19"

BRENT = "emu_base/math/brents_root_finding.py"
COVERS = [
    (BRENT, "BrentsRootFinder.__init__"),
    (BRENT, "BrentsRootFinder.get_next_abscissa"),
    (BRENT, "BrentsRootFinder.provide_ordinate"),
    (BRENT, "BrentsRootFinder.is_converged"),
    (BRENT, "find_root_brents"),
]


class _Stop(Exception):
    """End of a harness path (bound of the unrolling reached / nothing more to check)."""


def vc(env, cond, label):
    """env.check, but a VC that was already discharged (unsat) on an earlier path with
    the *same decision prefix* (hence the same axioms and path condition: paths are
    deterministic re-executions) is not sent to z3 again."""
    if not env.symbolic or env.active_mutant is not None or not hasattr(cond, "e"):
        return env.check(cond, label)
    ctx = env.ctx
    cache = ctx.ex.__dict__.setdefault("_vc_done", set())
    key = (label, cond.e.hash(), len(ctx.pc), tuple(ctx.trail[: ctx.pos]))
    if key in cache:
        return True
    ok = env.check(cond, label)
    if ok:
        cache.add(key)
    return ok



# ---------------------------------------------------------------------------
# invariant
# ---------------------------------------------------------------------------
def strictly_between(x, p, q):
    """x strictly between p and q (either orientation)."""
    return b_or(b_and(p < x, x < q), b_and(q < x, x < p))


def weakly_between(x, p, q):
    return b_or(b_and(p <= x, x <= q), b_and(q <= x, x <= p))


def binv(rf, zeros=False):
    """Representation invariant of a finder *between* provide_ordinate / the
    constructor and the next get_next_abscissa.

    core   : a != b, sign change fa*fb < 0, b is the better guess |fb| <= |fa|
    history: (c, fc) is one of
       F1  c = b, fc = fb                      (a was replaced, no swap)
       F2  c = a, fc = fa                      (initial state / a replaced, swap)
       F3  c strictly beyond b, fc has the sign of fb, |fc| <= |fa|
       F4  c strictly beyond a, fc has the sign of fa, |fc| <= |fb|
             d is not strictly inside the bracket.
    zeros=True is the weak variant for exact-zero ordinates: fa*fb <= 0, and the
    sign facts about fc are weak.
    """
    a, b, c, d, fa, fb, fc = rf.a, rf.b, rf.c, rf.d, rf.fa, rf.fb, rf.fc
    if zeros:
        core = b_and(a != b, fa * fb <= 0, abs(fb) <= abs(fa))
        f3 = b_and(strictly_between(b, a, c), fc * fb >= 0, abs(fc) <= abs(fa))
        f4 = b_and(strictly_between(a, b, c), fc * fa >= 0, abs(fc) <= abs(fb))
    else:
        core = b_and(a != b, fa * fb < 0, abs(fb) <= abs(fa))
        f3 = b_and(strictly_between(b, a, c), fc * fb > 0, abs(fc) <= abs(fa))
        f4 = b_and(strictly_between(a, b, c), fc * fa > 0, abs(fc) <= abs(fb))
    f1 = b_and(c == b, fc == fb)
    f2 = b_and(c == a, fc == fa)
    hist = b_or(f1, f2, f3, f4)
    d_out = b_not(strictly_between(d, a, b))
    return b_and(core, hist, d_out)


# ---------------------------------------------------------------------------
# divisors of get_next_abscissa (division by a symbol does not raise in sym mode)
# ---------------------------------------------------------------------------
DIV = "no ZeroDivisionError in get_next_abscissa: "


def divisor_vcs(env, rf):
    """One VC per divisor the next get_next_abscissa() evaluates on the branch
    it takes; returns their conjunction."""
    eps = rf.epsilon
    fa, fb, fc = rf.fa, rf.fb, rf.fc
    sec = b_or(abs(fc - fa) < eps, abs(fc - fb) < eps)
    iqi = b_not(sec)
    conds = [
        (b_implies(sec, fa != fb), "secant divisor fa - fb is non-zero"),
        (b_implies(iqi, fa != 0), "interpolation divisor fa (s = fb/fa) is non-zero"),
        (b_implies(iqi, fc != 0), "interpolation divisor fc (r = fb/fc, t = fa/fc) is non-zero"),
        (
            b_implies(iqi, b_and(fa != fc, fb != fa, fb != fc)),
            "interpolation divisor q = (t-1)(s-1)(r-1) is non-zero",
        ),
    ]
    ok = True
    for c, lab in conds:
        vc(env, c, DIV + lab)
        ok = b_and(ok, c)
    return ok


def guarded_next(env, rf, call=None):
    """get_next_abscissa() under Python-float division semantics: in symbolic
    mode a division whose divisor can be zero forks and raises ZeroDivisionError
    on that branch, exactly as the real floats do; a reachable ZeroDivisionError
    is reported (and replayed on the real code)."""
    import symex.poly as P

    call = call or rf.get_next_abscissa
    old = P.STRICT_SCALAR_DIV
    P.STRICT_SCALAR_DIV = True
    try:
        return call()
    except ZeroDivisionError:
        env.fail(DIV + "a divisor is zero on a reachable state")
        raise _Stop()
    finally:
        P.STRICT_SCALAR_DIV = old


# ---------------------------------------------------------------------------
# inputs
# ---------------------------------------------------------------------------
EPS_KINDS = ("1", "1e-6", "sym")


def epsilon(env, kind):
    if kind == "1":
        return 1  # the noisy MPS solver's value (an int there, too)
    if kind == "1e-6":
        return 1e-6  # the default
    if kind == "0":
        return 0.0  # boundary value: the secant test is never true, delta = 0 (seed C19d)
    e = env.real("eps", lo=0.0, hi=2.0)
    env.assume(e > 0, "epsilon > 0")
    return e


def pos(env, name, hi=None, sample=4.0):
    """a real > 0 (sample only steers the concrete sampler, not the symbolic domain)."""
    v = env.real(name, hi=hi, default_range=(0.0, sample if hi is None else hi))
    env.assume(v > 0, f"{name} > 0")
    return v


def nonneg(env, name, hi=None, sample=4.0):
    v = env.real(name, hi=hi, default_range=(0.0, sample if hi is None else hi))
    env.assume(v >= 0, f"{name} >= 0")
    return v


FORMS = ("c_is_b", "c_is_a", "beyond_b", "beyond_a")


def arbitrary_finder(env, eps_kind, form, zeros=False, b=None, sample=4.0):
    """An arbitrary finder state satisfying BInv, built from sign / orientation
    choices and positive magnitudes (so that concrete sampling works too)."""
    bm = env.mod("emu_base.math.brents_root_finding")
    rf = object.__new__(bm.BrentsRootFinder)
    rf.epsilon = epsilon(env, eps_kind)
    orient = env.choice("orientation(a-b)", [1, -1])
    sgn = env.choice("sign(fa)", [1, -1])
    if b is None:
        b = env.real("b")
    w = pos(env, "w", sample=sample)
    a = b + orient * w
    P = nonneg if zeros else pos
    if form == "beyond_a":
        mfc = P(env, "|fc|")
        mfb = mfc + nonneg(env, "|fb|-|fc|")
    else:
        mfb = P(env, "|fb|")
    mfa = mfb + nonneg(env, "|fa|-|fb|")
    env.assume(mfa > 0, "fa != 0")
    fa, fb = sgn * mfa, -sgn * mfb
    if form == "c_is_b":
        c, fc = b, fb
    elif form == "c_is_a":
        c, fc = a, fa
    elif form == "beyond_b":
        c = b - orient * pos(env, "e_c", sample=sample)
        mfc = P(env, "|fc|")
        env.assume(mfc <= mfa, "|fc| <= |fa|")
        fc = -sgn * mfc
    else:
        c = a + orient * pos(env, "e_c", sample=sample)
        fc = sgn * mfc
    d = env.real("d", default_range=(-12.0, 12.0))
    env.assume(b_not(strictly_between(d, a, b)), "d is not strictly inside the bracket")
    rf.a, rf.b, rf.c, rf.d = a, b, c, d
    rf.fa, rf.fb, rf.fc = fa, fb, fc
    rf.bisection = env.boolean("bisection")
    rf.current_guess = b
    rf.next_abscissa = None
    return rf


def secant_branch(rf):
    """predicate of the first `if` in get_next_abscissa (no fork)."""
    return b_or(abs(rf.fc - rf.fa) < rf.epsilon, abs(rf.fc - rf.fb) < rf.epsilon)


def check_convergence(env, rf, tol, a2, b2, fa2, fb2):
    conv = rf.is_converged(tol)
    g = rf.current_guess
    vc(env, 
        b_implies(conv, b_and(g == b2, abs(g - a2) < tol, abs(g - b2) < tol, fa2 * fb2 <= 0)),
        "at convergence current_guess is within tolerance of both ends of a bracket with a sign change",
    )
    vc(env, b_implies(b_not(conv), abs(a2 - b2) >= tol), "not converged means |b-a| >= tolerance")
    return conv


# ---------------------------------------------------------------------------
# case: one inductive step  (non-zero ordinates)
# ---------------------------------------------------------------------------
def inductive_step(eps_kind, form):
    def fn(env):
        rf = arbitrary_finder(env, eps_kind, form)
        vc(env, binv(rf), "constructed pre-state satisfies BInv")
        a, b, fa, fb = rf.a, rf.b, rf.fa, rf.fb
        c0 = rf.c
        sec = secant_branch(rf)
        try:
            x = guarded_next(env, rf)
        except _Stop:
            return
        bis = rf.bisection
        vc(env, x == rf.next_abscissa, "get_next_abscissa returns next_abscissa")
        vc(env, weakly_between(x, a, b), "next abscissa lies in the closed bracket")
        vc(env, x != a, "next abscissa is not the far end a")
        inside = strictly_between(x, a, b)
        vc(env, b_or(inside, x == b), "next abscissa is strictly inside the bracket, or it is b itself")
        vc(env, 
            b_implies(b_or(sec, bis), inside),
            "a secant step and a bisection step query strictly inside the bracket",
        )
        if env.mutant("strict_always"):
            vc(env, inside, "next abscissa is strictly inside the bracket, or it is b itself")
        vc(env, b_implies(bis, x == (a + b) / 2), "a bisection step queries the midpoint")
        hist = b_and(rf.c == b, rf.fc == fb, rf.d == c0)
        if env.mutant("wrong_history"):
            hist = b_and(rf.c == a, rf.fc == fa)
        vc(env, hist, "history shifted: c,fc = b,fb and d = old c")
        vc(env, 
            b_and(rf.a == a, rf.b == b, rf.fa == fa, rf.fb == fb),
            "get_next_abscissa leaves the bracket unchanged",
        )
        if x == b:
            # stall step: an accepted inverse-quadratic step with dx = 0 re-queries b; the
            # function value there is known (function-consistent ordinate)
            vc(env, b_and(b_not(sec), not bis), "x = b only on an accepted inverse-quadratic step")
            vc(env, form == "beyond_b", "x = b only when c lies strictly beyond b")
            rf.provide_ordinate(x, fb)
            vc(env, 
                b_and(rf.a == a, rf.b == b, rf.fa == fa, rf.fb == fb, rf.c == b, rf.fc == fb),
                "after re-querying b the bracket is unchanged and the history has form F1 (next step is a secant step)",
            )
            vc(env, binv(rf), "BInv is inductive")
            return
        y = env.real("y", nonzero=True)
        rf.provide_ordinate(x, y)
        a2, b2, fa2, fb2 = rf.a, rf.b, rf.fa, rf.fb
        vc(env, 
            b_and(weakly_between(a2, a, b), weakly_between(b2, a, b)),
            "new bracket is contained in the old one",
        )
        shrink = abs(a2 - b2) < abs(a - b)
        if env.mutant("halves"):
            shrink = abs(a2 - b2) * 2 <= abs(a - b)
        vc(env, shrink, "new bracket is strictly shorter")
        vc(env, b_and(fa2 * fb2 <= 0, fa2 * fb2 < 0), "fa'*fb' <= 0 (and < 0 for a non-zero ordinate)")
        vc(env, abs(fb2) <= abs(fa2), "|fb'| <= |fa'|")
        vc(env, 
            b_or(b_and(a2 == x, fa2 == y), b_and(b2 == x, fb2 == y)),
            "the queried point is an end of the new bracket",
        )
        vc(env, binv(rf), "BInv is inductive")
        tol = pos(env, "tol")
        check_convergence(env, rf, tol, a2, b2, fa2, fb2)

    return fn


# ---------------------------------------------------------------------------
# case: base case — the real constructor establishes BInv
# ---------------------------------------------------------------------------
def bracket_inputs(env, geometry=None, ends=None, fbound=None):
    if ends is not None:
        start, end = geometry
        fs, fe = env.choice("(f_start, f_end)", ends)
        return start, end, fs, fe
    if geometry is None:
        start = env.real("start")
        w = pos(env, "width", hi=8.0)
        end = start + w
    else:
        start, end = geometry
    sgn = env.choice("sign(f_start)", [1, -1])
    m1 = pos(env, "|f_start|", hi=fbound)
    m2 = pos(env, "|f_end|", hi=fbound)
    return start, end, sgn * m1, -sgn * m2


def base_case():
    def fn(env):
        bm = env.mod("emu_base.math.brents_root_finding")
        start, end, fs, fe = bracket_inputs(env)
        eps = epsilon(env, env.choice("epsilon", list(EPS_KINDS) + ["0"]))
        rf = bm.BrentsRootFinder(start=start, end=end, f_start=fs, f_end=fe, epsilon=eps)
        inv = binv(rf)
        if env.mutant("a_is_better"):
            inv = b_and(inv, abs(rf.fa) <= abs(rf.fb))
        vc(env, inv, "the constructor establishes BInv")
        vc(env, 
            b_or(
                b_and(rf.a == start, rf.b == end, rf.fa == fs, rf.fb == fe),
                b_and(rf.a == end, rf.b == start, rf.fa == fe, rf.fb == fs),
            ),
            "the initial bracket is [start, end] with the given ordinates",
        )
        vc(env, b_and(rf.c == rf.a, rf.fc == rf.fa, rf.d == rf.a), "initial history is c = d = a")
        vc(env, rf.bisection is True and rf.next_abscissa is None, "bisection flag is set initially")
        vc(env, rf.current_guess == rf.b, "current_guess is b")
        vc(env, rf.epsilon is eps, "epsilon stored")
        # same-sign (or zero) end values are rejected
        bad = env.choice("bad ends", ["same sign", "zero start", "reversed"])
        if bad == "same sign":
            env.check_raises(
                lambda: bm.BrentsRootFinder(start=start, end=end, f_start=fs, f_end=-fe, epsilon=eps),
                (AssertionError,),
                "same-sign end values are rejected",
            )
        elif bad == "zero start":
            env.check_raises(
                lambda: bm.BrentsRootFinder(start=start, end=end, f_start=0.0, f_end=fe, epsilon=eps),
                (AssertionError,),
                "a zero end value is rejected",
            )
        else:
            env.check_raises(
                lambda: bm.BrentsRootFinder(start=end, end=start, f_start=fs, f_end=fe, epsilon=eps),
                (AssertionError,),
                "start > end is rejected",
            )

    return fn


# ---------------------------------------------------------------------------
# case: T1 — ranking lemma (pure bisection regime)
# ---------------------------------------------------------------------------
def t1_lemma(eps_kind):
    """lo > 0, hi - lo < 2*eps*lo, a, b, c in [lo, hi], bisection flag set  ==>
    the step bisects, the flag stays set, the bracket halves, and a', b', c' stay
    in [lo, hi] (so the hypothesis is inductive): the finder stops after
    ceil(log2(width/tolerance)) steps for every ordinate sequence."""

    def fn(env):
        form = env.choice("history form", list(FORMS))
        lo = pos(env, "lo", sample=4.0)
        span = pos(env, "span", sample=8.0)
        hi = lo + span
        rf = arbitrary_finder(env, eps_kind, form, b=lo + nonneg(env, "b-lo", sample=0.25), sample=0.25)
        eps = rf.epsilon
        env.assume(span < 2 * eps * lo, "hi - lo < 2*eps*lo")
        for nm in ("a", "b", "c"):
            v = getattr(rf, nm)
            env.assume(b_and(lo <= v, v <= hi), f"{nm} in [lo, hi]")
        if not env.mutant("flag_not_set"):
            env.assume(rf.bisection is True, "bisection flag set")
        a, b = rf.a, rf.b
        try:
            x = guarded_next(env, rf)
        except _Stop:
            return
        vc(env, rf.bisection is True, "T1: the flag stays set")
        vc(env, x == (a + b) / 2, "T1: the next abscissa is the midpoint")
        y = env.real("y", nonzero=True)
        rf.provide_ordinate(x, y)
        half = abs(rf.a - rf.b) * 2 == abs(a - b)
        if env.mutant("quarter"):
            half = abs(rf.a - rf.b) * 4 <= abs(a - b)
        vc(env, half, "T1: the bracket halves")
        inr = b_and(*[b_and(lo <= getattr(rf, nm), getattr(rf, nm) <= hi) for nm in ("a", "b", "c")])
        vc(env, inr, "T1: a', b', c' stay in [lo, hi] (hypothesis is inductive)")
        vc(env, binv(rf), "BInv is inductive")

    return fn


# ---------------------------------------------------------------------------
# case: bounded unrolling through the real find_root_brents
# ---------------------------------------------------------------------------
def instrumented(env, bm, log, zeros):
    Real = bm.BrentsRootFinder

    class Instrumented(Real):  # the real class + VCs in front of every step
        def __init__(self, **kw):
            Real.__init__(self, **kw)
            log["finder"] = self
            log["lo"], log["hi"] = kw["start"], kw["end"]

        def get_next_abscissa(self):
            k = log["steps"]
            weak = zeros and not env.mutant("strict_sign_change")
            vc(env, binv(self, zeros=weak), f"state reached after {k} steps satisfies BInv")
            a, b = self.a, self.b
            x = guarded_next(env, self, lambda: Real.get_next_abscissa(self))
            vc(env, weakly_between(x, a, b), f"query {k + 1} lies in the current bracket")
            lo, hi = log["lo"], log["hi"]
            if env.mutant("open_interval_from_start"):
                lo = lo + (hi - lo) / 4
            vc(env, b_and(lo <= x, x <= hi), f"query {k + 1} lies in the original interval")
            log["steps"] = k + 1
            return x

    return Real, Instrumented


def unrolling(eps_kind, depth, zeros=False, geometry=None, tolerance=None, ends=None, fbound=None):
    def fn(env):
        bm = env.mod("emu_base.math.brents_root_finding")
        start, end, fs, fe = bracket_inputs(env, geometry, ends, fbound)
        eps = epsilon(env, eps_kind)
        tol = pos(env, "tol", hi=2.0) if tolerance is None else tolerance
        table = []  # (abscissa, ordinate) in evaluation order
        log = {"steps": 0}

        def f(x):
            if len(table) == 0:
                y = fs
            elif len(table) == 1:
                y = fe
            else:
                for xp, yp in table:
                    if x == xp:  # function-consistent re-query (forks; infeasible when x is new)
                        table.append((x, yp))
                        return yp
                k = len(table) - 1
                if k > depth:
                    raise _Stop()  # bound of the unrolling: nothing is claimed beyond it
                if zeros and env.boolean(f"y{k} is exactly zero"):
                    y = 0.0
                else:
                    y = env.real(f"y{k}", nonzero=True, lo=None if fbound is None else -fbound, hi=fbound)
            table.append((x, y))
            return y

        Real, Inst = instrumented(env, bm, log, zeros)
        bm.BrentsRootFinder = Inst
        try:
            root = bm.find_root_brents(f, start=start, end=end, tolerance=tol, epsilon=eps)
        except _Stop:
            return
        finally:
            bm.BrentsRootFinder = Real
        rf = log["finder"]
        vc(env, b_and(start <= root, root <= end), "the returned point lies in [start, end]")
        far = rf.a if not env.mutant("far_end_is_start") else start
        at_ends = b_and(
            root == rf.b,
            abs(rf.b - far) < tol,
            rf.fa * rf.fb <= 0,
            b_or(*[b_and(rf.a == xp, rf.fa == yp) for xp, yp in table]),
            b_or(*[b_and(rf.b == xp, rf.fb == yp) for xp, yp in table]),
        )
        vc(env, 
            at_ends,
            "the returned point is an evaluated point within tolerance of another evaluated point with an ordinate of opposite (or zero) sign",
        )

    return fn


META = {
    "explanation": (
        "The real BrentsRootFinder (constructor, get_next_abscissa, provide_ordinate, is_converged) and find_root_brents "
        "are executed on symbolic Python scalars; every comparison in the code forks the path explorer, abs() and "
        "divisions become atoms with defining axioms, and each post-condition is a z3 query on the path. "
        "(1) base_*: the real constructor, on symbolic start < end and end values of opposite sign, establishes the "
        "representation invariant BInv (a != b, fa*fb < 0, |fb| <= |fa|, the previous iterate (c, fc) is b, a, or a point "
        "strictly beyond b / beyond a with the matching sign and magnitude bound, d not strictly inside the bracket). "
        "(2) step_*: ONE get_next_abscissa + provide_ordinate from an ARBITRARY state satisfying BInv (all sign / "
        "orientation / flag configurations, symbolic epsilon > 0 and the solver's epsilon = 1) with an arbitrary non-zero "
        "ordinate: every divisor is non-zero, the query lies in the closed bracket and is never the far end, it is strictly "
        "inside for every secant and every bisection step, the new bracket is contained in the old one and strictly "
        "shorter, fa'*fb' < 0, |fb'| <= |fa'|, the queried point is an end of the new bracket, BInv holds again, and at "
        "convergence current_guess is within the tolerance of both ends of a bracket with a sign change. By induction all "
        "queries lie in the original interval and the returned point is an evaluated point within the tolerance of an "
        "evaluated point of opposite sign. An accepted inverse-quadratic step can have dx = 0 (a measure-zero coincidence): "
        "the finder then re-queries b, the bracket is unchanged and the next step is a secant step strictly inside - "
        "this case is verified separately (function-consistent ordinate). "
        "(3) t1_*: ranking lemma T1 - if all iterates lie in [lo, hi] with lo > 0 and hi - lo < 2*eps*lo and the bisection "
        "flag is set (it is set initially), the step is a bisection, the flag stays set, the bracket halves exactly and "
        "the hypothesis is preserved: the finder stops after ceil(log2(width/tolerance)) steps for EVERY ordinate sequence. "
        "(4) unroll_*: the real find_root_brents loop from the real constructor with adversarial symbolic ordinates for a "
        "bounded number of queries (reachability witness for BInv and the post-conditions, and a check of the returned "
        "value). (5) zero_ordinate_*: same unrolling where every ordinate may be exactly 0, with one VC per divisor of "
        "get_next_abscissa (division by a symbol does not raise in symbolic mode, so the divisors are modelled explicitly "
        "and the model is validated against the real ZeroDivisionError on every concrete replay)."
    ),
    "outside": [
        "termination outside the T1 regime (first time step of a grid, default epsilon = 1e-6 on wide brackets): only the "
        "bounded unrolling; this variant has no minimal step and a one-step ranking argument does not exist over the reals",
        "unrolling depth: 1-2 queries (quick) / 2-3 queries (thorough); symbolic interval ends only in the base case, the "
        "inductive step and one thorough unrolling; otherwise the fixed interval [0,4] (and two fixed end-value pairs for "
        "epsilon = 1e-6, where chained inverse-quadratic steps make deeper symbolic unrollings intractable for z3)",
        "floating-point rounding (the program is read over exact reals); non-finite values",
        "the bound ceil(log2(width/tol)) derived from T1 is arithmetic on the halving lemma, not a query",
    ],
    "assumptions": [
        "ordinates are non-zero except in the zero_ordinate_* cases",
        "the function is single-valued: a re-queried abscissa gets the ordinate it had before",
        "epsilon > 0, tolerance > 0, start < end",
    ],
}


ZERO_ENDS = [(1.0, -2.0), (-3.0, 0.5)]


def cases(tier):
    quick = tier == "quick"
    out = []
    eps_main = ("sym",) if quick else EPS_KINDS  # symbolic eps > 0 subsumes every constant
    # epsilon = 0 is the boundary the symbolic kind excludes: every step goes through the inverse-quadratic
    # branch (also the first one, where c = a makes its denominator vanish) - added after seed C19d
    for e in tuple(eps_main) + ("0",):
        for form in FORMS:
            beyond = form.startswith("beyond")
            out.append(
                Case(
                    name=f"step_eps{e}_{form}",
                    fn=inductive_step(e, form),
                    covers=COVERS[1:4],
                    bounds={"epsilon": e, "history form": form, "steps": "1 (inductive)"},
                    canaries=(["wrong_history"] if e == "0" else ["halves", "wrong_history"]) + (["strict_always"] if form == "beyond_b" and e != "0" else []),
                    weight=3.0 if beyond else 1.0,
                )
            )
    out.append(
        Case(
            name="base_constructor",
            fn=base_case(),
            covers=COVERS[:1],
            bounds={"epsilon": list(EPS_KINDS) + ["0"], "width": "(0, 8]"},
            canaries=["a_is_better"],
            weight=0.2,
        )
    )
    for e in eps_main:
        out.append(
            Case(
                name=f"t1_eps{e}",
                fn=t1_lemma(e),
                covers=COVERS[1:3],
                bounds={"epsilon": e, "history form": list(FORMS), "regime": "lo > 0, hi - lo < 2*eps*lo, flag set"},
                canaries=["flag_not_set", "quarter"],
                weight=2.0,
            )
        )
    # secant regime of the noisy solver: eps = 1 and |f| <= 1/2 (differences < 1 = eps)
    for geo, depth in ([((0.0, 4.0), 2)] if quick else [((0.0, 4.0), 3), (None, 2)]):
        out.append(
            Case(
                name=f"unroll_secant_{'fixed' if geo else 'sym'}_d{depth}",
                fn=unrolling("1", depth, geometry=geo, tolerance=1.0, fbound=0.5),
                covers=COVERS,
                bounds={"epsilon": 1, "queries": depth, "interval": geo or "symbolic, width (0, 8]", "tolerance": 1,
                        "|f|": "(0, 1/2]"},
                canaries=["open_interval_from_start", "far_end_is_start"],
                weight=10.0,
            )
        )
    for depth in ([1] if quick else [2]):
        out.append(
            Case(
                name=f"unroll_eps1e-6_d{depth}",
                fn=unrolling("1e-6", depth, geometry=(0.0, 4.0), tolerance=1.5, ends=[(-3.0, 1.0), (0.5, -2.0)]),
                covers=COVERS,
                bounds={"epsilon": 1e-6, "queries": depth, "interval": (0.0, 4.0), "tolerance": 1.5,
                        "(f_start, f_end)": [(-3.0, 1.0), (0.5, -2.0)], "ordinates": "symbolic, non-zero"},
                canaries=["open_interval_from_start", "far_end_is_start"],
                weight=10.0,
                timeout_ms=60000,
            )
        )
    # exact-zero ordinates: divisors of get_next_abscissa on states reached from the real
    # constructor through the real find_root_brents (pure-bisection geometries, so the
    # abscissae are concrete and only the ordinates are symbolic)
    zends = ZERO_ENDS[:1] if quick else ZERO_ENDS
    for tag, e, geo, tol in (("eps1", "1", (2.0, 3.0), 0.125), ("eps1e-6", "1e-6", (1000000.0, 1000001.0), 0.125)):
        out.append(
            Case(
                name=f"zero_ordinate_unroll_{tag}",
                fn=unrolling(e, 2, zeros=True, geometry=geo, tolerance=tol, ends=zends),
                covers=COVERS,
                bounds={"epsilon": e, "interval": geo, "tolerance": tol, "queries": 2,
                        "(f_start, f_end)": zends, "ordinates": "symbolic, each may be exactly 0"},
                canaries=["strict_sign_change"],
                weight=2.0,
                # no random concrete runs: a random run that draws an exact zero hits the defect this case
                # is about; the solver's counterexamples are still replayed on the real code
                conc_samples=0,
            )
        )
    return out
