"""C02 — emu-mps TDVP runs reproduce the Pulser Hamiltonian dynamics (decidable
part: effective Hamiltonians are projections of the MPO Hamiltonian, the sweep
schedule is second-order two-site TDVP, the MPO is updated to each step's drive)."""

import dataclasses
from types import SimpleNamespace

from symex.api import Case
from symex import refs
from harness.svcommon import make_data
from harness.mpscommon import build_mps_impl, mps_config, h_ref_internal, all_perms

PROPERTY = "C02"

COVERS_PROJ = [
    ("emu_mps/solver_utils.py", "make_op"),
    ("emu_mps/solver_utils.py", "EffectiveHamiltonian.__init__"),
    ("emu_mps/solver_utils.py", "EffectiveHamiltonian.__call__"),
    ("emu_mps/solver_utils.py", "evolve_pair"),
    ("emu_mps/solver_utils.py", "evolve_single"),
    ("emu_mps/solver_utils.py", "minimize_energy_pair"),
    ("emu_mps/solver_utils.py", "new_right_bath"),
    ("emu_mps/solver_utils.py", "right_baths"),
    ("emu_mps/utils.py", "new_left_bath"),
    ("emu_mps/hamiltonian.py", "make_H"),
    ("emu_mps/hamiltonian.py", "update_H"),
]
COVERS_SCHED = [
    ("emu_mps/mps_backend_impl.py", "MPSBackendImpl.progress"),
    ("emu_mps/mps_backend_impl.py", "MPSBackendImpl._left_to_right_update_tdvp"),
    ("emu_mps/mps_backend_impl.py", "MPSBackendImpl._right_to_left_update_tdvp"),
    ("emu_mps/mps_backend_impl.py", "MPSBackendImpl._evolve"),
    ("emu_mps/mps_backend_impl.py", "MPSBackendImpl.sweep_complete"),
]
COVERS_UPD = [
    ("emu_mps/mps_backend_impl.py", "MPSBackendImpl.__init__"),
    ("emu_mps/mps_backend_impl.py", "MPSBackendImpl.init_noiseless_hamiltonian"),
    ("emu_mps/mps_backend_impl.py", "MPSBackendImpl.timestep_complete"),
    ("emu_mps/mps_backend_impl.py", "MPSBackendImpl.update_H"),
    ("emu_mps/mps_backend_impl.py", "MPSBackendImpl._get_interaction_matrix"),
]


def embed_matrix(env, factors, sites, d):
    """Dense matrix V of the linear map (tensor on `sites`) -> full state, all
    other MPS factors fixed: column j = contraction with the j-th basis tensor."""
    T = env.torch
    lo, hi = sites[0], sites[-1]
    shp = (factors[lo].shape[0],) + (d,) * len(sites) + (factors[hi].shape[2],)
    size = 1
    for s in shp:
        size *= s
    cols = []
    for j in range(size):
        e = T.zeros(size, dtype=T.complex128)
        e[j] = 1.0
        e = e.reshape(*shp)
        acc = None
        for k, f in enumerate(factors):
            if k == lo:
                piece = e
            elif lo < k <= hi:
                continue
            else:
                piece = f
            acc = piece if acc is None else T.tensordot(acc, piece, dims=([acc.dim() - 1], [0]))
        cols.append(acc.reshape(-1))
    return T.stack(cols, dim=1), shp


def projection(n, d, chi, kind, which):
    """which in {"pair","single","dmrg"}; the site is chosen by the explorer."""

    def fn(env):
        T = env.torch
        su = env.mod("emu_mps.solver_utils")
        ut = env.mod("emu_mps.utils")
        hm = env.mod("emu_mps.hamiltonian")
        mps_mod = env.mod("emu_mps.mps")
        HT = env.mod("emu_base").HamiltonianType
        dims = [1] + [chi] * (n - 1) + [1]
        factors = [env.tensor_cplx(f"A{k}", (dims[k], d, dims[k + 1])) for k in range(n)]
        U = env.sym_matrix("U", n)
        om = env.tensor_real("omega", (n,), dtype=T.complex128)
        de = env.tensor_real("delta", (n,), dtype=T.complex128)
        ph = env.tensor_real("phi", (n,), dtype=T.complex128)
        H = hm.make_H(interaction_matrix=U, hamiltonian_type=HT.Rydberg if kind == "rydberg" else HT.XY, dim=d, num_gpus_to_use=0)
        hm.update_H(H, om, de, ph, T.zeros(d, d, dtype=T.complex128))
        Hd = (refs.dense_rydberg if kind == "rydberg" else refs.dense_xy)(T, om, de, ph, U, n, d)
        if which == "single":
            site = env.choice("site", list(range(n)))
            sites = [site]
        else:
            site = env.choice("site", list(range(n - 1)))
            sites = [site, site + 1]
        eig = ["r", "g"] if d == 2 else ["g", "r", "x"]
        state = mps_mod.MPS([f.clone() for f in factors], orthogonality_center=site, num_gpus_to_use=0, eigenstates=eig)
        # baths exactly as the backend builds them
        left = T.ones(1, 1, 1, dtype=T.complex128)
        for k in range(sites[0]):
            left = ut.new_left_bath(left, state.factors[k], H.factors[k])
        right = su.right_baths(state, H, final_qubit=sites[-1] + 1)[-1]
        captured = {}

        def fake_krylov(op, v, **kw):
            captured["op"], captured["v"], captured["kw"] = op, v.clone(), kw
            return v

        def fake_min(op, v, **kw):
            captured["op"], captured["v"], captured["kw"] = op, v.clone(), kw
            return v, 0.0

        def fake_split(m, **kw):
            captured["split"] = kw
            return m, T.eye(m.shape[1], dtype=T.complex128)

        saved = (su.krylov_exp, su.krylov_energy_minimization, su.split_matrix, su.deallocate_tensor)
        su.krylov_exp, su.krylov_energy_minimization, su.split_matrix = fake_krylov, fake_min, fake_split
        su.deallocate_tensor = lambda t: None
        dt = env.real("dt", lo=0.0, hi=50.0)
        cfg = SimpleNamespace(precision=1e-5, extra_krylov_tolerance=1e-3, max_krylov_dim=100, max_bond_dim=1024)
        try:
            if which == "pair":
                su.evolve_pair(
                    state_factors=[state.factors[site], state.factors[site + 1]],
                    baths=(left, right),
                    ham_factors=[H.factors[site], H.factors[site + 1]],
                    dt=dt,
                    orth_center_right=True,
                    is_hermitian=True,
                    config=cfg,
                    dim=d,
                )
                ts = (-1.0j) * 0.001 * dt
            elif which == "single":
                su.evolve_single(state_factor=state.factors[site], baths=(left, right), ham_factor=H.factors[site], dt=dt, is_hermitian=True, config=cfg)
                ts = (-1.0j) * 0.001 * dt
            else:
                su.minimize_energy_pair(
                    state_factors=[state.factors[site], state.factors[site + 1]],
                    baths=(left, right),
                    ham_factors=[H.factors[site], H.factors[site + 1]],
                    orth_center_right=True,
                    config=cfg,
                    residual_tolerance=1e-5,
                )
                ts = 1.0
        finally:
            su.krylov_exp, su.krylov_energy_minimization, su.split_matrix, su.deallocate_tensor = saved
        if env.mutant("wrong_time_unit"):
            ts = ts * 1000.0
        V, shp = embed_matrix(env, factors, sites, d)
        # the vector handed to the Krylov routine is the tensor at the site(s)
        x = captured["v"]
        want_x = factors[site] if which == "single" else T.tensordot(factors[site], factors[site + 1], dims=1)
        env.check_eq(x.reshape(-1), want_x.reshape(-1), "the local tensor handed to the solver is the (contracted) state tensor")
        got = captured["op"](x.clone()).reshape(-1)
        Vdag = V.mH
        if env.mutant("no_projection_conj"):
            Vdag = V.mT
        want = ts * (Vdag @ (Hd @ (V @ want_x.reshape(-1))))
        env.check_eq(got, want, f"{which}: op(x) = time_step * V^dag H V x  (n={n}, d={d}, chi={chi}, {kind})")
        # linearity on a second, symbolic tensor
        y = env.tensor_cplx("y", tuple(x.shape))
        env.check_eq(captured["op"](y.clone()).reshape(-1), ts * (V.mH @ (Hd @ (V @ y.reshape(-1)))), f"{which}: op(y) for an arbitrary local tensor y")

    return fn


def schedule(n):
    """One full time step of progress() calls = second-order two-site TDVP sweep."""

    def fn(env):
        T = env.torch
        mm = env.mod("emu_mps.mps_backend_impl")
        t0 = env.real("t0", lo=0.0, hi=50.0)
        t1 = env.real("t1", lo=0.0, hi=100.0)
        env.assume(t1 > t0, "step has positive length")
        events = []

        def rec_pair(*, state_factors, baths, ham_factors, dt, config, orth_center_right, is_hermitian, dim):
            events.append(("pair", tuple(state_factors), dt, orth_center_right, baths))
            return state_factors[0], state_factors[1]

        def rec_single(*, state_factor, baths, ham_factor, dt, config, is_hermitian):
            events.append(("single", state_factor, dt, None, baths))
            return state_factor

        impl = object.__new__(mm.MPSBackendImpl)
        impl.config = mps_config(autosave_dt=float("inf"))  # (every MPSConfig option; dt unrelated to the symbolic grid)
        impl.qubit_count = n
        impl.current_time = t0
        impl.target_time = t1
        impl.timestep_count = 5
        impl._timestep_index = 0
        impl.has_lindblad_noise = False
        impl.dim = 2
        impl.state = SimpleNamespace(factors=[f"A{k}" for k in range(n)], orthogonality_center=0)
        impl.hamiltonian = SimpleNamespace(factors=[f"W{k}" for k in range(n)])
        impl.left_baths = ["L0"]
        impl.right_baths = [f"R{k}" for k in range(n - 1)]  # as init_baths: n-1 entries
        impl.last_save_time = 0.0
        done = []
        impl.timestep_complete = lambda: done.append(impl.current_time)
        saved = (mm.evolve_pair, mm.evolve_single, mm.new_left_bath, mm.new_right_bath, mm.deallocate_tensor)
        mm.evolve_pair, mm.evolve_single = rec_pair, rec_single

        class Tok(str):
            def to(self, *a, **k):
                return self

        mm.new_left_bath = lambda bath, st, op: Tok(f"L({st})")
        mm.new_right_bath = lambda bath, st, op: Tok(f"R({st})")
        mm.deallocate_tensor = lambda t: None
        # factors are tokens: give them a device attribute through a tiny wrapper
        class F(str):
            device = "cpu"

        impl.state.factors = [F(f"A{k}") for k in range(n)]
        calls = 0
        try:
            while not done and calls < 4 * n + 4:
                impl.progress()
                calls += 1
        finally:
            mm.evolve_pair, mm.evolve_single, mm.new_left_bath, mm.new_right_bath, mm.deallocate_tensor = saved
        env.check(len(done) == 1, "the time step completes after finitely many progress() calls")
        env.check(env.eqv(done[0], t1), "the step completes at its target time") if done else None
        dt = t1 - t0
        exp = []
        if n == 2:
            exp.append(("pair", (0, 1), dt, False))
        else:
            for i in range(n - 2):
                exp.append(("pair", (i, i + 1), dt / 2, True))
                exp.append(("single", (i + 1,), -dt / 2, None))
            exp.append(("pair", (n - 2, n - 1), dt, False))
            for i in range(n - 2, 0, -1):
                exp.append(("single", (i,), -dt / 2, None))
                exp.append(("pair", (i - 1, i), dt / 2, False))
        if env.mutant("first_order") and n > 2:
            exp = [(k, s, d * 2 if k == "pair" and s != (n - 2, n - 1) else d, o) for k, s, d, o in exp]
        env.check(len(events) == len(exp), f"number of local evolutions in one TDVP step (n={n})")
        for k, (ev, ex) in enumerate(zip(events, exp)):
            kind, fs, edt, ocr, baths = ev
            names = tuple(int(str(f)[1:]) for f in (fs if kind == "pair" else (fs,)))
            env.check(kind == ex[0] and names == ex[1] and ocr == ex[3], f"local evolution #{k} acts on the scheduled site(s) with the scheduled centre move (n={n})")
            env.check(env.eqv(edt, ex[2]), f"local evolution #{k} uses the scheduled time step (n={n})")
        env.check(len(impl.left_baths) == 1 and len(impl.right_baths) == n - 1 if n > 2 else True, "baths are back to their start-of-step shape")
        env.check(impl.state.orthogonality_center == 0, "orthogonality centre is back on the first site")

    return fn


def drive_update(n, steps, kind, reorder, slm):
    """The MPO the solver uses during step k is the Hamiltonian of step k's drive."""

    def fn(env):
        T = env.torch
        perm = env.choice("perm", all_perms(n)) if reorder else list(range(n))
        data, sym = make_data(env, n, steps, slm=slm, last_time=40)
        pa = env.mod("emu_base.pulser_adapter")
        if slm:
            # timestep_complete keeps the MPO when the new matrix is allclose(atol=1e-10, rtol=1e-5)
            # to the current one: stay out of that tolerance window
            from symex.env import b_or, b_and, scalar

            for i in range(n):
                for j in range(i + 1, n):
                    a, b = scalar(sym.full[i, j]), scalar(sym.masked[i, j])
                    env.assume(b_and(abs(a) <= 50.0, abs(b) <= 50.0), "couplings bounded by 50")
                    env.assume(b_or(a == b, abs(a - b) > 0.001), "masked and full couplings are equal or differ by more than 1e-3 (outside allclose's window)")
        if kind == "xy":
            data = dataclasses.replace(data, hamiltonian_type=pa.HamiltonianType.XY, eigenstates=["0", "1"])
        om, de, ph = sym.omega.clone(), sym.delta.clone(), sym.phi.clone()
        impl = build_mps_impl(env, data, mps_config(optimize_qubit_ordering=reorder), perm)
        if reorder:
            final = sym.masked if (slm and bool(sym.ts[-1] < sym.slm_end)) else sym.full
            env.check_eq(impl._optim_inputs[0], final, "the ordering is optimised for the interaction matrix of the final time")
        impl.init_dark_qubits()
        impl.state = SimpleNamespace(factors=[None] * n)
        impl.init_noiseless_hamiltonian()
        impl.fill_results = lambda: None
        impl.init_baths = lambda: None
        impl.statistics = type("S", (), {"data": [], "__call__": lambda self, *a: None})()
        impl.update_H()
        for k in range(steps):
            # emu-mps samples the interaction matrix at the midpoint of the first step and at the
            # start of every later step (timestep_complete queries it before moving the target
            # time); both lie inside the step, which is what C23 requires of a straddling step
            tm = 0.5 * (sym.ts[k] + sym.ts[k + 1]) if k == 0 else sym.ts[k]
            U = sym.masked if (slm and bool(tm < sym.slm_end)) else sym.full
            kk = k if not env.mutant("stale_drive") else 0
            ref = h_ref_internal(env, om[kk], de[kk], ph[kk], U, perm, kind=kind)
            dense = refs.contract_mpo(T, impl.hamiltonian.factors)
            env.check_eq(dense, ref, f"MPO during step {k} = P H(step {k}) P^dag for the internal permutation (n={n}, {kind})")
            env.check(env.eqv(impl.target_time, sym.ts[k + 1]), f"step {k} targets the next grid time")
            impl.sweep_complete()
        env.check(impl.is_finished(), "all steps completed")

    return fn


META = {
    "explanation": (
        "Three families. (1) Projection: evolve_pair / evolve_single / minimize_energy_pair are executed with krylov_exp, "
        "krylov_energy_minimization and split_matrix replaced by recording stubs, on symbolic non-canonical MPS factors, a real MPO "
        "from make_H/update_H with symbolic parameters and baths built by the real new_left_bath/right_baths; z3 decides that the "
        "closure handed to the Krylov routine is time_step * V^dag H_dense V (V = embedding of the local tensor), with "
        "time_step = -i*1e-3*dt (1 for DMRG). (2) Schedule: MPSBackendImpl.progress/_left_to_right_update_tdvp/_right_to_left_update_tdvp/"
        "_evolve are executed with the local solvers recording (sites, dt, centre move) for a symbolic step; the sequence must be the "
        "second-order two-site TDVP sweep. (3) Drive update: real __init__/init_noiseless_hamiltonian/timestep_complete/update_H/"
        "_get_interaction_matrix over several steps, every internal permutation and an SLM switch: the MPO used during step k "
        "contracts to P H(step k) P^dag."
    ),
    "outside": [
        "Krylov accuracy, truncation error, TDVP projection error, Pulser's reference emulator",
        "bond dimension > 2, N > 4 (projection) / 6 (schedule) / 4 (drive update)",
    ],
    "assumptions": ["interaction matrices symmetric with zero diagonal (C23)", "target times strictly increasing"],
}


def cases(tier):
    out = []
    q = tier == "quick"
    grid = [(3, 2, 2, "rydberg", "pair"), (3, 2, 2, "rydberg", "single"), (3, 2, 2, "xy", "pair"), (2, 2, 1, "rydberg", "dmrg"), (2, 2, 1, "xy", "pair")]
    if not q:
        # (4 sites with bond dimension 2 were tried: > 90 min per case and solver time-outs; the embedding
        # V of a local tensor only involves the two neighbouring bonds, which N=3, chi=2 already exercises)
        grid += [(4, 2, 1, "rydberg", "pair"), (4, 2, 1, "rydberg", "single"), (3, 3, 1, "rydberg", "pair"), (3, 2, 2, "rydberg", "dmrg"), (3, 3, 1, "xy", "single")]
    for n, d, chi, kind, which in grid:
        out.append(
            Case(
                f"projection_{which}_{kind}_n{n}_d{d}_chi{chi}",
                projection(n, d, chi, kind, which),
                covers=COVERS_PROJ,
                bounds={"sites": n, "dim": d, "bond_dim": chi, "type": kind, "closure": which},
                canaries=["wrong_time_unit"] + (["no_projection_conj"] if n > 2 else []),
                weight=(d**n) ** 2 * chi,
                deadline_s=1800,
                timeout_ms=60000,
            )
        )
    for n in ([2, 3, 4] if q else [2, 3, 4, 5, 6]):
        out.append(Case(f"schedule_n{n}", schedule(n), covers=COVERS_SCHED, bounds={"sites": n}, canaries=["first_order"] if n > 2 else []))
    ug = [(2, 2, "rydberg", True, True), (3, 2, "xy", True, False)] if q else [(2, 3, "rydberg", True, True), (3, 2, "rydberg", True, True), (3, 2, "xy", True, False), (4, 2, "rydberg", True, False), (3, 3, "rydberg", False, True)]
    for n, k, kind, ro, slm in ug:
        out.append(
            Case(
                f"drive_update_{kind}_n{n}_steps{k}{'_reorder' if ro else ''}{'_slm' if slm else ''}",
                drive_update(n, k, kind, ro, slm),
                covers=COVERS_UPD,
                bounds={"atoms": n, "steps": k, "type": kind, "permutations": "all" if ro else "identity", "slm": slm},
                canaries=["stale_drive"] if k > 1 else [],
                weight=(2**n) ** 2 * k * (6 if ro else 1),
                deadline_s=1800,
            )
        )
    # "with or without qubit-order optimisation": the user's initial state is moved into site order with the
    # same permutation as the Hamiltonian (shared with C03)
    from harness.c03 import initial_state_permuted

    out.append(
        Case(
            "initial_state_follows_the_ordering_n3",
            initial_state_permuted(3),
            covers=[("emu_mps/mps_backend_impl.py", "MPSBackendImpl.init_initial_state")],
            bounds={"atoms": 3, "permutations": "all", "keys": "all pairs of basis strings"},
            canaries=["inverse_perm"],
            weight=90,
        )
    )
    return out
