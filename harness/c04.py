"""C04 — backends reject what they cannot emulate instead of returning wrong results."""

import dataclasses
from types import SimpleNamespace

from symex.api import Case
from symex import refs
from harness.svcommon import make_data, build_sv_impl, with_krylov_stub, h_ref_step, sv_stub_config
from harness.mpscommon import build_mps_impl, mps_config

PROPERTY = "C04"

COVERS = [
    ("emu_sv/sv_backend_impl.py", "SVBackendImpl.__init__"),
    ("emu_sv/sv_backend_impl.py", "SVBackendImpl._evolve_step"),
    ("emu_base/pulser_adapter.py", "PulserData.__init__"),
    ("emu_mps/mps_backend_impl.py", "create_impl"),
    ("emu_mps/mps_backend_impl.py", "DMRGBackendImpl.__init__"),
    ("emu_mps/mps_backend_impl.py", "NoisyMPSBackendImpl.__init__"),
    ("emu_mps/hamiltonian.py", "make_H"),
]


def sv_decision_table(n):
    """emu-sv: every (interaction type, number of levels) combination either raises before any
    result exists or is emulated with the ground-rydberg Hamiltonian Pulser defines."""

    def fn(env):
        T = env.torch
        pa = env.mod("emu_base.pulser_adapter")
        kind = env.choice("hamiltonian_type", ["Rydberg", "XY"])
        eig = env.choice("eigenstates", [["r", "g"], ["r", "g", "x"], ["0", "1"], ["0", "1", "x"]])
        data, sym = make_data(env, n, 1, last_time=40)
        data = dataclasses.replace(data, hamiltonian_type=getattr(pa.HamiltonianType, kind), eigenstates=eig)
        cfg = sv_stub_config(initial_state=None)
        supported = kind == "Rydberg" and eig == ["r", "g"]
        if env.mutant("xy_is_fine"):
            supported = supported or (kind == "XY" and len(eig) == 2)
        outcome = {}

        def run(rec):
            # the backend's entry point for one trajectory (what SVBackend.run calls per SequenceData)
            svm = env.mod("emu_sv.sv_backend_impl")
            svb = env.mod("emu_sv.sv_backend")
            from harness.svcommon import Recorder

            class Stat:
                def __init__(self, **kw):
                    self.data = []

                def __call__(self, *a):
                    return None

            saved = (svm.Results, svm.Statistics)
            svm.Results, svm.Statistics = Recorder, Stat
            try:
                return svb.SVBackend._run_from_sequence_data(data, cfg)
            except (NotImplementedError, ValueError) as e:
                outcome["raised"] = type(e).__name__
                return None
            finally:
                svm.Results, svm.Statistics = saved

        impl, rec = with_krylov_stub(env, "vec", run)
        if supported:
            env.check("raised" not in outcome, "emu-sv accepts a two-level ground-rydberg sequence")
            if impl is not None:
                H = h_ref_step(env, sym, 0, sym.full, n)
                want = (-1.0j) * ((sym.ts[1] - sym.ts[0]) * 0.001) * H
                env.check_eq(rec.calls[0].M, want, "accepted sequence is emulated with Pulser's ground-rydberg Hamiltonian")
        else:
            env.check(
                "raised" in outcome and not rec.calls,
                f"emu-sv refuses interaction type {kind} with eigenstates {eig} before computing anything",
            )

    return fn


def pulser_data_basis():
    """PulserData.__init__: interaction type -> Hamiltonian type, anything else raises."""

    def fn(env):
        pa = env.mod("emu_base.pulser_adapter")
        it = env.choice("interaction_type", ["ising", "XY", "digital"])
        dim = env.choice("dim", [2, 3])
        eig = ["r", "g", "x"][:dim]
        ham = SimpleNamespace(basis_data=SimpleNamespace(eigenbasis=eig, interaction_type=it, dim=dim), noisy_samples=[])
        seq = SimpleNamespace(
            register=SimpleNamespace(qubit_ids=("q0", "q1")),
            device=SimpleNamespace(default_noise_model=None),
            get_duration=lambda include_fall_time=False: 10,
            _slm_mask_time=[],
        )
        cfg = SimpleNamespace(
            prefer_device_noise_model=False,
            noise_model=None,
            with_modulation=False,
            n_trajectories=1,
            interaction_matrix=None,
            interaction_cutoff=0.0,
            observables=[],
            default_evaluation_times=SimpleNamespace(tolist=lambda: [1.0]),
        )
        saved = pa.HamiltonianData
        pa.HamiltonianData = SimpleNamespace(from_sequence=lambda *a, **k: ham)
        try:
            try:
                pd = pa.PulserData(sequence=seq, config=cfg, dt=5.0)
                err = None
            except ValueError as e:
                pd, err = None, e
        finally:
            pa.HamiltonianData = saved
        known = {"ising": "Rydberg", "XY": "XY"}
        if env.mutant("digital_ok"):
            known["digital"] = "Rydberg"
        if it in known:
            env.check(err is None and pd.hamiltonian_type == getattr(pa.HamiltonianType, known[it]), f"interaction type {it} maps to HamiltonianType.{known.get(it)}")
            if pd is not None:
                env.check(pd.dim == dim and list(pd.eigenstates) == eig, "levels and eigenstates are taken from Pulser's basis data")
                env.check(pd.lindblad_ops == [] and pd.has_lindblad_noise is False, "no noise model: no jump operators")
                env.check(pd.target_times[0] == 0.0 and pd.target_times[-1] == 10.0, "time grid covers the sequence")
        else:
            env.check(err is not None, f"unsupported interaction type {it} raises before anything is emulated")

    return fn


def mps_solver_selection(n):
    """emu-mps: the solver that runs is the one requested; unsupported combinations raise."""

    def fn(env):
        T = env.torch
        mm = env.mod("emu_mps.mps_backend_impl")
        pa = env.mod("emu_base.pulser_adapter")
        solver_mod = env.mod("emu_mps.solver")
        solver = env.choice("solver", ["tdvp", "dmrg"])
        solver_as_enum = env.boolean("solver given as enum")  # MPSConfig documents both spellings
        noisy = env.boolean("lindblad_noise")
        noise_types = env.choice("config_noise_types", [(), ("relaxation",), ("SPAM",)])
        kind = env.choice("hamiltonian_type", ["Rydberg", "XY"])
        dim = env.choice("dim", [2, 3])
        Ls = [T.zeros(dim, dim, dtype=T.complex128)] if noisy else []
        data, sym = make_data(env, n, 1, lindblad_ops=Ls, last_time=40)
        eig = (["r", "g", "x"] if kind == "Rydberg" else ["0", "1", "x"])[:dim]
        data = dataclasses.replace(data, hamiltonian_type=getattr(pa.HamiltonianType, kind), eigenstates=eig)
        cfg = mps_config(optimize_qubit_ordering=False, solver=(solver_mod.Solver(solver) if solver_as_enum else solver), noise_model=SimpleNamespace(noise_types=noise_types))
        saved = (mm.Results, mm.Statistics)
        from harness.svcommon import Recorder

        mm.Results = Recorder
        mm.Statistics = lambda **kw: SimpleNamespace(**kw)
        try:
            try:
                impl = mm.create_impl(data, cfg)
                err = None
            except NotImplementedError as e:
                impl, err = None, e
        finally:
            mm.Results, mm.Statistics = saved
        if solver == "dmrg":
            refuse = noisy or noise_types != ()
            if env.mutant("dmrg_ignores_noise"):
                refuse = False
            if refuse:
                env.check(err is not None, "DMRG with any noise is refused")
            else:
                env.check(type(impl).__name__ == "DMRGBackendImpl", "DMRG requested: the DMRG solver runs")
        else:
            env.check(err is None, "TDVP accepts the sequence")
            want = "NoisyMPSBackendImpl" if noisy else "MPSBackendImpl"
            env.check(type(impl).__name__ == want, "TDVP requested: (noisy) TDVP runs")
        if impl is not None:
            impl.init_dark_qubits()
            impl.state = SimpleNamespace(factors=[None] * n)
            impl.init_noiseless_hamiltonian()
            dense = refs.contract_mpo(T, impl.hamiltonian.factors)
            mk = refs.dense_rydberg if kind == "Rydberg" else refs.dense_xy
            ref = mk(T, sym.omega[0], sym.delta[0], sym.phi[0], sym.full, n, dim)
            env.check_eq(dense, ref, f"accepted sequence is emulated with Pulser's {kind} Hamiltonian on {dim} levels")

    return fn


def make_h_rejects():
    def fn(env):
        T = env.torch
        hm = env.mod("emu_mps.hamiltonian")
        HT = env.mod("emu_base").HamiltonianType
        U = env.sym_matrix("U", 2)
        env.check_raises(lambda: hm.make_H(interaction_matrix=U, hamiltonian_type=HT.Rydberg, dim=4, num_gpus_to_use=0), (ValueError,), "4 levels are refused")
        env.check_raises(lambda: hm.make_H(interaction_matrix=U, hamiltonian_type="ising", dim=2, num_gpus_to_use=0), (ValueError,), "an unknown Hamiltonian type is refused")
        env.check_raises(lambda: hm.make_H(interaction_matrix=U[0], hamiltonian_type=HT.XY, dim=2, num_gpus_to_use=0), (ValueError,), "a non-square interaction matrix is refused")
        H = hm.make_H(interaction_matrix=U, hamiltonian_type=HT.XY, dim=2, num_gpus_to_use=0)
        z = T.zeros(2, dtype=T.complex128)
        env.check_raises(lambda: hm.update_H(H, z, z, z, T.zeros(4, 4, dtype=T.complex128)), (ValueError,), "a 4x4 noise term is refused")

    return fn


META = {
    "explanation": (
        "Accept/reject decision tables, each branch explored by the executor: emu-sv's real constructor over interaction type x "
        "eigenstates (accepted => the recorded step operator equals Pulser's ground-rydberg Hamiltonian for symbolic parameters; "
        "otherwise an exception before any exponential); PulserData.__init__'s interaction-type branch with "
        "HamiltonianData.from_sequence stubbed; emu-mps' create_impl over solver x Lindblad noise x config noise types x "
        "Hamiltonian type x levels (the solver that runs is the one requested, DMRG refuses noise, accepted sequences get the "
        "matching Rydberg/XY MPO on 2 or 3 levels); make_H/update_H argument validation; channel-basis rejection in the adapter "
        "(shared with C22) and noise rejection in get_lindblad_operators (hyperfine dephasing for every symbolic pair of rates, "
        "unknown noise types, wrongly shaped effective operators; shared with C24). State/operator basis rejection is decided under C12."
    ),
    "outside": ["Pulser's own validation of sequences and channels", "more than the listed bases / noise names"],
    "assumptions": ["Pulser's basis_data (interaction_type, dim, eigenbasis) describes the sequence correctly"],
}


def cases(tier):
    out = [
        Case("sv_decision_table_n2", sv_decision_table(2), covers=COVERS, bounds={"atoms": 2, "types": ["Rydberg", "XY"], "eigenstate_sets": 4}, canaries=["xy_is_fine"], weight=40),
        Case("pulser_data_basis", pulser_data_basis(), covers=COVERS, bounds={"interaction_types": ["ising", "XY", "digital"], "dim": [2, 3]}, canaries=["digital_ok"]),
        Case("mps_solver_selection_n2", mps_solver_selection(2), covers=COVERS, bounds={"atoms": 2, "solver": 2, "noise": "on/off x 3 config noise sets", "types": 2, "dim": [2, 3]}, canaries=["dmrg_ignores_noise"], weight=100, deadline_s=1500),
        Case("make_h_rejects", make_h_rejects(), covers=COVERS, bounds={}),
    ]
    from harness.c22 import rejects as _adapter_rejects

    for k in ("two_bases", "supported_plus_unsupported", "unknown_basis"):
        out.append(Case(f"adapter_rejects_{k}", _adapter_rejects(k), covers=[("emu_base/pulser_adapter.py", "_extract_omega_delta_phi")], bounds={"channel_bases": k}))
    # noise the emulators cannot represent (hyperfine dephasing lives in the digital basis; unknown noise
    # types; effective operators of the wrong shape) is refused while the jump operators are built - shared with C24
    from harness.c24 import error_paths as _noise_rejects

    for interact in ("ising", "XY"):
        out.append(
            Case(
                f"noise_rejects_{interact}",
                _noise_rejects(interact),
                covers=[("emu_base/jump_lindblad_operators.py", "get_lindblad_operators"), ("emu_base/pulser_adapter.py", "_get_all_lindblad_noise_operators")],
                bounds={"interact_type": interact, "dim": [2, 3], "rates": "symbolic >= 0 (zero included)"},
                canaries=["hyperfine_accepted"],
            )
        )
    if tier != "quick":
        out.append(Case("sv_decision_table_n1", sv_decision_table(1), covers=COVERS, bounds={"atoms": 1}, canaries=["xy_is_fine"]))
        out.append(Case("mps_solver_selection_n3", mps_solver_selection(3), covers=COVERS, bounds={"atoms": 3}, canaries=["dmrg_ignores_noise"], weight=300, deadline_s=1800))
    return out
