"""C07 — Krylov exponentiation is accurate and honest about convergence.

Only the *honesty* half is decidable here: the control logic that turns the
Lanczos/Arnoldi quantities into "converged / happy breakdown / not converged",
the vector that is returned, and the public entry point raising instead of
returning when the iteration did not converge.  The accuracy half (the returned
vector is exp(A)v to 10*tol) is an analytic error bound of a floating-point
iteration through torch.linalg.matrix_exp and is outside.
"""

from types import SimpleNamespace

from symex.api import Case
from symex.env import b_and, b_or, b_not, b_implies, scalar

PROPERTY = "C07"

COVERS = [
    ("emu_base/math/krylov_exp.py", "krylov_exp_impl"),
    ("emu_base/math/krylov_exp.py", "krylov_exp"),
    ("emu_base/math/krylov_exp.py", "KrylovExpResult.__init__"),
]


class TorchProxy:
    """the module's `torch` with linalg.matrix_exp replaced by a recording stub
    (works for the real torch and for symtorch alike)"""

    def __init__(self, real, matrix_exp, scalar_exp=None):
        self._real = real
        self.linalg = SimpleNamespace(matrix_exp=matrix_exp)
        if scalar_exp is not None:
            self.exp = scalar_exp

    def __getattr__(self, name):
        return getattr(self._real, name)


# (start vector, successive operator outputs); entries are (re, im) pairs with rational norms
VECTOR_TABLES = [
    (((3.0, 0.0), (0.0, 4.0), (0.0, 0.0)), [((0.0, 1.0), (2.0, 0.0), (1.0, 0.0)), ((0.5, 0.0), (0.0, 0.25), (0.0, 0.0)), ((1.0, 1.0), (0.0, 0.0), (2.0, 0.0))]),
    (((1.0, 0.0), (0.0, 0.0), (0.0, 0.0)), [((2.0, 0.0), (0.0, 0.125), (0.0, 0.0)), ((0.0, 0.0), (3.0, 0.0), (0.0, 0.0625)), ((0.0, 0.0), (0.0, 0.0), (1.0, 0.0))]),
    (((0.0, 1.0), (1.0, 0.0), (1.0, 1.0)), [((1.0, 0.0), (0.0, -1.0), (0.5, 0.0)), ((0.0, 2.0), (2.0, 0.0), (0.0, 0.0)), ((0.25, 0.0), (0.0, 0.0), (0.0, 0.25))]),
]


def honesty(dim, max_k, hermitian):
    def fn(env):
        T = env.torch
        ke = env.mod("emu_base.math.krylov_exp")
        # Krylov vectors are concrete (exact rationals), chosen by the explorer among a few tables that make
        # the residual norms land on either side of a symbolic norm_tolerance; the exponentials, the
        # tolerances and hence every convergence decision stay symbolic.
        table = env.choice("vectors", list(range(len(VECTOR_TABLES))))
        start, outs = VECTOR_TABLES[table]
        v = T.tensor([complex(*c) for c in start[:dim]] if dim <= len(start) else None, dtype=T.complex128)
        exp_tol = env.real("exp_tol", lo=1e-12, hi=1.0)
        norm_tol = env.real("norm_tol", lo=1e-12, hi=1.0)
        v0 = v.clone()
        op_in, op_out, exps, exp_args = [], [], [], []

        def op(x):
            op_in.append(x.clone())
            w = T.tensor([complex(*c) for c in outs[len(op_out) % len(outs)][:dim]], dtype=T.complex128)
            op_out.append(w.clone())
            return w

        def fake_matrix_exp(t):
            exp_args.append(t.clone())
            m = t.shape[0]
            e = env.tensor_cplx(f"E{len(exps)}", (m, m))
            exps.append(e)
            return e

        def fake_scalar_exp(t):
            # an implementation may exponentiate a 1x1 projected matrix with the scalar function:
            # same stub, so the returned-vector clause below applies to it as well
            if getattr(t, "ndim", 0) != 0:
                return saved[0].exp(t)
            return fake_matrix_exp(t.reshape(1, 1))[0, 0]

        captured = {}
        real_impl = ke.krylov_exp_impl

        def spy_impl(*a, **k):
            captured["res"] = real_impl(*a, **k)
            return captured["res"]

        saved = (ke.torch, ke.krylov_exp_impl)
        ke.torch = TorchProxy(saved[0], fake_matrix_exp, fake_scalar_exp)
        ke.krylov_exp_impl = spy_impl
        raised = False
        out = None
        try:
            try:
                out = ke.krylov_exp(op, v, exp_tolerance=exp_tol, norm_tolerance=norm_tol, is_hermitian=hermitian, max_krylov_dim=max_k)
            except RecursionError:
                raised = True
        finally:
            ke.torch, ke.krylov_exp_impl = saved
        res = captured["res"]
        nv = scalar(T.linalg.vector_norm(v0))
        # replay of the iteration from the recorded quantities
        stop = None
        e_idx = 0
        for j in range(len(op_out)):
            q = op_in[j]
            w = op_out[j].clone()
            n = scalar(T.linalg.vector_norm(w))
            k_start = max(0, j - 1) if hermitian else 0
            for k in range(k_start, j + 1):
                ov = T.vdot(op_in[k], w)
                w = w - ov * op_in[k]
            n2 = scalar(T.linalg.vector_norm(w))
            if bool(n2 < norm_tol):
                stop = (j, "happy", e_idx)
                break
            E = exps[e_idx]
            err1 = abs(scalar(E[j + 1, 0]))
            err2 = abs(scalar(E[j + 2, 0] * n))
            if bool(err1 < err2):
                err = err1
            else:
                err = err1 * err2 / (err1 - err2)
            e_idx += 1
            if bool(err < exp_tol):
                stop = (j, "converged", e_idx - 1)
                break
            if j + 1 < len(op_in):
                env.check_eq(op_in[j + 1], w / n2, f"Krylov vector {j+1} is the normalised residual of step {j}")
        env.check_eq(op_in[0], v0 / nv, "first Krylov vector is v/|v|")
        should_converge = stop is not None
        if env.mutant("always_converged"):
            should_converge = True
        env.check(res.converged == should_converge, "converged is reported exactly when an iteration met the breakdown or error criterion")
        env.check(res.happy_breakdown == (stop is not None and stop[1] == "happy"), "happy breakdown is reported exactly when the residual norm fell below norm_tolerance")
        env.check(raised == (not res.converged), "the public entry point raises RecursionError exactly when the iteration did not converge")
        env.check((out is None) == raised, "no vector is returned without convergence")
        if stop is not None:
            j, why, ei = stop
            env.check(res.iteration_count == j + 1, "iteration count")
            if ei >= len(exps):
                env.fail("the returned vector is formed from the exponential of the projected matrix (none was computed for the final iteration)")
                return
            E = exps[ei]
            m = j + 1 if why == "happy" else j + 2
            col = 0 if not env.mutant("wrong_column") else (1 if E.shape[1] > 1 else 0)
            want = op_in[0] * 0.0
            # rebuild the basis exactly as the algorithm does: q_0..q_j (+ q_{j+1} when not a breakdown)
            vecs = list(op_in[: j + 1])
            if why == "converged":
                w = op_out[j].clone()
                k_start = max(0, j - 1) if hermitian else 0
                for k in range(k_start, j + 1):
                    w = w - T.vdot(op_in[k], w) * op_in[k]
                vecs.append(w / scalar(T.linalg.vector_norm(w)))
            for k, qk in enumerate(vecs[:m]):
                want = want + E[k, col] * qk
            if out is not None:  # (no vector came back although an iteration met a criterion: reported by the clauses above)
                env.check_eq(out, nv * want, f"returned vector = |v| * sum_k exp(T)[k,0] q_k  ({why} at iteration {j})")
        else:
            env.check(res.iteration_count == max_k and len(op_out) == max_k, "all allowed iterations were used before giving up")

    return fn


META = {
    "explanation": (
        "krylov_exp / krylov_exp_impl are executed with the operator replaced by a stub returning concrete vectors (three tables, forked) and "
        "torch.linalg.matrix_exp by a stub returning fresh symbolic matrices (dimension 2, up to 3 Krylov iterations, Lanczos and "
        "Arnoldi variants, symbolic tolerances). The executor forks on the code's own comparisons; z3 decides that `converged` / "
        "`happy_breakdown` are reported exactly when an iteration met the residual-norm or error-estimate criterion, that the public "
        "entry point raises RecursionError exactly when not converged and never returns a vector otherwise, that the Krylov vectors "
        "are the normalised orthogonalised residuals, and that the returned vector is |v| * sum_k exp(T)[k,0] q_k."
    ),
    "outside": [
        "the ACCURACY claim (result = exp(A)v within 10*tol): analytic error bound of a floating-point iteration through torch.linalg.matrix_exp - not encodable",
        "that the error estimate is a valid bound; the extended-T construction's meaning; dimensions > 2 and > 3 iterations",
    ],
    "assumptions": ["matrix_exp returns an arbitrary matrix (fresh symbols); the operator outputs are concrete vectors from three tables: only the control logic is decided", "tolerances in [1e-12, 1]"],
}


def cases(tier):
    out = []
    # note: with vectors of dimension d the d-th iteration always breaks down (the Krylov space is
    # exhausted), so non-convergence needs max_krylov_dim < vector_dim
    grid = [(2, 1, True), (3, 2, True), (3, 2, False)] if tier == "quick" else [(2, 1, True), (2, 1, False), (3, 2, True), (3, 2, False), (2, 2, True), (3, 3, False)]
    for dim, mk, herm in grid:
        out.append(
            Case(
                f"honesty_dim{dim}_k{mk}_{'lanczos' if herm else 'arnoldi'}",
                honesty(dim, mk, herm),
                covers=COVERS,
                bounds={"vector_dim": dim, "max_krylov_dim": mk, "hermitian": herm},
                canaries=(["always_converged"] if mk < dim else []) + ["wrong_column"],
                timeout_ms=60000,
                deadline_s=1500,
                weight=dim * mk * 10,
            )
        )
    return out
