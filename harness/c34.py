"""C34 — multi-trajectory results aggregate all simulated trajectories (decidable
part: the plumbing from Pulser's noisy samples to Results.aggregate)."""

from types import SimpleNamespace

from symex.api import Case
from harness.c23 import make_pulser_data, with_stubbed_extract

PROPERTY = "C34"

COVERS = [
    ("emu_base/pulser_adapter.py", "PulserData.get_sequences"),
    ("emu_mps/mps_backend.py", "MPSBackend.run"),
    ("emu_sv/sv_backend.py", "SVBackend.run"),
]


def reps_expansion(n_samples):
    """get_sequences yields each noisy sample `reps` times, with that sample's data."""

    def fn(env):
        T = env.torch
        n = 2
        reps = [env.choice(f"reps{k}", [1, 2, 3]) for k in range(n_samples)]
        reg = env.sym_matrix("R", n)
        pd, pa = make_pulser_data(env, n, None, reg, 0.0, [], 0.0)
        if env.boolean("lindblad_noise"):
            # emu-mps unravels Lindblad noise into Monte-Carlo trajectories: repetitions are NOT redundant
            pd.lindblad_ops = [T.tensor([[0.0, 0.5], [0.0, 0.0]], dtype=T.complex128)]
            pd.has_lindblad_noise = True
        samples = []
        pats = []
        for k in range(n_samples):
            # every bad-atom pattern, also "all atoms badly prepared" (such a shot is still one of the n_trajectories)
            pat = env.choice(f"bad_atoms_of_sample{k}", [(False, False), (True, False), (False, True), (True, True)])
            bad = {"q0": pat[0], "q1": pat[1]}
            pats.append(pat)
            samples.append(
                SimpleNamespace(
                    trajectory=SimpleNamespace(interaction_matrix=SimpleNamespace(as_tensor=lambda k=k: reg * float(k + 1)), bad_atoms=bad),
                    samples=("samples", k),
                    reps=reps[k],
                )
            )
        pd.hamiltonian = SimpleNamespace(noisy_samples=samples)
        seen = []
        saved = pa._extract_omega_delta_phi

        def fake_extract(s, ids, times):
            seen.append(s)
            z = T.zeros(2, n, dtype=T.complex128) + float(s[1])
            return z, z, z

        pa._extract_omega_delta_phi = fake_extract
        try:
            seqs = list(pd.get_sequences())
        finally:
            pa._extract_omega_delta_phi = saved
        total = sum(reps)
        if env.mutant("one_per_sample"):
            total = n_samples
        env.check(len(seqs) == total, f"number of SequenceData = sum of reps ({n_samples} noisy samples)")
        pos = 0
        for k in range(n_samples):
            for _ in range(reps[k]):
                if pos >= len(seqs):
                    break
                s = seqs[pos]
                env.check(tuple(s.bad_atoms) == tuple(pats[k]) and s.qubit_ids == ("q0", "q1"), "each repetition carries its own sample's bad-atom mask")
                env.check_eq(s.omega, T.zeros(2, n, dtype=T.complex128) + float(k), "each repetition carries its own sample's drive")
                env.check_eq(s.interaction_matrix(0.0), reg * float(k + 1), "each repetition carries its own trajectory's interaction matrix")
                pos += 1
        env.check(len(seen) == n_samples, "samples are interpolated once per noisy sample")

    return fn


def backend_run(which):
    """run(): every SequenceData is simulated exactly once, all results reach Results.aggregate."""

    def fn(env):
        if which == "mps":
            mod = env.mod("emu_mps.mps_backend")
            cls = mod.MPSBackend
            cfgcls = env.mod("emu_mps.mps_config").MPSConfig
        else:
            mod = env.mod("emu_sv.sv_backend")
            cls = mod.SVBackend
            cfgcls = env.mod("emu_sv.sv_config").SVConfig
        k = env.choice("n_trajectories", [1, 2, 3, 5, 32, 33, 65])
        tokens = [("seqdata", i) for i in range(k)]
        ran = []
        aggregated = {}

        class FakePD:
            def __init__(self, *, sequence, config, dt):
                self.args = (sequence, config, dt)

            def get_sequences(self):
                yield from tokens

        def fake_run(sequence_data, config):
            ran.append(sequence_data)
            return ("result", sequence_data[1])

        class FakeResults:
            @staticmethod
            def aggregate(lst):
                # (Pulser's aggregate takes unweighted means: folding partial aggregates back in would be wrong)
                aggregated.setdefault("calls", []).append(list(lst))
                aggregated["list"] = list(lst)
                return "AGG"

        cfg = object.__new__(cfgcls)
        object.__setattr__(cfg, "_backend_options", {"dt": 7.0})
        be = object.__new__(cls)
        be._config = cfg
        be._sequence = "SEQ"
        saved = (mod.PulserData, mod.Results, cls.__dict__["_run_from_sequence_data"])
        mod.PulserData, mod.Results = FakePD, FakeResults
        cls._run_from_sequence_data = staticmethod(fake_run)
        try:
            out = be.run()
        finally:
            mod.PulserData, mod.Results = saved[0], saved[1]
            cls._run_from_sequence_data = saved[2]
        want = list(tokens)
        if env.mutant("drops_last") and k > 1:
            want = want[:-1]
        env.check(ran == want, f"{which}: every SequenceData is simulated exactly once, in order")
        env.check(aggregated.get("list") == [("result", i) for i in range(len(want))], f"{which}: Results.aggregate receives one result per simulation, in order")
        env.check(len(aggregated.get("calls", [])) == 1, f"{which}: Results.aggregate is called exactly once, on the per-trajectory results themselves (n_trajectories={k})")
        env.check(out == "AGG", f"{which}: run() returns the aggregate")

    return fn


META = {
    "explanation": (
        "PulserData.get_sequences is executed with Pulser's noisy samples replaced by stubs with explorer-chosen repetition "
        "counts: the number of yielded SequenceData equals the sum of reps and every repetition carries its own sample's drive, "
        "interaction matrix and bad-atom mask. MPSBackend.run / SVBackend.run are executed with PulserData, "
        "_run_from_sequence_data and Results.aggregate replaced by recorders: each SequenceData is simulated exactly once and "
        "all results reach Results.aggregate in order."
    ),
    "outside": [
        "mean / bag-union arithmetic of Results.aggregate and the shots-per-run bookkeeping (Pulser code)",
        "that Pulser's HamiltonianData produces reps summing to n_trajectories",
        "more than 3 noisy samples / 3 repetitions; n_trajectories other than 1, 2, 3, 5, 32, 33, 65",
    ],
    "assumptions": ["Pulser's samples expose trajectory.interaction_matrix.as_tensor(), trajectory.bad_atoms, samples, reps"],
}


def cases(tier):
    out = []
    for k in ([1, 2] if tier == "quick" else [1, 2, 3]):
        out.append(Case(f"reps_expansion_samples{k}", reps_expansion(k), covers=COVERS, bounds={"noisy_samples": k, "reps": "1..3 each"}, canaries=["one_per_sample"], weight=3**k))
    for w in ("mps", "sv"):
        out.append(Case(f"run_{w}", backend_run(w), covers=COVERS, bounds={"n_trajectories": [1, 2, 3, 5, 32, 33, 65]}, canaries=["drops_last"]))
    return out
