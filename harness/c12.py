"""C12 — emu-sv state-vector, density-matrix and operator objects are faithful to
their definitions (ground-rydberg basis, qubit 0 most significant, g -> 0, r -> 1)."""

from symex.api import Case

PROPERTY = "C12"

BIT = {"g": 0, "r": 1}
EIGS = [("r", "g"), ("g", "r")]


# ---------------------------------------------------------------------------
# harness-side definitions (entry-wise, no kron / vdot / outer of the torch API)
# ---------------------------------------------------------------------------
def bitstrings(n):
    return ["".join("r" if (i >> (n - 1 - q)) & 1 else "g" for q in range(n)) for i in range(2**n)]


def index_of(s, little=False, g_is_one=False):
    n = len(s)
    idx = 0
    for q, ch in enumerate(s):
        b = BIT[ch]
        if g_is_one:
            b = 1 - b
        idx += b << (q if little else n - 1 - q)
    return idx


def abs2(z):
    return z.real * z.real + z.imag * z.imag


def is_zero_const(x):
    return isinstance(x, (int, float, complex)) and x == 0


def qudit_matrix(op, transpose=False):
    """{"ij": c} -> sum c |i><j| as a nested 2x2 list in (g, r) order."""
    m = [[0.0, 0.0], [0.0, 0.0]]
    for s, c in op.items():
        i, j = BIT[s[0]], BIT[s[1]]
        if transpose:
            i, j = j, i
        m[i][j] = m[i][j] + c
    return m


def full_matrix(n, terms, little=False):
    """terms: [(coeff, {qubit: 2x2 nested list})]; qubits without a factor get the identity.
    Entry (i, j) = sum_t c_t prod_q M_tq[i_q][j_q], bit of qubit q at position n-1-q."""
    dim = 2**n
    rows = [[0.0] * dim for _ in range(dim)]
    for c, gates in terms:
        for i in range(dim):
            for j in range(dim):
                x = c
                for q in range(n):
                    sh = q if little else n - 1 - q
                    bi, bj = (i >> sh) & 1, (j >> sh) & 1
                    if q in gates:
                        f = gates[q][bi][bj]
                        if is_zero_const(f):
                            x = None
                            break
                        x = x * f
                    elif bi != bj:
                        x = None
                        break
                if x is not None:
                    rows[i][j] = rows[i][j] + x
    return rows


def ctensor(T, rows):
    return T.tensor(rows, dtype=T.complex128)


def dense(t):
    return t.to_dense()


# ---------------------------------------------------------------------------
# 1. amplitudes -> state vector / density matrix
# ---------------------------------------------------------------------------
COVERS_AMP = [
    ("emu_sv/state_vector.py", "StateVector.__init__"),
    ("emu_sv/state_vector.py", "StateVector._from_state_amplitudes"),
    ("emu_sv/state_vector.py", "StateVector._normalize"),
    ("emu_sv/state_vector.py", "StateVector.zero"),
    ("emu_sv/state_vector.py", "StateVector.norm"),
    ("emu_sv/state_vector.py", "StateVector.n_qudits"),
    ("emu_sv/density_matrix_state.py", "DensityMatrix._from_state_amplitudes"),
    ("emu_sv/density_matrix_state.py", "DensityMatrix.from_state_vector"),
]


def amplitudes(n, k, both_orders=True):
    """k distinct keys of n symbolic characters, symbolic complex amplitudes."""

    def fn(env):
        T = env.torch
        sv = env.mod("emu_sv.state_vector")
        dm = env.mod("emu_sv.density_matrix_state")
        eig = env.choice("eigenstates", EIGS) if both_orders else ("r", "g")
        if k == 1:
            keys = ["".join(env.choice(f"char{q}", ["g", "r"]) for q in range(n))]
        elif k == 2**n:
            keys = bitstrings(n)
            if env.boolean("reversed_insertion_order"):
                keys = keys[::-1]
        else:
            allk = bitstrings(n)
            keys, lo = [], 0
            for j in range(k):
                s = env.choice(f"key{j}", allk[lo : len(allk) - (k - 1 - j)])
                keys.append(s)
                lo = allk.index(s) + 1
        amps = {s: env.cplx(f"a{j}") for j, s in enumerate(keys)}
        snapshot = dict(amps)
        n2 = 0.0
        for a in amps.values():
            n2 = n2 + abs2(a)
        env.assume(n2 > 0, "the amplitude vector is not identically zero (otherwise the code divides by 0)")

        vec = [0.0] * 2**n
        little = env.mutant("little_endian")
        g1 = env.mutant("g_is_one")
        for s, a in amps.items():
            vec[index_of(s, little, g1)] = a
        ref = ctensor(T, vec)

        st, ret = sv.StateVector._from_state_amplitudes(eigenstates=eig, n_qudits=n, amplitudes=amps)
        env.check(isinstance(st, sv.StateVector) and st.n_qudits == n, "result is an n-qubit StateVector")
        env.check(tuple(st.eigenstates) == tuple(eig), "eigenstates are kept")
        env.check(
            ret is amps and list(amps) == list(snapshot) and all(amps[s] is snapshot[s] for s in amps),
            "the amplitude mapping is returned unchanged",
        )
        dev = n2 * n2 - 1.0  # ||a||^4 - 1, without any square root
        need = abs(dev) > 1e-12
        if env.mutant("never_normalise"):
            need = False
        nrm = T.linalg.vector_norm(ref)
        if need:
            env.check_eq(st.data * nrm, ref, f"|norm^4-1| > 1e-12: state * ||a|| = Kronecker-placed amplitudes (n={n}, k={k})")
        else:
            env.check_eq(st.data, ref, f"|norm^4-1| <= 1e-12: state = Kronecker-placed amplitudes, untouched (n={n}, k={k})")

        if n > 4:  # the 4^n-entry density matrix adds nothing beyond n = 4 (same code, same placement)
            return
        pub = sv.StateVector.from_state_amplitudes(eigenstates=eig, amplitudes=amps)
        env.check_eq(pub.data, st.data, "public from_state_amplitudes (pulser validation + delegation) gives the same state")

        rho, ret2 = dm.DensityMatrix._from_state_amplitudes(eigenstates=eig, n_qudits=n, amplitudes=amps)
        env.check(isinstance(rho, dm.DensityMatrix) and rho.n_qudits == n and ret2 is amps, "DensityMatrix result / returned mapping")
        col = st.data.reshape(-1, 1)
        env.check_eq(rho.data, col @ col.conj().reshape(1, -1), "DensityMatrix from amplitudes = |psi><psi| of the state from the same amplitudes")

    return fn


def rejected_bases():
    def fn(env):
        sv = env.mod("emu_sv.state_vector")
        dm = env.mod("emu_sv.density_matrix_state")
        do = env.mod("emu_sv.dense_operator")
        so = env.mod("emu_sv.sparse_operator")
        a = env.cplx("a")
        c = env.cplx("c")
        kind = env.choice("basis", ["xy", "xy_rev", "gh", "rgx", "single"])
        eig, key, opkey = {
            "xy": (("0", "1"), "01", "01"),
            "xy_rev": (("1", "0"), "10", "11"),
            "gh": (("g", "h"), "gh", "gh"),
            "rgx": (("r", "g", "x"), "rg", "rg"),
            "single": (("r",), "rr", "rr"),
        }[kind]
        is_xy = kind.startswith("xy")
        if env.mutant("xy_is_value_error"):
            is_xy = not is_xy
        exc_state = (NotImplementedError,) if is_xy else (ValueError,)
        # the operator classes first assert that there are exactly two eigenstates
        exc_op = (NotImplementedError,) if is_xy else (ValueError, AssertionError) if len(eig) != 2 else (ValueError,)
        amps = {key: a}
        ops = [(c, [({opkey: 1.0}, [0])])]
        env.check_raises(
            lambda: sv.StateVector._from_state_amplitudes(eigenstates=eig, n_qudits=2, amplitudes=amps),
            exc_state,
            "StateVector rejects the basis with the documented exception",
        )
        env.check_raises(
            lambda: dm.DensityMatrix._from_state_amplitudes(eigenstates=eig, n_qudits=2, amplitudes=amps),
            exc_state,
            "DensityMatrix rejects the basis with the documented exception",
        )
        env.check_raises(
            lambda: do.DenseOperator._from_operator_repr(eigenstates=eig, n_qudits=2, operations=ops),
            exc_op,
            "DenseOperator rejects the basis with the documented exception",
        )
        env.check_raises(
            lambda: so.SparseOperator._from_operator_repr(eigenstates=eig, n_qudits=2, operations=ops),
            exc_op,
            "SparseOperator rejects the basis with the documented exception",
        )

    return fn


def bitstring_roundtrip(nmax):
    """index_to_bitstring is the inverse of the key -> index map used for amplitudes."""

    def fn(env):
        ut = env.mod("emu_sv.utils")
        sv = env.mod("emu_sv.state_vector")
        a = env.cplx("a")
        n = env.choice("n", list(range(1, nmax + 1)))
        little = env.mutant("little_endian")
        ok = True
        for idx in range(2**n):
            s = ut.index_to_bitstring(n, idx)
            ok = ok and len(s) == n and set(s) <= {"0", "1"}
            ok = ok and index_of(s.replace("1", "r").replace("0", "g"), little) == idx
        env.check(ok, "index_to_bitstring(n, i) is the n-character big-endian binary expansion of i")
        env.check_raises(lambda: ut.index_to_bitstring(n, 2**n), (AssertionError,), "index 2^n is rejected")
        # consistency with the amplitude placement: key -> index -> bitstring -> same key
        key = "".join(env.choice(f"char{q}", ["g", "r"]) for q in range(min(n, 3))) + "g" * (n - min(n, 3))
        env.assume(abs2(a) > 0, "the amplitude vector is not identically zero (otherwise the code divides by 0)")
        st, _ = sv.StateVector._from_state_amplitudes(eigenstates=("r", "g"), n_qudits=n, amplitudes={key: a})
        pos = index_of(key, little)
        rest = [st.data[i] for i in range(2**n) if i != pos]
        env.check_eq(rest, [0.0] * len(rest), "all entries other than the key's index are zero")
        env.check(ut.index_to_bitstring(n, index_of(key)) == key.replace("r", "1").replace("g", "0"), "bitstring of the key's index spells the key")

    return fn


# ---------------------------------------------------------------------------
# 2. state algebra
# ---------------------------------------------------------------------------
COVERS_ALG = [
    ("emu_sv/state_vector.py", "StateVector.__init__"),
    ("emu_sv/state_vector.py", "StateVector.inner"),
    ("emu_sv/state_vector.py", "inner"),
    ("emu_sv/state_vector.py", "StateVector.norm"),
    ("emu_sv/state_vector.py", "StateVector.overlap"),
    ("emu_sv/state_vector.py", "StateVector.__add__"),
    ("emu_sv/state_vector.py", "StateVector.__rmul__"),
    ("emu_sv/state_vector.py", "StateVector.zero"),
    ("emu_sv/state_vector.py", "StateVector.make"),
    ("emu_sv/density_matrix_state.py", "DensityMatrix.__init__"),
    ("emu_sv/density_matrix_state.py", "DensityMatrix.make"),
    ("emu_sv/density_matrix_state.py", "DensityMatrix.from_state_vector"),
    ("emu_sv/density_matrix_state.py", "DensityMatrix.overlap"),
]


def state_algebra(n):
    def fn(env):
        T = env.torch
        sv = env.mod("emu_sv.state_vector")
        dm = env.mod("emu_sv.density_matrix_state")
        dim = 2**n
        vs = [env.cplx(f"v_{i}") for i in range(dim)]
        ws = [env.cplx(f"w_{i}") for i in range(dim)]
        z = env.cplx("z")
        v, w = ctensor(T, vs), ctensor(T, ws)
        v0, w0 = v.clone(), w.clone()
        a, b = sv.StateVector(v, gpu=False), sv.StateVector(w, gpu=False)

        ip = 0.0
        for x, y in zip(vs, ws):
            ip = ip + (x * y.conjugate() if env.mutant("conj_right") else x.conjugate() * y)
        env.check_eq(a.inner(b), ip, f"inner = sum conj(v_i) w_i (n={n})")
        env.check_eq(sv.inner(a, b), ip, "module-level inner = StateVector.inner")
        env.check_eq(a.overlap(b), abs2(ip), "overlap = |<v|w>|^2")
        nv2 = 0.0
        for x in vs:
            nv2 = nv2 + abs2(x)
        nrm = a.norm()
        env.check_eq(nrm * nrm, nv2, "norm^2 = sum |v_i|^2")
        env.check(nrm >= 0, "norm >= 0")
        s = a + b
        env.check(isinstance(s, sv.StateVector), "sum is a StateVector")
        env.check_eq(s.data, [x + y for x, y in zip(vs, ws)], "(a + b) = v + w entry-wise")
        sc = z * a
        env.check(isinstance(sc, sv.StateVector), "scaled state is a StateVector")
        env.check_eq(sc.data, [(2 * z if env.mutant("double_scale") else z) * x for x in vs], "(z * a) = z v entry-wise")
        env.check_eq(a.data, v0, "left operand unchanged")
        env.check_eq(b.data, w0, "right operand unchanged")

        zero = sv.StateVector.zero(n, gpu=False)
        env.check_eq(zero.data, [0.0] * dim, "zero(n) is the zero vector of length 2^n")
        gs = sv.StateVector.make(n, gpu=False)
        env.check_eq(gs.data, [1.0] + [0.0] * (dim - 1), "make(n) = |g...g>")
        env.check_eq(zero.data, [0.0] * dim, "make does not alias zero")

        ra = dm.DensityMatrix.from_state_vector(a)
        rb = dm.DensityMatrix.from_state_vector(b)
        env.check_eq(ra.data, ctensor(T, [[x * y.conjugate() for y in vs] for x in vs]), "from_state_vector = |v><v| entry-wise")
        env.check_eq(ra.overlap(rb), abs2(ip), "tr(|v><v| |w><w|) = |<v|w>|^2 (pure-state overlap agrees)")
        g = dm.DensityMatrix.make(n, gpu=False)
        env.check_eq(g.data, ctensor(T, [[1.0 if i == j == 0 else 0.0 for j in range(dim)] for i in range(dim)]), "DensityMatrix.make(n) = |g..g><g..g|")

    return fn


def dm_overlap(n):
    def fn(env):
        T = env.torch
        dm = env.mod("emu_sv.density_matrix_state")
        dim = 2**n
        R = [[env.cplx(f"R_{i}_{j}") for j in range(dim)] for i in range(dim)]
        S = [[env.cplx(f"S_{i}_{j}") for j in range(dim)] for i in range(dim)]
        r, s = dm.DensityMatrix(ctensor(T, R), gpu=False), dm.DensityMatrix(ctensor(T, S), gpu=False)
        r0, s0 = r.data.clone(), s.data.clone()
        tr = 0.0
        for i in range(dim):
            for k in range(dim):
                # (R^dagger S)_ii = sum_k conj(R_ki) S_ki
                tr = tr + (R[k][i] * S[k][i] if env.mutant("no_dagger") else R[k][i].conjugate() * S[k][i])
        env.check_eq(r.overlap(s), tr, f"overlap = tr(R^dagger S) for arbitrary complex matrices (n={n})")
        env.check_eq(r.data, r0, "left operand unchanged")
        env.check_eq(s.data, s0, "right operand unchanged")
        env.check(r.n_qudits == n, "n_qudits")

    return fn


def dm_normalize(n):
    """DensityMatrix._normalize = rho / tr(rho) unless tr(rho) is already 1."""

    def fn(env):
        T = env.torch
        dm = env.mod("emu_sv.density_matrix_state")
        dim = 2**n
        R = [[env.cplx(f"R_{i}_{j}") for j in range(dim)] for i in range(dim)]
        tr = 0.0
        for i in range(dim):
            tr = tr + R[i][i]
        env.assume(abs2(tr) > 0, "tr(rho) != 0")
        rho = ctensor(T, R)
        r = dm.DensityMatrix(rho.clone(), gpu=False)
        try:
            r._normalize()
        except RuntimeError as e:
            env.fail("DensityMatrix._normalize raises instead of normalising", str(e)[:120])
            return
        d = tr - 1.0
        from fractions import Fraction

        tol = Fraction(1, 10**8) + Fraction(1, 10**5)  # torch.allclose defaults against the value 1, exact
        close = abs2(d) <= (tol * tol if env.mode == "sym" else float(tol * tol))
        if env.mutant("never_normalise"):
            close = True
        if close:
            env.check_eq(r.data, rho, "tr(rho) ~ 1: unchanged")
        else:
            env.check_eq(r.data * tr, rho, "rho_normalised * tr(rho) = rho")

    return fn


# ---------------------------------------------------------------------------
# 3. operators
# ---------------------------------------------------------------------------
COVERS_OP = [
    ("emu_sv/dense_operator.py", "DenseOperator.__init__"),
    ("emu_sv/dense_operator.py", "DenseOperator._from_operator_repr"),
    ("emu_sv/dense_operator.py", "DenseOperator.apply_to"),
    ("emu_sv/dense_operator.py", "DenseOperator.expect"),
    ("emu_sv/dense_operator.py", "DenseOperator.__add__"),
    ("emu_sv/dense_operator.py", "DenseOperator.__rmul__"),
    ("emu_sv/dense_operator.py", "DenseOperator.__matmul__"),
    ("emu_sv/sparse_operator.py", "SparseOperator.__init__"),
    ("emu_sv/sparse_operator.py", "SparseOperator._from_operator_repr"),
    ("emu_sv/sparse_operator.py", "SparseOperator.apply_to"),
    ("emu_sv/sparse_operator.py", "SparseOperator.expect"),
    ("emu_sv/sparse_operator.py", "SparseOperator.__add__"),
    ("emu_sv/sparse_operator.py", "SparseOperator.__rmul__"),
    ("emu_sv/sparse_operator.py", "SparseOperator.__matmul__"),
    ("emu_sv/sparse_operator.py", "sparse_add"),
    ("emu_sv/sparse_operator.py", "sparse_kron"),
]


def matvec(rows, vs):
    out = []
    for row in rows:
        acc = 0.0
        for x, y in zip(row, vs):
            if not is_zero_const(x):
                acc = acc + x * y
        out.append(acc)
    return out


def braket(vs, ws):
    acc = 0.0
    for x, y in zip(vs, ws):
        if not is_zero_const(y):
            acc = acc + x.conjugate() * y
    return acc


def check_built_operators(env, n, eig, ops, ref_rows, tag):
    """Build the dense and the sparse operator from `ops`; compare both with the reference."""
    T = env.torch
    sv = env.mod("emu_sv.state_vector")
    do = env.mod("emu_sv.dense_operator")
    so = env.mod("emu_sv.sparse_operator")
    snap = [(c, [(op, dict(op), tg, list(tg)) for op, tg in top]) for c, top in ops]
    D, ret_d = do.DenseOperator._from_operator_repr(eigenstates=eig, n_qudits=n, operations=ops)
    S, ret_s = so.SparseOperator._from_operator_repr(eigenstates=eig, n_qudits=n, operations=ops)
    ref = ctensor(T, ref_rows)
    env.check(isinstance(D, do.DenseOperator) and isinstance(S, so.SparseOperator), "result types")
    env.check_eq(D.data, ref, f"DenseOperator = sum coeff * kron of single-qubit matrices ({tag})")
    env.check_eq(dense(S.data), ref, f"SparseOperator (to_dense) = sum coeff * kron of single-qubit matrices ({tag})")
    env.check_eq(dense(S.data), D.data, f"dense and sparse operator agree ({tag})")
    Dp = do.DenseOperator.from_operator_repr(eigenstates=eig, n_qudits=n, operations=ops)
    Sp = so.SparseOperator.from_operator_repr(eigenstates=eig, n_qudits=n, operations=ops)
    env.check_eq(Dp.data, ref, "public DenseOperator.from_operator_repr (pulser validation + delegation) gives the same matrix")
    env.check_eq(dense(Sp.data), ref, "public SparseOperator.from_operator_repr (pulser validation + delegation) gives the same matrix")
    same = ret_d is ops and ret_s is ops and len(ops) == len(snap)
    for (c, top), (c0, top0) in zip(ops, snap):
        same = same and c is c0 and len(top) == len(top0)
        for (op, tg), (op_id, op_copy, tg_id, tg_copy) in zip(top, top0):
            same = same and op is op_id and tg is tg_id and list(tg) == tg_copy
            same = same and list(op) == list(op_copy) and all(op[k] is op_copy[k] for k in op_copy)
    env.check(same, "the operator representation is returned as is and not modified")
    vs = [env.cplx(f"v_{i}") for i in range(2**n)]
    v = ctensor(T, vs)
    st = sv.StateVector(v.clone(), gpu=False)
    want = matvec(ref_rows, vs)
    rd, rs = D.apply_to(st), S.apply_to(st)
    env.check(isinstance(rd, sv.StateVector) and isinstance(rs, sv.StateVector), "apply_to returns StateVectors")
    env.check_eq(rd.data, want, f"DenseOperator.apply_to = matrix-vector product ({tag})")
    env.check_eq(rs.data, want, f"SparseOperator.apply_to = matrix-vector product ({tag})")
    ev = braket(vs, want)
    env.check_eq(D.expect(st), ev, f"DenseOperator.expect = <v|A|v> ({tag})")
    env.check_eq(S.expect(st), ev, f"SparseOperator.expect = <v|A|v> ({tag})")
    env.check_eq(st.data, v, "state unchanged by apply_to / expect")
    env.check_eq(D.data, ref, "dense operator unchanged by apply_to / expect")
    env.check_eq(dense(S.data), ref, "sparse operator unchanged by apply_to / expect")


def oprepr_keys(n, n_keys):
    """one term, one QuditOp with n_keys operator strings picked among gg/gr/rg/rr,
    applied to an arbitrary non-empty set of target qubits (repeated targets)."""

    def fn(env):
        eig = env.choice("eigenstates", EIGS)
        strs = ["gg", "gr", "rg", "rr"]
        op = {}
        for j in range(n_keys):
            s = env.choice(f"opstr{j}", [x for x in strs if x not in op])
            op[s] = env.cplx(f"q{j}")
        subsets = [[q for q in range(n) if (m >> q) & 1] for m in range(1, 2**n)]
        targets = env.choice("targets", subsets)
        if env.boolean("targets_descending"):
            targets = targets[::-1]
        c = env.cplx("c")
        ops = [(c, [(op, targets)])]
        m = qudit_matrix(op, transpose=env.mutant("ket_bra_swapped"))
        ref_rows = full_matrix(n, [(c, {q: m for q in targets})], little=env.mutant("little_endian"))
        check_built_operators(env, n, eig, ops, ref_rows, f"n={n}, {n_keys} opstrings, one term")

    return fn


def oprepr_terms(n, n_terms, split_targets=False):
    """several terms; in every term each qubit carries the identity, a general
    QuditOp A_t (all four strings) or a shared QuditOp X ({"gr","rg"}).  With
    split_targets the qubits of A_t are spread over two TensorOp entries."""

    def fn(env):
        eig = env.choice("eigenstates", EIGS) if n_terms == 1 else ("r", "g")
        X = {"gr": env.cplx("x_gr"), "rg": env.cplx("x_rg")}
        ops, terms = [], []
        for t in range(n_terms):
            A = {s: env.cplx(f"A{t}_{s}") for s in ("rr", "gg", "rg", "gr")}
            c = env.cplx(f"c{t}")
            assign = [env.choice(f"t{t}q{q}", ["I", "A", "X"]) for q in range(n)]
            ta = [q for q in range(n) if assign[q] == "A"]
            tx = [q for q in range(n) if assign[q] == "X"]
            if split_targets and len(ta) > 1:
                top = [(A, ta[:1]), (X, tuple(tx)), (A, ta[1:])]
            else:
                top = [(X, tuple(tx)), (A, ta)]
            ops.append((c, top))
            ma = qudit_matrix(A)
            mx = qudit_matrix(X, transpose=env.mutant("ket_bra_swapped"))
            gates = {q: ma for q in ta}
            gates.update({q: mx for q in tx})
            terms.append(((2 * c if env.mutant("double_last_term") and t == n_terms - 1 else c), gates))
        ref_rows = full_matrix(n, terms, little=env.mutant("little_endian"))
        check_built_operators(env, n, eig, ops, ref_rows, f"n={n}, {n_terms} terms")

    return fn


def operator_algebra(n):
    """DenseOperator / SparseOperator holding arbitrary complex matrices."""

    def fn(env):
        T = env.torch
        sv = env.mod("emu_sv.state_vector")
        do = env.mod("emu_sv.dense_operator")
        so = env.mod("emu_sv.sparse_operator")
        dim = 2**n
        A = [[env.cplx(f"A_{i}_{j}") for j in range(dim)] for i in range(dim)]
        B = [[env.cplx(f"B_{i}_{j}") for j in range(dim)] for i in range(dim)]
        vs = [env.cplx(f"v_{i}") for i in range(dim)]
        z = env.cplx("z")
        At, Bt, v = ctensor(T, A), ctensor(T, B), ctensor(T, vs)
        DA, DB = do.DenseOperator(At.clone(), gpu=False), do.DenseOperator(Bt.clone(), gpu=False)
        SA = so.SparseOperator(At.to_sparse_coo().to_sparse_csr(), gpu=False)
        SB = so.SparseOperator(Bt.to_sparse_coo().to_sparse_csr(), gpu=False)
        st = sv.StateVector(v.clone(), gpu=False)
        Aref = [list(r) for r in zip(*A)] if env.mutant("transposed") else A

        want = matvec(Aref, vs)
        env.check_eq(DA.apply_to(st).data, want, f"DenseOperator.apply_to = A v (n={n})")
        env.check_eq(SA.apply_to(st).data, want, f"SparseOperator.apply_to = A v (n={n})")
        ev = braket(vs, want)
        env.check_eq(DA.expect(st), ev, "DenseOperator.expect = <v|A|v>")
        env.check_eq(SA.expect(st), ev, "SparseOperator.expect = <v|A|v>")

        ssum = [[A[i][j] + B[i][j] for j in range(dim)] for i in range(dim)]
        dsum, spsum = DA + DB, SA + SB
        env.check(isinstance(dsum, do.DenseOperator) and isinstance(spsum, so.SparseOperator), "sum types")
        env.check_eq(dsum.data, ctensor(T, ssum), "DenseOperator + = A + B entry-wise")
        env.check_eq(dense(spsum.data), ctensor(T, ssum), "SparseOperator + = A + B entry-wise")
        zz = 2 * z if env.mutant("double_scale") else z
        scaled = ctensor(T, [[zz * A[i][j] for j in range(dim)] for i in range(dim)])
        env.check_eq((z * DA).data, scaled, "z * DenseOperator = z A entry-wise")
        env.check_eq(dense((z * SA).data), scaled, "z * SparseOperator = z A entry-wise")
        prod = [[0.0] * dim for _ in range(dim)]
        for i in range(dim):
            for j in range(dim):
                acc = 0.0
                for k in range(dim):
                    acc = acc + Aref[i][k] * B[k][j]
                prod[i][j] = acc
        dprod = DA @ DB
        env.check(isinstance(dprod, do.DenseOperator), "product type")
        env.check_eq(dprod.data, ctensor(T, prod), "DenseOperator @ = matrix product (self applied after other)")
        env.check_eq(dprod.apply_to(st).data, DA.apply_to(DB.apply_to(st)).data, "(A @ B) v = A (B v)")
        env.check_raises(lambda: SA @ SB, (NotImplementedError,), "SparseOperator @ is documented as not implemented")
        # operands are never modified
        env.check_eq(DA.data, At, "dense left operand unchanged")
        env.check_eq(DB.data, Bt, "dense right operand unchanged")
        env.check_eq(dense(SA.data), At, "sparse left operand unchanged")
        env.check_eq(dense(SB.data), Bt, "sparse right operand unchanged")
        env.check_eq(st.data, v, "state unchanged")

    return fn


def sparse_helpers(shape_a, shape_b, shape_c):
    """sparse_kron / sparse_add on symbolic sparse matrices, including un-coalesced
    input with duplicate indices and a chained product (whose intermediate is
    flagged coalesced although its indices are not sorted)."""

    def fn(env):
        T = env.torch
        so = env.mod("emu_sv.sparse_operator")

        def sym(name, shape):
            return [[env.cplx(f"{name}_{i}_{j}") for j in range(shape[1])] for i in range(shape[0])]

        def kron_rows(X, Y):
            swap = env.mutant("kron_swapped") and len(X) == len(Y) and len(X[0]) == len(Y[0])
            if swap:
                X, Y = Y, X
            return [
                [X[i][j] * Y[k][l] for j in range(len(X[0])) for l in range(len(Y[0]))]
                for i in range(len(X))
                for k in range(len(Y))
            ]

        A, B, C = sym("A", shape_a), sym("B", shape_b), sym("C", shape_c)
        a, b, c = (ctensor(T, M).to_sparse_coo() for M in (A, B, C))
        ab = so.sparse_kron(a, b)
        env.check(tuple(ab.shape) == (shape_a[0] * shape_b[0], shape_a[1] * shape_b[1]), "kron shape")
        env.check_eq(dense(ab), ctensor(T, kron_rows(A, B)), f"sparse_kron(a, b) = a (x) b entry-wise {shape_a}x{shape_b}")
        abc = so.sparse_kron(ab, c)
        ABC = kron_rows(kron_rows(A, B), C)
        env.check_eq(dense(abc), ctensor(T, ABC), "sparse_kron(sparse_kron(a, b), c) = a (x) b (x) c")
        env.check_eq(dense(a), ctensor(T, A), "sparse_kron leaves its operands unchanged")
        # un-coalesced left operand: duplicate index (0,0) must be summed
        e1, e2 = env.cplx("e1"), env.cplx("e2")
        dup = T.sparse_coo_tensor(T.tensor([[0, 0], [0, 0]]), ctensor(T, [e1, e2]), (shape_a[0], shape_a[1]))
        D = [[0.0] * shape_a[1] for _ in range(shape_a[0])]
        D[0][0] = e1 + e2
        env.check_eq(dense(so.sparse_kron(dup, b)), ctensor(T, kron_rows(D, B)), "sparse_kron coalesces duplicate entries first")
        # sparse_add
        A2 = sym("A2", shape_a)
        a2 = ctensor(T, A2).to_sparse_coo()
        s = so.sparse_add(a, a2)
        w = 2 if env.mutant("add_twice") else 1
        env.check_eq(dense(s), ctensor(T, [[A[i][j] + w * A2[i][j] for j in range(shape_a[1])] for i in range(shape_a[0])]), "sparse_add = entry-wise sum")
        s3 = so.sparse_add(so.sparse_add(abc, abc), abc)
        env.check_eq(dense(s3), ctensor(T, [[3 * x for x in row] for row in ABC]), "sparse_add of chained Kronecker products")
        empty = T.sparse_coo_tensor(T.zeros(2, 0, dtype=T.int32), T.zeros(0, dtype=T.complex128), (shape_a[0], shape_a[1]))
        env.check_eq(dense(so.sparse_add(empty, a)), ctensor(T, A), "empty + a = a")

    return fn


META = {
    "explanation": (
        "StateVector / DensityMatrix / DenseOperator / SparseOperator and the helpers sparse_add, sparse_kron, "
        "index_to_bitstring are executed on symbolic complex amplitudes, vectors, matrices and coefficients. The "
        "characters of the amplitude keys, the operator strings, the target sets and the per-qubit assignment of "
        "QuditOps in every term are finite choices enumerated by forking; the `|norm^4-1| > 1e-12` test of _normalize "
        "forks on a z3 feasibility query and both branches are checked (state*||a|| = a with the sqrt/division atoms "
        "and their axioms). Every result entry is compared, as a polynomial identity under the path condition decided "
        "by z3, with an entry-wise reference written in the harness (index = sum b_q 2^(N-1-q), r -> 1; "
        "A_ij = sum_t c_t prod_q M_tq[i_q][j_q]); dense and sparse operators are compared with each other; "
        "inner/norm/overlap/sum/scale/apply/expect/matmul against sums over entries; operands are checked unchanged."
    ),
    "outside": [
        "N > 3 for operator representations and object algebra (N > 2 for the algebra in the quick tier); amplitude dictionaries: "
        "N > 8 with one key, N > 4 with two keys, N > 3 with three or all keys (quick tier: N > 4 with one key, N > 2 with two); "
        "the density matrix built from amplitudes is compared for N <= 4 only",
        "nested user-defined operator symbols such as {'X': {...}}: not reachable (operators_with_tensors is local to "
        "_from_operator_repr and holds only gg/gr/rg/rr; pulser 1.9.1 rejects other keys), torch.Tensor factors inside a TensorOp",
        "overlapping target sets between TensorOp entries (rejected by pulser's _validate_operations)",
        "all-zero amplitude dictionaries (division by a zero norm); non-finite values; floating-point rounding",
        "sample() (C15); GPU placement",
    ],
    "assumptions": [
        "float literals denote the decimal they are written as (1e-12 threshold)",
        "sqrt is abstracted by s >= 0, s^2 = x; division by q*d = n for d != 0",
    ],
}


def cases(tier):
    quick = tier == "quick"
    out = []
    # amplitudes
    if quick:
        grid = [(1, 2), (2, 2), (4, 1)]
    else:
        grid = [(1, 1), (1, 2), (2, 1), (2, 2), (2, 3), (2, 4), (3, 1), (3, 2), (3, 3), (3, 8), (4, 1), (4, 2), (5, 1), (6, 1), (7, 1), (8, 1)]
    for n, k in grid:
        out.append(
            Case(
                name=f"amplitudes_n{n}_k{k}",
                fn=amplitudes(n, k, both_orders=n <= 3),
                covers=COVERS_AMP,
                bounds={"n_qubits": n, "dict_entries": k, "keys": "every combination of distinct bitstrings (forked)", "amplitudes": "symbolic complex"},
                canaries=(["little_endian"] if n >= 2 else []) + ["g_is_one", "never_normalise"],
                weight=4**n if k == 1 else (2**n) ** min(k, 2**n - k + 1) * 2,
                timeout_ms=60000,
                deadline_s=800.0,
            )
        )
    out.append(
        Case(
            name="rejected_bases",
            fn=rejected_bases(),
            covers=COVERS_AMP[:2] + [("emu_sv/dense_operator.py", "DenseOperator._from_operator_repr"), ("emu_sv/sparse_operator.py", "SparseOperator._from_operator_repr")],
            bounds={"bases": "('0','1'), ('1','0'), ('g','h'), ('r','g','x'), ('r',)"},
            canaries=["xy_is_value_error"],
        )
    )
    out.append(
        Case(
            name="bitstring_roundtrip",
            fn=bitstring_roundtrip(5 if quick else 8),
            covers=[("emu_sv/utils.py", "index_to_bitstring"), ("emu_sv/state_vector.py", "StateVector._from_state_amplitudes")],
            bounds={"n_qubits": "1..5" if quick else "1..8", "index": "every index 0..2^n (concrete loop; integers are not symbolic)"},
            canaries=["little_endian"],
            weight=50,
        )
    )
    # state algebra
    for n in ([2] if quick else [1, 2, 3]):
        out.append(
            Case(
                name=f"state_algebra_n{n}",
                fn=state_algebra(n),
                covers=COVERS_ALG,
                bounds={"n_qubits": n, "vectors": "arbitrary complex"},
                canaries=["conj_right", "double_scale"],
                weight=4**n,
                timeout_ms=60000,
            )
        )
    for n in ([2] if quick else [1, 2, 3]):
        out.append(
            Case(
                name=f"dm_overlap_n{n}",
                fn=dm_overlap(n),
                covers=COVERS_ALG[-4:],
                bounds={"n_qubits": n, "matrices": "arbitrary complex"},
                canaries=["no_dagger"],
                weight=4**n,
            )
        )
    out.append(
        Case(
            name="dm_normalize_n1",
            fn=dm_normalize(1),
            covers=[("emu_sv/density_matrix_state.py", "DensityMatrix._normalize")],
            bounds={"n_qubits": 1, "matrix": "arbitrary complex with non-zero trace"},
            canaries=[],
        )
    )
    # operators
    for n, nk in ([(1, 2), (2, 2)] if quick else [(1, 1), (1, 2), (1, 4), (2, 1), (2, 2), (3, 1), (3, 2), (3, 3)]):
        out.append(
            Case(
                name=f"oprepr_keys_n{n}_k{nk}",
                fn=oprepr_keys(n, nk),
                covers=COVERS_OP,
                bounds={"n_qubits": n, "opstrings_per_QuditOp": nk, "targets": "every non-empty subset, both orders", "terms": 1},
                canaries=["ket_bra_swapped"] + (["little_endian"] if n >= 2 else []),
                weight=4**n * 12,
                deadline_s=800.0,
            )
        )
    tgrid = [(2, 2, False), (3, 1, True)] if quick else [
        (1, 1, False), (1, 3, False), (2, 1, True), (2, 2, False), (2, 3, False), (3, 1, True), (3, 2, False)
    ]
    for n, t, split in tgrid:
        out.append(
            Case(
                name=f"oprepr_terms_n{n}_t{t}",
                fn=oprepr_terms(n, t, split),
                covers=COVERS_OP,
                bounds={"n_qubits": n, "terms": t, "per_qubit": "identity / general QuditOp / shared X-like QuditOp (3^(n*terms) assignments, forked)"},
                canaries=["ket_bra_swapped", "double_last_term"] + (["little_endian"] if n >= 2 else []),
                weight=4**n * 3 ** (n * t),
                deadline_s=1200.0,
            )
        )
    for n in ([2] if quick else [1, 2, 3]):
        out.append(
            Case(
                name=f"operator_algebra_n{n}",
                fn=operator_algebra(n),
                covers=COVERS_OP,
                bounds={"n_qubits": n, "matrices": "arbitrary complex (dense and CSR)"},
                canaries=["transposed", "double_scale"],
                weight=8**n,
            )
        )
    for sa, sb, sc in ([((2, 2), (2, 2), (2, 2))] if quick else [((2, 2), (2, 2), (2, 2)), ((2, 3), (3, 2), (1, 2)), ((1, 1), (2, 2), (2, 1))]):
        out.append(
            Case(
                name=f"sparse_helpers_{sa[0]}x{sa[1]}_{sb[0]}x{sb[1]}_{sc[0]}x{sc[1]}",
                fn=sparse_helpers(sa, sb, sc),
                covers=[("emu_sv/sparse_operator.py", "sparse_add"), ("emu_sv/sparse_operator.py", "sparse_kron")],
                bounds={"shapes": [list(sa), list(sb), list(sc)]},
                canaries=["add_twice"] + (["kron_swapped"] if sa == sb else []),
                weight=20,
            )
        )
    if quick:
        out = _merge(out, "state_algebra_n2", "dm_overlap_n2")
        out = _merge(out, "operator_algebra_n2", "sparse_helpers_2x2_2x2_2x2")
    return out


def _merge(cases_, first, second):
    """run two single-path cases in one worker process (quick tier only: start-up dominates)."""
    a = next(c for c in cases_ if c.name == first)
    b = next(c for c in cases_ if c.name == second)

    def fn(env, fa=a.fn, fb=b.fn):
        fa(env)
        fb(env)

    merged = Case(
        name=f"{first}_and_{second}",
        fn=fn,
        covers=a.covers + [c for c in b.covers if c not in a.covers],
        bounds={first: a.bounds, second: b.bounds},
        canaries=a.canaries + [m for m in b.canaries if m not in a.canaries],
        weight=a.weight + b.weight,
        timeout_ms=max(a.timeout_ms, b.timeout_ms),
    )
    return [merged if c is a else c for c in cases_ if c is not b]
