"""C25 — badly prepared atoms behave as absent, on both backends."""

import dataclasses
from types import SimpleNamespace

from symex.api import Case
from symex import refs
from harness.svcommon import make_data, build_sv_impl, with_krylov_stub, h_ref_step, sv_stub_config
from harness.mpscommon import build_mps_impl, mps_config, kept_sites, h_ref_internal, all_perms

PROPERTY = "C25"

COVERS = [
    ("emu_sv/sv_backend_impl.py", "SVBackendImpl.__init__"),
    ("emu_sv/sv_backend_impl.py", "SVBackendImpl.init_dark_qubits"),
    ("emu_sv/sv_backend_impl.py", "SVBackendImpl._evolve_step"),
    ("emu_mps/mps_backend_impl.py", "MPSBackendImpl.__init__"),
    ("emu_mps/mps_backend_impl.py", "MPSBackendImpl.init_dark_qubits"),
    ("emu_mps/mps_backend_impl.py", "MPSBackendImpl.init_initial_state"),
    ("emu_mps/mps_backend_impl.py", "MPSBackendImpl._get_interaction_matrix"),
    ("emu_mps/mps_backend_impl.py", "MPSBackendImpl.init_noiseless_hamiltonian"),
    ("emu_mps/hamiltonian.py", "make_H"),
    ("emu_mps/hamiltonian.py", "update_H"),
]


def sv_bad_atoms(n, steps, slm=False):
    def fn(env):
        T = env.torch
        bad = [env.boolean(f"bad_{i}") for i in range(n)]
        data, sym = make_data(env, n, steps, bad_atoms=bad, prep_error=0.1, last_time=40, slm=slm)
        om0, de0, ph0 = sym.omega.clone(), sym.delta.clone(), sym.phi.clone()
        sym_ref = SimpleNamespace(**{**sym.__dict__, "omega": om0, "delta": de0, "phi": ph0})
        cfg = sv_stub_config(initial_state=None)

        def run(rec):
            impl = build_sv_impl(env, data, cfg)
            impl._run()
            return impl

        impl, rec = with_krylov_stub(env, "vec", run)
        env.check(len(rec.calls) == steps, "one exponential per interval")
        zero = [i for i in range(n) if bad[i]]
        if env.mutant("bad_atoms_driven"):
            zero = []
        for k, c in enumerate(rec.calls):
            # with bad atoms the interaction matrix stays time dependent (SLM mask): masked before its end, full after
            Uk = sym.masked if (slm and bool(sym.ts[k] < sym.slm_end)) else sym.full
            H = h_ref_step(env, sym_ref, k, Uk, n, zero_sites=zero)
            want = (-1.0j) * ((sym.ts[k + 1] - sym.ts[k]) * 0.001) * H
            env.check_eq(c.M, want, f"emu-sv step {k}: badly prepared atoms are not driven, detuned or interacting (n={n})")
        g = T.zeros(2**n, dtype=T.complex128)
        g[0] = 1.0
        env.check_eq(rec.calls[0].v, g, "all atoms (also the bad ones) start in |g>")
        env.check_eq(sym.full, sym.full.clone(), "interaction matrix object intact")

    return fn


def sv_rejects_initial_state(n):
    def fn(env):
        svs = env.mod("emu_sv.state_vector")
        data, sym = make_data(env, n, 1, bad_atoms=[True] + [False] * (n - 1), prep_error=0.1, last_time=40)
        init = svs.StateVector(env.tensor_cplx("psi0", (2**n,)), gpu=False)
        cfg = sv_stub_config(initial_state=init)
        env.check_raises(lambda: build_sv_impl(env, data, cfg), (NotImplementedError,), "initial state + state-preparation errors is refused")

    return fn


def mps_bad_atoms(n, d, reorder, min_good=0):
    def fn(env):
        T = env.torch
        bad = [env.boolean(f"bad_{i}") for i in range(n)]
        if min_good:
            # (used by C03, which is about the ordering, not about how few atoms emu-mps can start with)
            env.assume(sum(1 for b in bad if not b) >= min_good, f"at least {min_good} well-prepared atoms")
        perm = env.choice("perm", all_perms(n)) if reorder else list(range(n))
        data, sym = make_data(env, n, 1, bad_atoms=bad, prep_error=0.1, last_time=40)
        eig = ["r", "g"] if d == 2 else ["r", "g", "x"]
        data = dataclasses.replace(data, eigenstates=eig)
        om0, de0, ph0 = sym.omega.clone(), sym.delta.clone(), sym.phi.clone()
        cfg = mps_config(optimize_qubit_ordering=reorder)
        impl = build_mps_impl(env, data, cfg, perm)
        impl.init_dark_qubits()
        atoms = kept_sites(perm, bad)
        n_good = len(atoms)
        env.check(impl.qubit_count == n_good, "number of simulated sites = number of well-prepared atoms")
        try:
            impl.init_initial_state(None)
            impl.init_noiseless_hamiltonian()
        except (ValueError, AssertionError) as e:
            env.fail(f"emu-mps cannot initialise with {n_good} well-prepared atom(s) out of {n}", str(e)[:100])
            return
        want_filter = [not bad[a] for a in perm]
        if impl.well_prepared_qubits_filter is not None:
            got_filter = [bool(x) for x in impl.well_prepared_qubits_filter]
        else:
            got_filter = [True] * n
        env.check(got_filter == want_filter, "dark-atom mask is expressed in the internal (permuted) site order")
        dense = refs.contract_mpo(T, impl.hamiltonian.factors)
        ref_atoms = atoms if not env.mutant("register_order") else sorted(atoms)
        ref = h_ref_internal(env, om0[0], de0[0], ph0[0], sym.full, ref_atoms, d=d)
        env.check_eq(dense, ref, f"emu-mps Hamiltonian = Hamiltonian of the well-prepared atoms only, in internal order (n={n}, d={d})")
        st = refs.contract_mps(T, impl.state.factors)
        g = T.zeros(d**n_good, dtype=T.complex128)
        g[0] = 1.0
        env.check_eq(st, g, "initial state is |g..g> on the kept sites")

    return fn


META = {
    "explanation": (
        "emu-sv: the real SVBackendImpl (init_dark_qubits, _run, _evolve_step) is executed for every bad-atom mask (forked) with "
        "symbolic drives and interactions; the recorded step operator must equal the Hamiltonian in which the bad atoms carry no "
        "drive, detuning, phase or interaction, and all atoms start in |g>. emu-mps: the real MPSBackendImpl.__init__ (bandwidth "
        "optimiser replaced by an arbitrary permutation), init_dark_qubits, init_initial_state, _get_interaction_matrix and "
        "init_noiseless_hamiltonian are executed for every mask and every internal permutation; the contracted MPO must equal "
        "the dense Hamiltonian of the well-prepared atoms only, in internal order, for 2- and 3-level atoms, and the dark-atom "
        "mask used later for padding must be in internal order."
    ),
    "outside": [
        "the dynamics themselves (C01/C02) and the padding before observables (C13)",
        "N > 3 (emu-sv) / 4 (emu-mps) atoms",
    ],
    "assumptions": ["Pulser marks badly prepared atoms in register order (SequenceData.bad_atoms)"],
}


def cases(tier):
    out = []
    q = tier == "quick"
    for n, k in ([(2, 1), (3, 1)] if q else [(1, 1), (2, 2), (3, 2)]):
        out.append(
            Case(f"sv_bad_atoms_n{n}_steps{k}", sv_bad_atoms(n, k), covers=COVERS, bounds={"atoms": n, "steps": k, "masks": "all"}, canaries=["bad_atoms_driven"], weight=4**n)
        )
    out.append(
        Case("sv_bad_atoms_n2_steps2_slm", sv_bad_atoms(2, 2, slm=True), covers=COVERS, bounds={"atoms": 2, "steps": 2, "masks": "all", "slm_mask": "symbolic end time, symbolic masked/full matrices"}, canaries=["bad_atoms_driven"], weight=40)
    )
    out.append(Case("sv_rejects_initial_state", sv_rejects_initial_state(2), covers=COVERS, bounds={"atoms": 2}))
    grid = [(3, 2, True), (3, 3, False), (2, 2, True)] if q else [(2, 2, True), (3, 2, True), (3, 3, True), (4, 2, True), (4, 3, False), (4, 2, False)]
    for n, d, ro in grid:
        out.append(
            Case(
                f"mps_bad_atoms_n{n}_d{d}_{'reorder' if ro else 'noreorder'}",
                mps_bad_atoms(n, d, ro),
                covers=COVERS,
                bounds={"atoms": n, "dim": d, "qubit_reordering": ro, "masks": "all", "permutations": "all" if ro else "identity"},
                canaries=["register_order"] if ro else [],
                weight=(d**n) ** 2 * (6 if ro else 1),
                deadline_s=1500,
            )
        )
    # what the observables see: fill_results hands callbacks the NORMALISED state with the dark atoms
    # re-inserted in |g> (also when the norm is not 1, as under the non-Hermitian noisy evolution) - shared with C13
    from harness.c13 import mps_fill_results

    for nt, d, chi in ([(3, 2, 2)] if q else [(3, 2, 2), (3, 3, 1)]):  # (4 register atoms: C13's thorough tier)
        out.append(
            Case(
                f"mps_fill_results_N{nt}_d{d}_chi{chi}",
                mps_fill_results(nt, d, chi),
                covers=[("emu_mps/mps_backend_impl.py", "MPSBackendImpl.fill_results"), ("emu_mps/utils.py", "extended_mps_factors"), ("emu_mps/utils.py", "extended_mpo_factors")],
                bounds={"register_atoms": nt, "dim": d, "chi": chi, "masks": "all with >= 2 good atoms", "state norm": "arbitrary (symbolic, not normalised)"},
                canaries=["dark_excited"],
                weight=(d**nt) * 20,
                timeout_ms=60000,
                deadline_s=1500,
            )
        )
    return out
