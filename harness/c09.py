"""C09 — the DMRG solver finds the ground state of the final Hamiltonian.

Decidable part only: the sweep schedule, bath/centre bookkeeping, and the convergence /
give-up logic of DMRGBackendImpl.  The local problem handed to the eigensolver is the
projected Hamiltonian (decided under C02, closure "dmrg").  That the energies are variational,
reach the ground energy and that the state is normalised/canonical depend on C08 and on QR:
outside.
"""

from types import SimpleNamespace

from symex.api import Case
from symex.env import b_and, b_or, b_not, b_implies

PROPERTY = "C09"

COVERS = [
    ("emu_mps/mps_backend_impl.py", "DMRGBackendImpl.progress"),
    ("emu_mps/mps_backend_impl.py", "DMRGBackendImpl._left_to_right_update"),
    ("emu_mps/mps_backend_impl.py", "DMRGBackendImpl._right_to_left_update"),
    ("emu_mps/mps_backend_impl.py", "DMRGBackendImpl.sweep_complete"),
    ("emu_mps/mps_backend_impl.py", "DMRGBackendImpl.convergence_check"),
]


class F(str):
    device = "cpu"

    def to(self, *a, **k):
        return self


def sweeps(n, n_sweeps, max_sweeps):
    """Drive progress() through up to `n_sweeps` full sweeps with solver-chosen energies."""

    def fn(env):
        mm = env.mod("emu_mps.mps_backend_impl")
        tol = env.real("energy_tol", lo=1e-9, hi=1.0)
        impl = object.__new__(mm.DMRGBackendImpl)
        impl.config = SimpleNamespace(autosave_dt=float("inf"), precision=1e-5)
        impl.qubit_count = n
        impl.current_time = 0.0
        impl.target_time = 10.0
        impl.timestep_count = 3
        impl._timestep_index = 0
        impl.energy_tolerance = tol
        impl.max_sweeps = max_sweeps
        impl.sweep_count = 0
        impl.previous_energy = None
        impl.current_energy = None
        impl.last_save_time = 0.0
        centred = []

        class State:
            def __init__(self):
                self.factors = [F(f"A{k}") for k in range(n)]
                self.orthogonality_center = 0

            def orthogonalize(self, i):
                centred.append(i)
                self.orthogonality_center = i
                return i

        impl.state = State()
        impl.hamiltonian = SimpleNamespace(factors=[F(f"W{k}") for k in range(n)])
        impl.left_baths = [F("L0")]
        impl.right_baths = [F(f"R{k}") for k in range(n - 1)]
        events = []
        energies = []
        done = []
        impl.timestep_complete = lambda: done.append(len(events))

        def fake_min(*, state_factors, ham_factors, baths, orth_center_right, config, residual_tolerance):
            i = int(str(state_factors[0])[1:])
            events.append((i, int(str(state_factors[1])[1:]), orth_center_right, str(baths[0]), str(baths[1])))
            e = env.real(f"E{len(energies)}", lo=-50.0, hi=50.0)
            energies.append(e)
            return state_factors[0], state_factors[1], e

        saved = (mm.minimize_energy_pair, mm.new_left_bath, mm.new_right_bath)
        mm.minimize_energy_pair = fake_min
        mm.new_left_bath = lambda bath, st, op: F(f"L({st})")
        mm.new_right_bath = lambda bath, st, op: F(f"R({st})")
        raised = None
        per_sweep = 2 * (n - 1) - (0 if n > 2 else 0)
        per_sweep = max(2, 2 * (n - 2) + 0) if n > 2 else 2
        calls = 0
        try:
            try:
                while not done and calls < n_sweeps * (2 * n) + 2:
                    impl.progress()
                    calls += 1
            except RuntimeError as e:
                raised = str(e)
        finally:
            mm.minimize_energy_pair, mm.new_left_bath, mm.new_right_bath = saved
        # expected order of bonds in one sweep: (0,1)...(n-3,n-2) left-to-right, then (n-2,n-1)...(1,2) right-to-left;
        # for n=2 the single bond is optimised once in each direction
        one = [(i, i + 1, True) for i in range(max(n - 2, 1))] + [(i, i + 1, False) for i in range(n - 2, 0 if n > 2 else -1, -1)]
        if env.mutant("skips_last_bond") and n > 2:
            one = [b for b in one if b[0] != n - 2]
        k = len(one)
        for s in range((len(events) + k - 1) // k):
            chunk = [(a, b, c) for a, b, c, _, _ in events[s * k : (s + 1) * k]]
            env.check(chunk == one[: len(chunk)], f"sweep #{s} visits the bonds in DMRG order with the scheduled centre moves (n={n})")
        full = len(events) // k
        # convergence logic: after sweep s (s >= 1 full sweeps), converged iff |E_last(s) - E_last(s-1)| < tol
        expect_done = None
        expect_raise = False
        for s in range(1, full + 1):
            last = energies[s * k - 1]
            if s >= 2:
                prev = energies[(s - 1) * k - 1]
                if bool(abs(last - prev) < tol):
                    expect_done = s
                    break
            if s + 1 > max_sweeps:
                expect_raise = True
                break
        if env.mutant("converges_on_first_sweep") and expect_done is None and full >= 1 and not expect_raise:
            expect_done = 1
        if expect_done is not None:
            env.check(bool(done) and done[0] == expect_done * k, "the time step completes right after the first full sweep whose final energy moved by less than the tolerance")
            env.check(env.eqv(impl.current_time, 10.0), "and the clock is advanced to the target time")
        else:
            env.check(not done, "the time step does not complete before the energy has converged")
        env.check((raised is not None) == expect_raise, "RuntimeError exactly when max_sweeps full sweeps did not converge")
        if full >= 1:
            env.check(centred[:full] == [0] * len(centred[:full]) and len(centred) >= min(full, len(centred)), "every completed sweep re-centres the state on site 0")
            env.check(impl.state.orthogonality_center == 0 or len(events) % k != 0, "centre is on site 0 at the end of a sweep")
        if len(events) % k == 0:
            env.check(len(impl.left_baths) == 1 and len(impl.right_baths) == n - 1, "baths are back to their start-of-sweep shape")

    return fn


META = {
    "explanation": (
        "DMRGBackendImpl.progress/_left_to_right_update/_right_to_left_update/sweep_complete/convergence_check are executed with "
        "minimize_energy_pair replaced by a recording stub that returns solver-chosen energies, over up to 3 full sweeps with a "
        "symbolic energy tolerance. z3 decides that every sweep visits all bonds in DMRG order with the right centre moves and bath "
        "bookkeeping, that a time step completes exactly after the first full sweep whose final energy differs from the previous "
        "sweep's by less than the tolerance (never before), that RuntimeError is raised exactly when max_sweeps sweeps did not "
        "converge, and that every completed sweep re-centres the state on site 0."
    ),
    "outside": [
        "energy never below / equal to the exact ground energy, normalisation and canonical form of the returned state (C08 + QR/eigh numerics)",
        "more than 5 sweeps, N > 7 (thorough; quick: N <= 4, 3 sweeps)",
        "the first sweep of a later time step compares with the final energy of the previous time step (previous_energy is not reset) - reported as an observation, not checked",
    ],
    "assumptions": ["local minimisation returns arbitrary energies in [-50, 50]"],
}


def cases(tier):
    out = []
    grid = [(2, 3, 2000), (3, 3, 2000), (4, 2, 2000), (3, 3, 2)] if tier == "quick" else [(2, 3, 2000), (3, 3, 2000), (4, 3, 2000), (5, 2, 2000), (3, 3, 2), (2, 3, 1), (6, 2, 2000), (7, 2, 2000), (3, 5, 2000), (4, 4, 3)]
    for n, s, ms in grid:
        out.append(
            Case(
                f"sweeps_n{n}_upto{s}_max{ms}",
                sweeps(n, s, ms),
                covers=COVERS,
                bounds={"sites": n, "sweeps": s, "max_sweeps": ms},
                canaries=(["skips_last_bond"] if n > 2 else []) + (["converges_on_first_sweep"] if ms > s else []),
                weight=n * s,
                deadline_s=1200,
            )
        )
    # "a run requested with the DMRG solver is a DMRG run": the dispatch, for both documented spellings of the
    # solver (enum / string) - shared with C33
    from harness.c33 import solver_vs_noise, COVERS_IMPL

    out.append(
        Case(
            "dmrg_requested_dmrg_runs",
            solver_vs_noise(["none"]),
            covers=COVERS_IMPL,
            bounds={"solver": "tdvp/dmrg as string or enum", "noise": "none", "qubits": 2},
            canaries=[],
            conc_samples=4,
            weight=5,
        )
    )
    return out
