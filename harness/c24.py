"""C24 — noise-model channels act on the intended atomic levels.

The emulator's jump operators (`get_lindblad_operators`, gathered by
`_get_all_lindblad_noise_operators`) are produced from a duck-typed noise model
with symbolic rates and symbolic complex effective-noise operators, and are
compared with Pulser's own collapse operators (transcribed from
`HamiltonianData._build_local_collapse_operators`, cross-checked against that
function on every concrete run) on the *dissipator* they generate.
"""

import math as _math

from symex.api import Case

PROPERTY = "C24"

NON_LINDBLADIAN = ("SPAM", "doppler", "amplitude", "detuning", "register", "dmm_sigma", "dmm_crosstalk")
N_OPS = {"relaxation": 1, "dephasing": 1, "depolarizing": 3}


# ---------------------------------------------------------------------------
# plumbing
# ---------------------------------------------------------------------------
def _sqrt(x):
    """sqrt on floats and on symbolic scalars (atom s with s >= 0, s^2 = x)."""
    from symex.poly import Sc, sc_sqrt

    if isinstance(x, Sc):
        return sc_sqrt(x)
    return _math.sqrt(x)


class LiftedMath:
    """Stand-in for the `math` module inside emu_base.jump_lindblad_operators."""

    def __init__(self, real):
        self._real = real

    def sqrt(self, x):
        return _sqrt(x)

    def __getattr__(self, k):
        return getattr(self._real, k)


class lifted_math:
    def __init__(self, module):
        self.m = module

    def __enter__(self):
        self.saved = self.m.math
        self.m.math = LiftedMath(self.saved)

    def __exit__(self, *a):
        self.m.math = self.saved
        return False


class StubNoiseModel:
    """The attributes of pulser.NoiseModel that the code under test reads."""

    def __init__(self, noise_types, **kw):
        self.noise_types = tuple(noise_types)
        self.relaxation_rate = kw.get("relaxation_rate", 0.0)
        self.dephasing_rate = kw.get("dephasing_rate", 0.0)
        self.hyperfine_dephasing_rate = kw.get("hyperfine_dephasing_rate", 0.0)
        self.depolarizing_rate = kw.get("depolarizing_rate", 0.0)
        self.eff_noise_rates = tuple(kw.get("eff_noise_rates", ()))
        self.eff_noise_opers = tuple(kw.get("eff_noise_opers", ()))
        self.with_leakage = kw.get("with_leakage", False)


def pulser_basis(interact, d):
    b = ["r", "g"] if interact == "ising" else ["u", "d"]
    return b + (["x"] if d == 3 else [])


def to_emulator(interact, d):
    """index list idx with  M_emu[i, j] = M_pulser[idx[i], idx[j]]:
    emulator order (g, r[, x]) resp. (0=u, 1=d[, x])."""
    idx = [1, 0] if interact == "ising" else [0, 1]
    return idx + ([2] if d == 3 else [])


def ketbra(T, basis, a, b):
    """|a><b| in the given ordered basis (Pulser: sigma_ab = |a><b|)."""
    d = len(basis)
    rows = [[0.0] * d for _ in range(d)]
    rows[basis.index(a)][basis.index(b)] = 1.0
    return T.tensor(rows, dtype=T.complex128)


# ---------------------------------------------------------------------------
# oracle: transcription of HamiltonianData._build_local_collapse_operators
# ---------------------------------------------------------------------------
def pulser_collapse_ops(env, nm, basis):
    T = env.torch
    ops = []
    if "dephasing" in nm.noise_types:
        rates = {"d": nm.dephasing_rate, "r": nm.dephasing_rate, "h": nm.hyperfine_dephasing_rate}
        two = 1.0 if env.mutant("deph_rate") else 2.0
        for s in basis:
            if s in rates:
                ops.append(_sqrt(two * rates[s]) * ketbra(T, basis, s, s))
    if "relaxation" in nm.noise_types:
        if env.mutant("relax_reverse"):
            ops.append(_sqrt(nm.relaxation_rate) * ketbra(T, basis, "r", "g"))
        else:
            ops.append(_sqrt(nm.relaxation_rate) * ketbra(T, basis, "g", "r"))
    if "depolarizing" in nm.noise_types:
        b, a = basis[:2]
        four = 2.0 if env.mutant("depol_rate") else 4.0
        c = _sqrt(nm.depolarizing_rate / four)
        sab, sba = ketbra(T, basis, a, b), ketbra(T, basis, b, a)
        ops.append(c * (sab + sba))
        ops.append(c * (1.0j * sab - 1.0j * sba))
        ops.append(c * (ketbra(T, basis, b, b) - ketbra(T, basis, a, a)))
    if "eff_noise" in nm.noise_types:
        for rate, op in zip(nm.eff_noise_rates, nm.eff_noise_opers):
            coeff = rate if env.mutant("eff_rate_not_rooted") else _sqrt(rate)
            ops.append(coeff * T.as_tensor(op, dtype=T.complex128))
    return ops


def cross_check_transcription(env, nm, interact, d, mine):
    """Concrete runs only: call Pulser's own function on the same noise model and
    compare with the transcription, operator by operator."""
    if env.symbolic:
        return
    import numpy as np
    from pulser._hamiltonian_data.hamiltonian_data import HamiltonianData

    basis = pulser_basis(interact, d)
    name = ("ground-rydberg" if interact == "ising" else "XY") + ("_with_error" if d == 3 else "")
    nm_np = StubNoiseModel(
        nm.noise_types,
        relaxation_rate=float(nm.relaxation_rate),
        dephasing_rate=float(nm.dephasing_rate),
        hyperfine_dephasing_rate=float(nm.hyperfine_dephasing_rate),
        depolarizing_rate=float(nm.depolarizing_rate),
        eff_noise_rates=[float(r) for r in nm.eff_noise_rates],
        eff_noise_opers=[env.to_numpy(env.torch.as_tensor(o, dtype=env.torch.complex128)) for o in nm.eff_noise_opers],
    )
    names = HamiltonianData._get_projectors(basis)
    coll, paulis = HamiltonianData._build_local_collapse_operators(None, nm_np, name, basis, names)

    def sigma(lbl):
        assert lbl.startswith("sigma_") and len(lbl) == 8, lbl
        m = np.zeros((d, d), dtype=complex)
        m[basis.index(lbl[6]), basis.index(lbl[7])] = 1.0
        return m

    theirs = []
    for coeff, op in coll:
        if isinstance(op, str):
            if op in paulis:
                theirs.append(coeff * sum(c * sigma(l) for c, l in paulis[op]))
            else:
                theirs.append(coeff * sigma(op))
        else:
            theirs.append(coeff * np.asarray(op))
    if len(theirs) != len(mine):
        raise RuntimeError(f"oracle transcription: {len(mine)} operators, Pulser builds {len(theirs)}")
    for k, (a, b) in enumerate(zip(mine, theirs)):
        if not np.allclose(env.to_numpy(a), b, atol=1e-12):
            raise RuntimeError(f"oracle transcription differs from Pulser's collapse operator {k}")


def dissipator(T, ops, rho):
    d = rho.shape[0]
    out = T.zeros(d, d, dtype=T.complex128)
    for L in ops:
        LdL = L.mH @ L
        out = out + L @ rho @ L.mH - 0.5 * (LdL @ rho + rho @ LdL)
    return out


def reorder(M, idx):
    return M[idx][:, idx]


def oracle_in_emulator_basis(env, nm, interact, d):
    T = env.torch
    basis = pulser_basis(interact, d)
    ops = pulser_collapse_ops(env, nm, basis)
    cross_check_transcription(env, nm, interact, d, ops)
    idx = to_emulator(interact, d)
    if env.mutant("no_reorder"):
        idx = list(range(d))
    return [reorder(L, idx) for L in ops]


def compare_channels(env, got, nm, interact, d, tag):
    """The generator the emulators integrate is built from the jump operators and from the
    effective-Hamiltonian term K = compute_noise_from_lindbladians(ops):
        rho -> -i (K rho - rho K^dag) + sum_k L_k rho L_k^dag.
    It must be Pulser's dissipator.  (K itself is only defined up to the gauge L -> L + c,
    so it is compared with the emulator's own operators, not with Pulser's.)"""
    T = env.torch
    jm = env.mod("emu_base.jump_lindblad_operators")
    ref = oracle_in_emulator_basis(env, nm, interact, d)
    env.check(all(tuple(L.shape) == (d, d) for L in got), f"operators are {d}x{d} ({tag})")
    rho = env.tensor_cplx("rho", (d, d))
    want = dissipator(T, ref, rho)
    env.check_eq(
        dissipator(T, got, rho),
        want,
        f"dissipator of the emulator's jump operators = Pulser's, in the emulator's level order ({tag})",
    )
    K = jm.compute_noise_from_lindbladians(got, d)
    kself = T.zeros(d, d, dtype=T.complex128)
    for L in got:
        kself = kself + (-0.5j) * (L.mH @ L)
    env.check_eq(K, kself, f"compute_noise_from_lindbladians = -(i/2) sum L^dag L of the jump operators ({tag})")
    gen = -1.0j * (K @ rho - rho @ K.mH)
    for L in got:
        gen = gen + L @ rho @ L.mH
    env.check_eq(gen, want, f"-i(K rho - rho K^dag) + sum L rho L^dag with K from compute_noise_from_lindbladians = Pulser's dissipator ({tag})")


def eff_inputs(env, d, n_eff, as_list):
    rates = [env.real(f"eff_rate{k}", lo=0.0) for k in range(n_eff)]
    opers = [env.tensor_cplx(f"A{k}", (d, d)) for k in range(n_eff)]
    keep = [o.clone() for o in opers]
    given = [o.tolist() for o in opers] if as_list else opers
    return rates, given, keep


# ---------------------------------------------------------------------------
# cases
# ---------------------------------------------------------------------------
RATE_OF = {"relaxation": "relaxation_rate", "dephasing": "dephasing_rate", "depolarizing": "depolarizing_rate"}


def channels(kinds, interact, d, n_eff=1, as_list=False):
    """Each channel on its own through get_lindblad_operators."""

    def fn(env):
        T = env.torch
        jm = env.mod("emu_base.jump_lindblad_operators")
        for kind in kinds:
            tag = f"{kind}, {interact}, d={d}"
            kw = {}
            keep = given = []
            if kind == "eff_noise":
                rates, given, keep = eff_inputs(env, d, n_eff, as_list)
                kw["eff_noise_rates"] = rates
                kw["eff_noise_opers"] = given
            else:
                kw[RATE_OF[kind]] = env.real(RATE_OF[kind], lo=0.0)
            types = [kind] + (["leakage"] if d == 3 else [])
            nm = StubNoiseModel(types, with_leakage=d == 3, **kw)
            with lifted_math(jm):
                got = jm.get_lindblad_operators(noise_type=kind, noise_model=nm, interact_type=interact, dim=d)
            # (no clause on the NUMBER of operators: dropping or adding null operators is harmless; what the
            # channel does is decided by the dissipator comparison below)
            env.check(all(tuple(o.shape) == (d, d) for o in got), f"every jump operator is a {d}x{d} matrix ({tag})")
            for k, o in enumerate(keep):
                env.check_eq(T.as_tensor(given[k], dtype=T.complex128), o, f"the user's effective operator is left unchanged ({tag})")
            compare_channels(env, got, nm, interact, d, tag)
        if d == 3:
            nm = StubNoiseModel(("leakage", "eff_noise"), with_leakage=True)
            with lifted_math(jm):
                env.check(
                    jm.get_lindblad_operators(noise_type="leakage", noise_model=nm, interact_type=interact, dim=d) == [],
                    "'leakage' itself contributes no operator",
                )

    return fn


def all_channels(interact, d, n_eff):
    tag = f"all, {interact}, d={d}"
    kinds = (["relaxation"] if interact == "ising" else []) + ["dephasing", "depolarizing", "eff_noise"]

    def fn(env):
        T = env.torch
        jm = env.mod("emu_base.jump_lindblad_operators")
        pa = env.mod("emu_base.pulser_adapter")
        present = [k for k in kinds if env.boolean("has_" + k)]
        kw = {}
        for k in present:
            if k == "eff_noise":
                rates, given, _ = eff_inputs(env, d, n_eff, False)
                kw["eff_noise_rates"] = rates
                kw["eff_noise_opers"] = given
            else:
                kw[RATE_OF[k]] = env.real(RATE_OF[k], lo=0.0)
        # interleave names that are not Lindbladian: they must be skipped
        types = []
        fillers = list(NON_LINDBLADIAN)
        for k in reversed(present):
            types.append(fillers.pop())
            types.append(k)
        types.extend(fillers)
        if d == 3:
            types.insert(1, "leakage")
        nm = StubNoiseModel(types, with_leakage=d == 3, **kw)
        with lifted_math(jm):
            got = pa._get_all_lindblad_noise_operators(nm, dim=d, interact_type=interact)
        # (no clause on the number of operators - null operators may be dropped or kept; that the
        # non-Lindbladian names contribute nothing is part of the dissipator comparison)
        env.check(all(tuple(o.shape) == (d, d) for o in got), f"every jump operator is a {d}x{d} matrix ({tag})")
        compare_channels(env, got, nm, interact, d, tag)

    return fn


def error_paths(interact):
    def fn(env):
        T = env.torch
        jm = env.mod("emu_base.jump_lindblad_operators")
        pa = env.mod("emu_base.pulser_adapter")

        def get(nm, kind, dim):
            with lifted_math(jm):
                return jm.get_lindblad_operators(noise_type=kind, noise_model=nm, interact_type=interact, dim=dim)

        def get_all(nm, dim):
            with lifted_math(jm):
                return pa._get_all_lindblad_noise_operators(nm, dim=dim, interact_type=interact)

        for d in (2, 3):
            env.check(pa._get_all_lindblad_noise_operators(None, dim=d, interact_type=interact) == [], f"no noise model: no operators (d={d})")
            only_fill = StubNoiseModel(NON_LINDBLADIAN)
            env.check(get_all(only_fill, d) == [], f"only non-Lindbladian noise: no operators (d={d})")
            unknown = StubNoiseModel(("SPAM", "thermal_bath"))
            env.check_raises(lambda: get(unknown, "thermal_bath", d), (ValueError,), f"unknown noise type raises ValueError (d={d})")
            env.check_raises(
                lambda: get_all(unknown, d), (ValueError,), f"unknown noise type reaches get_lindblad_operators and raises ValueError (d={d})"
            )
            # hyperfine dephasing
            h = env.real(f"hyperfine_dephasing_rate_d{d}", lo=0.0)
            g = env.real("dephasing_rate", lo=0.0)
            nm = StubNoiseModel(("dephasing",), dephasing_rate=g, hyperfine_dephasing_rate=h)
            try:
                get(nm, "dephasing", d)
                raised = False
            except NotImplementedError:
                raised = True
            label = f"hyperfine dephasing != 0 raises NotImplementedError, = 0 is accepted (d={d})"
            if env.mutant("hyperfine_accepted"):
                env.check(not raised, label)
            else:
                env.check((h != 0) if raised else (h == 0), label)
            # shapes
            r = env.real("eff_rate", lo=0.0)
            other = 5 - d
            for shape in [(other, other), (d, other), (other, d), (d + 2, d + 2)]:
                bad = StubNoiseModel(("eff_noise",), eff_noise_rates=[r], eff_noise_opers=[T.ones(*shape, dtype=T.complex128)])
                env.check_raises(
                    lambda: get(bad, "eff_noise", d), (ValueError,), f"effective operator of shape {shape} with dim={d} raises ValueError"
                )
            mixed = StubNoiseModel(
                ("eff_noise",),
                eff_noise_rates=[r, r],
                eff_noise_opers=[T.ones(d, d, dtype=T.complex128), T.ones(other, other, dtype=T.complex128)],
            )
            env.check_raises(lambda: get_all(mixed, d), (ValueError,), f"one wrongly shaped operator among several raises ValueError (d={d})")

    return fn


COVERS = [
    ("emu_base/jump_lindblad_operators.py", "get_lindblad_operators"),
    ("emu_base/jump_lindblad_operators.py", "compute_noise_from_lindbladians"),
    ("emu_base/pulser_adapter.py", "_get_all_lindblad_noise_operators"),
]

META = {
    "explanation": (
        "get_lindblad_operators, _get_all_lindblad_noise_operators and compute_noise_from_lindbladians are executed on a "
        "duck-typed noise model with symbolic rates >= 0 (math.sqrt in the module namespace is lifted to the symbolic "
        "square-root atom s >= 0, s^2 = rate) and symbolic complex dxd effective-noise operators, d in {2,3}, for the "
        "ising and XY level orders. The oracle is a transcription of Pulser's "
        "HamiltonianData._build_local_collapse_operators (compared with that function itself on every concrete run), "
        "carried from Pulser's order (r,g[,x]) / (u,d[,x]) to the emulator's (g,r[,x]) / (0,1[,x]) by the permutation "
        "similarity. For a symbolic complex dxd rho, z3 decides entry-wise equality of Pulser's dissipator "
        "sum L rho L^dag - 1/2 {L^dag L, rho} with (a) the dissipator of the emulator's operators and (b) the generator "
        "-i(K rho - rho K^dag) + sum L rho L^dag assembled from K = compute_noise_from_lindbladians(ops), and K = -(i/2) "
        "sum L^dag L; the error contract (unknown type, hyperfine dephasing, operator shape, skipped non-Lindbladian "
        "names) is decided on the forked paths."
    ),
    "outside": [
        "more than 2 effective-noise operators at once (the dissipator is additive in the operators)",
        "hyperfine dephasing / digital and 'all' bases (rejected by the code under test)",
        "relaxation in XY mode (Pulser rejects it before the emulator is reached)",
        "the meaning sigma_ab = |a><b| of Pulser's operator names is taken from pulser-simulation (not installed)",
        "floating-point rounding of sqrt",
    ],
    "assumptions": [
        "rates are >= 0 (validated by pulser.NoiseModel)",
        "XY level order of the emulator is (0,1[,x]) = Pulser's (u,d[,x])",
    ],
}


def cases(tier):
    out = []
    quick = tier == "quick"
    for interact in ("ising", "XY"):
        for d in (2, 3):
            kinds = (["relaxation"] if interact == "ising" else []) + ["dephasing", "depolarizing"]
            out.append(
                Case(
                    name=f"rate_channels_{interact}_d{d}",
                    fn=channels(kinds, interact, d),
                    covers=COVERS,
                    bounds={"channels": kinds, "interact_type": interact, "dim": d, "rates": "symbolic >= 0"},
                    canaries=["deph_rate", "depol_rate"] + (["relax_reverse", "no_reorder"] if interact == "ising" else []),
                    weight=d * d,
                )
            )
            effs = ([(1, False)] + ([(2, False)] if (interact, d) == ("ising", 2) else [])) if quick else [(1, True), (2, False)]
            for n_eff, as_list in effs:
                out.append(
                    Case(
                        name=f"eff_noise_{interact}_d{d}_ops{n_eff}{'_lists' if as_list else ''}",
                        fn=channels(["eff_noise"], interact, d, n_eff, as_list),
                        covers=COVERS,
                        bounds={
                            "channel": "eff_noise",
                            "interact_type": interact,
                            "dim": d,
                            "operators": f"{n_eff} arbitrary complex {d}x{d}, given as {'nested lists' if as_list else 'tensors'}",
                            "rates": "symbolic >= 0",
                        },
                        canaries=["eff_rate_not_rooted"] + (["no_reorder"] if interact == "ising" else []),
                        weight=d * d * d * n_eff,
                        timeout_ms=60000,
                    )
                )
            if not quick or d == 2:
                out.append(
                    Case(
                        name=f"all_channels_{interact}_d{d}",
                        fn=all_channels(interact, d, 1),
                        covers=COVERS,
                        bounds={
                            "interact_type": interact,
                            "dim": d,
                            "noise_types": "every subset of the Lindbladian channels, interleaved with all non-Lindbladian names",
                        },
                        canaries=["deph_rate"],
                        weight=2 * d * d * d,
                        timeout_ms=60000,
                    )
                )
        out.append(
            Case(
                name=f"errors_{interact}",
                fn=error_paths(interact),
                covers=COVERS,
                bounds={"interact_type": interact, "dim": [2, 3]},
                canaries=["hyperfine_accepted"],
            )
        )
    return out
