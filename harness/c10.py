"""C10 — MPS truncation and canonical form honour their contract (decidable part).

`torch.linalg.eigh` and `torch.linalg.qr` are LAPACK kernels.  The harness puts a
proxy of the torch module into the namespace of the module under test
(`emu_mps.utils.torch`, `emu_mps.mps.torch`) whose `linalg.eigh` returns
harness-provided spectra (symbolic ascending reals) and eigenvector matrices
(symbolic), and whose `linalg.qr` returns a symbolic pair with Q R = A.  The
proxy forwards everything else, so the same harness runs under the real torch
(replay of counterexamples) and under symtorch.
"""

from symex.api import Case
from symex import refs
from symex.env import b_and, b_or, b_implies, scalar

PROPERTY = "C10"

EIG = {2: ("r", "g"), 3: ("g", "r", "x")}


# --------------------------------------------------------------------------
# stubs
# --------------------------------------------------------------------------
class _NS:
    def __init__(self, base, over):
        self._base = base
        self.__dict__.update(over)

    def __getattr__(self, k):
        return getattr(self._base, k)


class TorchProxy:
    """the torch module with some `linalg` kernels replaced."""

    def __init__(self, base, **linalg):
        self._base = base
        self.linalg = _NS(base.linalg, linalg)

    def __getattr__(self, k):
        return getattr(self._base, k)


class patched:
    """with patched(env, eigh=..., qr=...): puts the proxies in place and restores them."""

    def __init__(self, env, eigh=None, qr=None):
        self.env, self.eigh, self.qr = env, eigh, qr

    def __enter__(self):
        T = self.env.torch
        self.u = self.env.mod("emu_mps.utils")
        self.m = self.env.mod("emu_mps.mps")
        self.saved = (self.u.torch, self.m.torch)
        if self.eigh is not None:
            self.u.torch = TorchProxy(T, eigh=self.eigh)
        if self.qr is not None:
            self.m.torch = TorchProxy(T, qr=self.qr)
        return self

    def __exit__(self, *exc):
        self.u.torch, self.m.torch = self.saved
        return False


def spectrum(env, name, k, nonneg, positive_top=False):
    """k ascending reals d_0 <= ... <= d_{k-1} (every such sequence is base + non-negative gaps)."""
    T = env.torch
    vals = [env.real(f"{name}_0", lo=0.0 if nonneg else None)]
    for i in range(1, k):
        vals.append(vals[-1] + env.real(f"{name}_gap{i}", lo=0.0))
    if positive_top:
        env.assume(vals[-1] > 0.0, "the largest eigenvalue is positive (non-zero matrix)")
    return T.tensor(vals, dtype=T.float64), vals


def epsilon(env, name="eps"):
    return env.real(name, lo=0.0, hi=2.0, nonzero=True)


def psum(vals):
    acc = 0.0
    for v in vals:
        acc = acc + v
    return acc


def weight_vcs(env, vals, kept, max_rank, eps, tag, lazy_check=True):
    """the contract of one truncated bond, from the spectrum handed to the code and the rank it kept."""
    k = len(vals)
    mb = k - kept
    eps2 = eps * eps
    env.check(1 <= kept <= min(k, max_rank), f"{tag}: 1 <= kept <= min(k, max_rank)")
    if kept < 1 or kept > k:
        return
    if kept < max_rank:  # the rank cap does not bind
        shift = 1 if env.mutant("one_more") else 0
        env.check(env.le(psum(vals[: mb + shift]), eps2), f"{tag}: discarded weight <= eps^2 when the rank cap does not bind")
        if lazy_check:
            env.check(
                b_or(psum(vals[: mb + 1]) > eps2, b_and(mb == 0, env.le(psum(vals), eps2))),
                f"{tag}: discarding one more eigenvalue would exceed eps^2 (or nothing is discarded because the total weight is below eps^2)",
            )


# --------------------------------------------------------------------------
# _determine_cutoff_index
# --------------------------------------------------------------------------
def cutoff_case(k, nonneg):
    def fn(env):
        T = env.torch
        u = env.mod("emu_mps.utils")
        d, vals = spectrum(env, "d", k, nonneg)
        d0 = d.clone()
        eps = epsilon(env)
        idx = u._determine_cutoff_index(d, eps)
        env.check(isinstance(idx, int) and 0 <= idx <= k - 1, f"cutoff index in [0, k-1] (k={k}): at least one eigenvalue is kept")
        weight_vcs(env, vals, k - idx, k + 1, eps, f"cutoff(k={k})")
        # the running sums below the cutoff never exceeded eps^2
        for j in range(idx):
            env.check(env.le(psum(vals[: j + 1]), eps * eps), f"running sum {j} below the cutoff is <= eps^2")
        env.check_eq(d, d0, "spectrum unchanged")
        env.check_raises(lambda: u._determine_cutoff_index(d, 0.0), (AssertionError,), "max_error = 0 is rejected")

    return fn


# --------------------------------------------------------------------------
# split_matrix
# --------------------------------------------------------------------------
def split_case(r, c, nonneg, sym_q):
    def fn(env):
        T = env.torch
        u = env.mod("emu_mps.utils")
        m = env.tensor_cplx("m", (r, c))
        m0 = m.clone()
        right_branch = env.boolean("orth_center_right")
        k = r if right_branch else c
        preserve = env.boolean("preserve_norm") if nonneg else False
        d, vals = spectrum(env, "d", k, nonneg, positive_top=preserve)
        q = env.tensor_cplx("q", (k, k)) if sym_q else T.eye(k, dtype=T.complex128)
        q0 = q.clone()
        max_rank = env.choice("max_rank", list(range(1, k + 2)))
        eps = epsilon(env)
        calls = []

        def eigh(a):
            calls.append(a)
            return d, q

        with patched(env, eigh=eigh):
            left, right = u.split_matrix(m, max_error=eps, max_rank=max_rank, orth_center_right=right_branch, preserve_norm=preserve)
        env.check(len(calls) == 1, "eigh is called once")
        gram = m0 @ m0.mH if right_branch else m0.mH @ m0
        env.check_eq(calls[0], gram, "eigh receives m m^dag (orth_center_right) / m^dag m")
        kept = left.shape[1]
        env.check(tuple(left.shape) == (r, kept) and tuple(right.shape) == (kept, c), "split shapes (r, kept), (kept, c)")
        weight_vcs(env, vals, kept, max_rank, eps, f"split({r}x{c})")
        mb = k - kept
        # the kept columns are those of the largest eigenvalues: the index range [k-kept, k)
        qk = q0[:, :kept] if env.mutant("smallest") else q0[:, mb:]
        dd = T.tensor(vals, dtype=T.float64)
        scale = T.sqrt(T.sum(dd) / T.sum(dd[mb:])) if preserve else 1.0
        if right_branch:
            env.check_eq(left, qk, "left = eigenvectors of the kept (largest) eigenvalues")
            env.check_eq(right, scale * (qk.mH @ m0), "right = left^dag m (times the norm-preserving factor)")
        else:
            env.check_eq(right, qk.mH, "right = (eigenvectors of the kept (largest) eigenvalues)^dag")
            env.check_eq(left, scale * (m0 @ qk), "left = m right^dag (times the norm-preserving factor)")
        if preserve:
            s = scalar(scale)
            env.check(env.eqv(s * s * psum(vals[mb:]), psum(vals)), "preserve_norm: factor^2 = sum(d) / sum(kept d)")
            env.check(env.ge(s, 1.0 if not env.mutant("shrinks") else 1.5), "preserve_norm: factor >= 1")
        env.check_eq(m, m0, "split_matrix leaves m unchanged")
        env.check_eq(d, T.tensor(vals, dtype=T.float64), "split_matrix leaves the spectrum unchanged")
        env.check_eq(q, q0, "split_matrix leaves the eigenvectors unchanged")

    return fn


def split_both_case(r, nonneg):
    """square m: the two orth_center_right branches keep the same index range for the same spectrum."""

    def fn(env):
        T = env.torch
        u = env.mod("emu_mps.utils")
        m = env.tensor_cplx("m", (r, r))
        d, vals = spectrum(env, "d", r, nonneg)
        q = env.tensor_cplx("q", (r, r))
        max_rank = env.choice("max_rank", list(range(1, r + 2)))
        eps = epsilon(env)
        with patched(env, eigh=lambda a: (d, q)):
            l1, r1 = u.split_matrix(m, max_error=eps, max_rank=max_rank, orth_center_right=True)
            l2, r2 = u.split_matrix(m, max_error=eps, max_rank=max_rank, orth_center_right=False)
        env.check(l1.shape[1] == l2.shape[1] + (1 if env.mutant("differ") else 0), "both branches keep the same number of eigenvalues")
        if l1.shape[1] == r2.shape[0]:
            env.check_eq(l1, r2.mH, "both branches keep the same eigenvector columns")
        defaults = u.split_matrix.__defaults__
        env.check(defaults == (1e-5, 1024, True, False), "documented defaults of split_matrix")

    return fn


# --------------------------------------------------------------------------
# truncate_impl
# --------------------------------------------------------------------------
def sym_mps(env, name, n, d, chis):
    dims = [1] + list(chis) + [1]
    return [env.tensor_cplx(f"{name}{k}", (dims[k], d, dims[k + 1])) for k in range(n)]


def well_formed(env, fs, n, d, what):
    env.check(len(fs) == n, f"{what}: one factor per site")
    env.check(all(f.dim() == 3 and f.shape[1] == d for f in fs), f"{what}: factors are (Dl, d, Dr)")
    env.check(fs[0].shape[0] == 1 and fs[-1].shape[-1] == 1, f"{what}: outer bonds are 1")
    env.check(all(fs[i].shape[-1] == fs[i + 1].shape[0] for i in range(n - 1)), f"{what}: adjacent bonds match")


def make_eigh(env, log, nonneg, sym_q):
    T = env.torch

    def eigh(a):
        j = len(log)
        k = a.shape[0]
        d, vals = spectrum(env, f"d{j}", k, nonneg)
        q = env.tensor_cplx(f"q{j}", (k, k)) if sym_q else T.eye(k, dtype=T.complex128)
        log.append({"arg": a, "k": k, "vals": vals, "q": q.clone()})
        return d, q

    return eigh


def truncate_impl_case(n, d, chis, nonneg, sym_q):
    def fn(env):
        T = env.torch
        u = env.mod("emu_mps.utils")
        fs = sym_mps(env, "a", n, d, chis)
        f0 = [f.clone() for f in fs]
        mbd = env.choice("max_bond_dim", [1, 2, 3, 64])
        eps = epsilon(env)
        log = []
        with patched(env, eigh=make_eigh(env, log, nonneg, sym_q)):
            ret = u.truncate_impl(fs, precision=eps, max_bond_dim=mbd)
        env.check(ret is None, "truncate_impl works in place")
        well_formed(env, fs, n, d, "truncate_impl")
        env.check(len(log) == n - 1 + (1 if env.mutant("extra_bond") else 0), "every inner bond is visited exactly once")
        env.check(all(1 <= fs[i].shape[0] <= mbd for i in range(1, n)), "every bond is between 1 and max_bond_dim afterwards")
        # replay the sweep from the recorded spectra: site i = n-1 ... 1 is the j-th eigh call
        cur = [f.clone() for f in f0]
        for j, rec in enumerate(log[: n - 1]):
            i = n - 1 - j
            chi_l, _, chi_r = cur[i].shape
            env.check(rec["k"] == d * chi_r, f"call {j} diagonalises the (d*Dr) x (d*Dr) Gram matrix of site {i}")
            M = cur[i].reshape(chi_l, d * chi_r)
            if rec["k"] == d * chi_r:
                env.check_eq(rec["arg"], M.mH @ M, f"call {j}: eigh receives m^dag m of the current site-{i} factor")
            kept = fs[i].shape[0]
            weight_vcs(env, rec["vals"], kept, mbd, eps, f"bond {i}")
            if not (1 <= kept <= rec["k"]):
                return
            qk = rec["q"][:, rec["k"] - kept :]
            cur[i] = qk.mH.reshape(kept, d, chi_r)
            cur[i - 1] = T.tensordot(cur[i - 1], M @ qk, dims=1)
        for i in range(n):
            if tuple(fs[i].shape) == tuple(cur[i].shape):
                env.check_eq(fs[i], cur[i], f"site {i}: factor = projection on the kept eigenvectors")

    return fn


# --------------------------------------------------------------------------
# orthogonalize / truncate bookkeeping
# --------------------------------------------------------------------------
def unit_upper(env, T, name, n):
    """M = I + N (N strictly upper, symbolic) and its exact inverse sum_k (-N)^k."""
    N = T.zeros(n, n, dtype=T.complex128)
    for i in range(n):
        for j in range(i + 1, n):
            N[i, j] = env.cplx(f"{name}_{i}_{j}")
    I = T.eye(n, dtype=T.complex128)
    Minv = I.clone()
    P = I.clone()
    for _ in range(1, n):
        P = P @ (-1.0 * N)
        Minv = Minv + P
    return I + N, Minv


def make_qr(env, log, gauge=True):
    """A reduced-QR-shaped factorisation with Q R = A (the only property that state preservation may rely on):
    m >= n: Q = A M, R = M^-1;  m < n: Q = M, R = M^-1 A, with M symbolic unit upper triangular.
    Q is returned column-major like LAPACK's (the code takes views of q.mT)."""
    T = env.torch

    def qr(a, mode="reduced"):
        m, n = a.shape
        j = len(log)
        if not gauge:  # M = identity: shapes and Q R = A only (bookkeeping cases)
            I = T.eye(min(m, n), dtype=T.complex128)
            Q, R = (a.clone(), I) if m >= n else (I, a.clone())
        elif m >= n:
            M, Minv = unit_upper(env, T, f"g{j}", n)
            Q, R = a @ M, Minv
        else:
            M, Minv = unit_upper(env, T, f"g{j}", m)
            Q, R = M, Minv @ a
        log.append({"shape": (m, n), "arg": a.clone()})
        return Q.mT.contiguous().mT, R

    return qr


def orthogonalize_case(n, d, chis):
    def fn(env):
        T = env.torch
        MPS = env.mod("emu_mps.mps").MPS
        fs = sym_mps(env, "a", n, d, chis)
        f0 = [f.clone() for f in fs]
        c = env.choice("old_centre", [None] + list(range(n)))
        j = env.choice("new_centre", list(range(n)))
        a = MPS(fs, orthogonality_center=c, num_gpus_to_use=0, eigenstates=EIG[d])
        objs = list(a.factors)
        before = refs.contract_mps(T, f0)
        log = []
        with patched(env, qr=make_qr(env, log)):
            ret = a.orthogonalize(j)
        env.check(ret == j and a.orthogonality_center == j, "orthogonalize(j) returns j and declares centre j")
        lo, hi = (min(c, j), max(c, j)) if c is not None else (0, n - 1)
        expected_calls = (hi - lo) if c is not None else (n - 1)
        if env.mutant("one_sweep_only") and c is None:
            expected_calls = j
        env.check(len(log) == expected_calls, "one QR per site strictly between the old and the new centre (all sites if none was declared)")
        for k in range(n):
            if k < lo or k > hi:
                env.check(a.factors[k] is objs[k], f"site {k} outside [old centre, new centre] is not touched")
                env.check_eq(a.factors[k], f0[k], f"site {k} outside the sweep keeps its entries")
        # which matrices were factorised: left-to-right sweep takes (Dl*d) x Dr, right-to-left (d*Dr) x Dl
        well_formed(env, a.factors, n, d, "orthogonalize")
        env.check(
            all(a.factors[k].shape[-1] <= f0[k].shape[-1] for k in range(n)), "re-centring never increases a bond dimension"
        )
        env.check_eq(refs.contract_mps(T, a.factors), before, f"orthogonalize leaves the represented state unchanged given Q R = A (n={n}, d={d})")
        env.check_raises(lambda: a.orthogonalize(n), (AssertionError,), "orthogonalize(n) is rejected")
        env.check_raises(lambda: a.orthogonalize(-1), (AssertionError,), "orthogonalize(-1) is rejected")

    return fn


def truncate_case(n, d, chis, nonneg):
    def fn(env):
        T = env.torch
        MPS = env.mod("emu_mps.mps").MPS
        fs = sym_mps(env, "a", n, d, chis)
        c = env.choice("old_centre", [None] + list(range(n)))
        mbd = env.choice("max_bond_dim", [1, 2, 64])
        eps = epsilon(env)
        a = MPS(fs, orthogonality_center=c, precision=eps, max_bond_dim=mbd, num_gpus_to_use=0, eigenstates=EIG[d])
        qlog, elog = [], []
        with patched(env, qr=make_qr(env, qlog), eigh=make_eigh(env, elog, nonneg, False)):
            ret = a.truncate()
        env.check(ret is None, "truncate works in place")
        env.check(a.orthogonality_center == (1 if env.mutant("centre_one") else 0), "truncate() declares centre 0")
        env.check(len(qlog) == ((n - 1 - c) if c is not None else (n - 1)), "truncate first sweeps the centre to the last site")
        env.check(len(elog) == n - 1, "truncate visits every inner bond exactly once")
        well_formed(env, a.factors, n, d, "truncate")
        env.check(all(1 <= a.factors[i].shape[0] <= mbd for i in range(1, n)), "every bond is between 1 and max_bond_dim after truncate()")
        env.check(a.get_max_bond_dim() <= mbd, "get_max_bond_dim() <= max_bond_dim after truncate()")
        for j_, rec in enumerate(elog[: n - 1]):
            i = n - 1 - j_
            weight_vcs(env, rec["vals"], a.factors[i].shape[0], mbd, eps, f"bond {i}", lazy_check=False)
        env.check(a.precision is eps and a.max_bond_dim == mbd, "truncate keeps precision and max_bond_dim")

    return fn


OPS = ("orthogonalize", "truncate", "scale", "apply", "add")


def sequence_case(n, d, chis, length, small=False, track=True):
    """arbitrary sequences (bounded length) of re-centring / truncating / scaling / applying / adding:
    declared centre, bond cap and (for the non-truncating steps) the represented state are tracked."""

    def fn(env):
        T = env.torch
        MPS = env.mod("emu_mps.mps").MPS
        fs = sym_mps(env, "a", n, d, chis)
        mbd = env.choice("max_bond_dim", [2] if small else [1, 2])
        eps = epsilon(env)
        c = env.choice("centre", [None, n - 1] if small else [None, 0, n - 1])
        a = MPS(fs, orthogonality_center=c, precision=eps, max_bond_dim=mbd, num_gpus_to_use=0, eigenstates=EIG[d])
        qlog, elog = [], []
        dense = refs.contract_mps(T, a.factors) if track else None
        with patched(env, qr=make_qr(env, qlog, gauge=track), eigh=make_eigh(env, elog, True, False)):
            for step in range(length):
                op = env.choice(f"op{step}", list(OPS))
                e0 = len(elog)
                if op == "orthogonalize":
                    j = env.choice(f"site{step}", list(range(n)))
                    a.orthogonalize(j)
                    c = j
                elif op == "truncate":
                    a.truncate()
                    c = 0
                elif op == "scale":
                    s = env.cplx(f"s{step}")
                    before = [f.clone() for f in a.factors]
                    a = s * a
                    dense = s * dense if track else None
                    if c is not None:
                        # canonical form survives scaling only if the scalar goes into the declared centre:
                        # every other factor (the isometries) must come out unchanged
                        for j_ in range(n):
                            if j_ != c or env.mutant("scale_hits_centre_neighbour"):
                                env.check_eq(a.factors[j_], before[j_], f"step {step}: scaling leaves the factor of site {j_} (not the declared centre {c}) unchanged")
                elif op == "apply":
                    j = env.choice(f"site{step}", list(range(n)))
                    O = env.tensor_cplx(f"O{step}", (d, d))
                    a.apply(j, O)
                    dense = refs.embed(T, O, j, n, d) @ dense if track else None
                    c = j
                else:
                    b = MPS(sym_mps(env, f"b{step}_", n, d, [1] * (n - 1)), precision=eps, max_bond_dim=mbd, num_gpus_to_use=0, eigenstates=EIG[d])
                    a = a + b
                    c = 0
                truncating = op in ("truncate", "add")
                well_formed(env, a.factors, n, d, f"step {step}")
                want = c if not (env.mutant("stale_centre") and op == "apply") else None
                env.check(a.orthogonality_center == want, f"step {step}: declared orthogonality centre")
                if truncating:
                    env.check(len(elog) - e0 == n - 1, f"step {step}: every bond truncated once")
                    env.check(a.get_max_bond_dim() <= mbd, f"step {step}: no bond exceeds max_bond_dim after a truncating operation")
                    for j_, rec in enumerate(elog[e0:]):
                        weight_vcs(env, rec["vals"], a.factors[n - 1 - j_].shape[0], mbd, eps, f"step {step} bond {n - 1 - j_}", lazy_check=False)
                    dense = refs.contract_mps(T, a.factors) if track else None
                else:
                    env.check(len(elog) == e0, f"step {step}: no truncation in a non-truncating operation")
                    if track:
                        env.check_eq(refs.contract_mps(T, a.factors), dense, f"step {step}: represented state follows the operation (given Q R = A)")
                env.check(a.max_bond_dim == mbd and a.precision is eps, f"step {step}: precision and max_bond_dim are inherited")

    return fn


# --------------------------------------------------------------------------
COV_U = [
    ("emu_mps/utils.py", "_determine_cutoff_index"),
    ("emu_mps/utils.py", "split_matrix"),
]
COV_T = COV_U + [("emu_mps/utils.py", "truncate_impl")]
COV_M = COV_T + [
    ("emu_mps/mps.py", "MPS.orthogonalize"),
    ("emu_mps/mps.py", "MPS.truncate"),
    ("emu_mps/mps.py", "MPS.get_max_bond_dim"),
    ("emu_mps/mps.py", "MPS.__init__"),
]
COV_S = COV_M + [
    ("emu_mps/mps.py", "MPS.apply"),
    ("emu_mps/mps.py", "MPS.__add__"),
    ("emu_mps/mps.py", "MPS.__rmul__"),
    ("emu_mps/algebra.py", "add_factors"),
    ("emu_mps/algebra.py", "scale_factors"),
]

META = {
    "explanation": (
        "_determine_cutoff_index, split_matrix, truncate_impl, MPS.orthogonalize, MPS.truncate (and MPS.apply / __add__ / "
        "__rmul__ in bounded operation sequences) are executed with torch.linalg.eigh replaced, in the namespace of the module "
        "under test, by a stub returning harness-provided spectra (k symbolic ascending reals, one variant non-negative, one "
        "with unconstrained sign) and symbolic eigenvector matrices, and torch.linalg.qr by a symbolic factorisation with "
        "Q R = A. The cutoff loop forks on `acc > eps^2` with symbolic eigenvalues and symbolic eps > 0. z3 decides per path: "
        "1 <= kept <= min(k, max_rank); if the cap does not bind the discarded weight is <= eps^2 and discarding one more "
        "eigenvalue would exceed it; the kept columns are the index range of the largest eigenvalues in both "
        "orth_center_right branches; the preserve_norm factor; every bond visited once and <= max_bond_dim after "
        "truncate_impl / truncate / __add__; declared orthogonality centres; which sites a re-centring touches; and that "
        "re-centring preserves the represented state for every factorisation with Q R = A."
    ),
    "outside": [
        "that torch.linalg.qr returns an isometry and torch.linalg.eigh an eigen-decomposition: the orthonormality half of the "
        "property (tensors left/right of the centre are left/right-orthonormal, norm = norm of the centre tensor) is not decided",
        "that the eigenvalues handed back by eigh are the squared singular values of the bond (so that 'discarded weight' is the "
        "truncation error of the state): the contract is checked against the spectrum eigh returns",
        "spectra longer than 6, more than 4 sites, bonds > 3, operation sequences longer than 3; the property quantifies over "
        "2-10 sites, bonds up to 32 and arbitrary sequences",
        "floating-point rounding (comparisons `acc > eps^2` are read over exact reals)",
    ],
    "assumptions": [
        "eigh returns its eigenvalues in ascending order (torch's documented contract)",
        "reduced QR: Q is (m, min(m,n)), R is (min(m,n), n), Q R = A, Q column-major as returned by LAPACK",
        "preserve_norm cases: eigenvalues non-negative and the largest one positive",
    ],
}


class _PartEnv:
    """env seen by one part of a grouped case: mutant names are prefixed by the part name."""

    def __init__(self, env, prefix):
        self._env = env
        self._prefix = prefix

    def __getattr__(self, k):
        return getattr(self._env, k)

    def mutant(self, name):
        return self._env.mutant(f"{self._prefix}:{name}")


def group(name, items):
    """One Case whose paths are the union of the paths of its parts (the part is a forked choice)."""
    if len(items) == 1:
        it = items[0]
        return Case(name=it["name"], fn=it["fn"], covers=it["covers"], bounds=it["bounds"], canaries=it["canaries"], weight=it["weight"], **it["kw"])
    names = [it["name"] for it in items]

    def fn(env):
        k = env.choice("part", list(range(len(items))))
        items[k]["fn"](_PartEnv(env, names[k]))

    covers = []
    for it in items:
        for c in it["covers"]:
            if c not in covers:
                covers.append(c)
    return Case(
        name=name,
        fn=fn,
        covers=covers,
        bounds={it["name"]: it["bounds"] for it in items},
        canaries=[f"{it['name']}:{m}" for it in items for m in it["canaries"]],
        weight=sum(it["weight"] for it in items),
        conc_samples=min(3 * len(items), 12),
        timeout_ms=max(it["kw"].get("timeout_ms", 20000) for it in items),
        deadline_s=sum(it["kw"].get("deadline_s", 300.0) for it in items),
    )


def cases(tier):
    quick = tier == "quick"
    items = []

    def add(grp, name, fn, covers, bounds, canaries, weight=1.0, **kw):
        items.append(dict(group=grp, name=name, fn=fn, covers=covers, bounds=bounds, canaries=canaries, weight=weight, kw=kw))

    for k in ([1, 4] if quick else [1, 2, 4, 6]):
        for nonneg in (True, False):
            add(
                "cutoff",
                f"cutoff_k{k}_{'nonneg' if nonneg else 'anysign'}",
                cutoff_case(k, nonneg),
                COV_U[:1],
                {"eigenvalues": k, "sign": "d_i >= 0" if nonneg else "unconstrained", "eps": "symbolic in (0, 2]"},
                ["one_more"] if k > 1 else [],
                weight=k,
            )
    grid = [(2, 3, True, True), (3, 2, False, True)] if quick else [(2, 3, True, True), (3, 2, False, True), (4, 4, True, False), (3, 4, False, True), (4, 2, True, True), (1, 3, True, True)]
    for r, c, nonneg, sym_q in grid:
        add(
            "split",
            f"split_{r}x{c}_{'nonneg' if nonneg else 'anysign'}_{'symq' if sym_q else 'eye'}",
            split_case(r, c, nonneg, sym_q),
            COV_U,
            {
                "matrix": [r, c],
                "sign": "d_i >= 0" if nonneg else "unconstrained",
                "eigenvectors": "symbolic complex" if sym_q else "identity",
                "max_rank": f"1..{max(r, c) + 1} (forked)",
                "orth_center_right": "both (forked)",
                "preserve_norm": "both (forked)" if nonneg else False,
            },
            ["smallest", "one_more"] + (["shrinks"] if nonneg else []),
            weight=10 * max(r, c),
            timeout_ms=60000,
        )
    for r, nonneg in ([(3, True)] if quick else [(2, False), (3, True), (4, True)]):
        add(
            "split",
            f"split_both_{r}x{r}_{'nonneg' if nonneg else 'anysign'}",
            split_both_case(r, nonneg),
            COV_U,
            {"matrix": [r, r], "sign": "d_i >= 0" if nonneg else "unconstrained"},
            ["differ"],
            weight=5 * r,
        )
    grid = [(2, 2, [2], True, True), (3, 2, [2, 2], False, False)] if quick else [
        (2, 2, [2], True, True),
        (2, 3, [2], False, True),
        (3, 2, [2, 2], False, False),
        (3, 2, [2, 1], True, True),
        (4, 2, [2, 2, 2], True, False),
    ]
    for n, d, chis, nonneg, sym_q in grid:
        add(
            "truncate_impl",
            f"truncate_impl_n{n}_d{d}_{'x'.join(map(str, chis))}_{'nonneg' if nonneg else 'anysign'}_{'symq' if sym_q else 'eye'}",
            truncate_impl_case(n, d, chis, nonneg, sym_q),
            COV_T,
            {"sites": n, "dim": d, "bonds": chis, "max_bond_dim": [1, 2, 3, 64], "spectra": "fresh symbolic ascending per bond"},
            ["extra_bond", "one_more"],
            weight=20 * n * d,
            deadline_s=800.0,
        )
    grid = [(3, 2, [2, 2]), (2, 2, [3])] if quick else [(3, 2, [2, 2]), (2, 2, [3]), (4, 2, [2, 2, 2]), (3, 3, [2, 3]), (3, 2, [3, 1])]
    for n, d, chis in grid:
        add(
            "orthogonalize",
            f"orthogonalize_n{n}_d{d}_{'x'.join(map(str, chis))}",
            orthogonalize_case(n, d, chis),
            COV_M[-4:],
            {"sites": n, "dim": d, "bonds": chis, "old_centre": "None or any site (forked)", "new_centre": "any site (forked)"},
            ["one_sweep_only"],
            weight=10 * n * d,
        )
    grid = [(3, 2, [2, 2], True)] if quick else [(2, 2, [2], False), (3, 2, [2, 2], True), (3, 3, [2, 1], True), (4, 2, [2, 2, 1], False)]
    for n, d, chis, nonneg in grid:
        add(
            "truncate",
            f"truncate_n{n}_d{d}_{'x'.join(map(str, chis))}_{'nonneg' if nonneg else 'anysign'}",
            truncate_case(n, d, chis, nonneg),
            COV_M,
            {"sites": n, "dim": d, "bonds": chis, "old_centre": "None or any site (forked)", "max_bond_dim": [1, 2, 64]},
            ["centre_one", "one_more"],
            weight=30 * n * d,
            deadline_s=800.0,
        )
    grid = [(2, 2, [2], 2, True)] if quick else [(2, 2, [2], 2, False), (2, 2, [2], 3, True), (3, 2, [2, 1], 2, True), (2, 3, [2], 2, False)]
    for n, d, chis, L, small in grid:
        add(
            "sequence",
            f"sequence_n{n}_d{d}_{'x'.join(map(str, chis))}_len{L}",
            sequence_case(n, d, chis, L, small, track=(n == 2)),
            COV_S,
            {
                "sites": n,
                "dim": d,
                "bonds": chis,
                "operations": list(OPS),
                "length": L,
                "max_bond_dim": [2] if small else [1, 2],
                "initial_centre": [None, n - 1] if small else [None, 0, n - 1],
                "dense_state_tracked": n == 2,
            },
            ["stale_centre", "one_more", "scale_hits_centre_neighbour"],
            weight=100 * n * d * L,
            deadline_s=1200.0,
        )
    out = []
    if quick:  # few worker processes: one per group
        order = []
        for it in items:
            if it["group"] not in order:
                order.append(it["group"])
        for g in order:
            out.append(group(g, [it for it in items if it["group"] == g]))
    else:
        out.append(group("cutoff", [it for it in items if it["group"] == "cutoff"]))
        for it in items:
            if it["group"] != "cutoff":
                out.append(group(it["name"], [it]))
    return out
