"""C29 — physically equivalent inputs give equivalent results (decidable part:
a global phase offset of the drive is a unitary equivalence that commutes with
every occupation operator; negating all phases is complex conjugation)."""

from symex.api import Case
from symex import refs
from symex.env import scalar, b_and, b_implies

PROPERTY = "C29"

COVERS_SV = [
    ("emu_sv/hamiltonian.py", "RydbergHamiltonian.__init__"),
    ("emu_sv/hamiltonian.py", "RydbergHamiltonian.__mul__"),
    ("emu_sv/hamiltonian.py", "RydbergHamiltonian._create_diagonal"),
    ("emu_sv/hamiltonian.py", "RydbergHamiltonian._apply_sigma_operators_real"),
    ("emu_sv/hamiltonian.py", "RydbergHamiltonian._apply_sigma_operators_complex"),
    ("emu_sv/hamiltonian.py", "RydbergHamiltonian.expect"),
]
COVERS_MPS = [
    ("emu_mps/hamiltonian.py", "make_H"),
    ("emu_mps/hamiltonian.py", "update_H"),
    ("emu_mps/hamiltonian.py", "RydbergHamiltonianMPOFactors"),
    ("emu_mps/hamiltonian.py", "XYHamiltonianMPOFactors"),
]


def _drive(env, n, zero_phase=False):
    T = env.torch
    omega = env.tensor_real("omega", (n,), dtype=T.complex128)
    delta = env.tensor_real("delta", (n,), dtype=T.complex128)
    if zero_phase:
        phi = T.zeros(n, dtype=T.complex128)
    else:
        phi = env.tensor_real("phi", (n,), dtype=T.complex128)
    return omega, delta, phi


def _offset(env, n):
    """symbolic global offset c as a tensor and the vector (c,...,c)."""
    T = env.torch
    c = env.tensor_real("c", (), dtype=T.complex128)
    return c, c * T.ones(n, dtype=T.complex128)


def rotation_diag(env, c, n, d=2):
    """diagonal of R_c = kron_k diag(1, e^{ic}[, 1]) (level 1 = excited state)."""
    T = env.torch
    e = T.exp(1j * c)  # cos c + i sin c
    one = T.ones((), dtype=T.complex128)
    pad = [one] * (d - 2)
    if env.mutant("rotate_ground"):
        locs = [T.stack([e, one] + pad)] * n
    elif env.mutant("only_atom0"):
        locs = [T.stack([one, e] + pad)] + [T.ones(d, dtype=T.complex128)] * (n - 1)
    else:
        locs = [T.stack([one, e] + pad)] * n
    return refs.kron_all(T, locs)


def trig_zero_lemma(env, phi, c):
    """The symbolic executor abstracts cos/sin of a *variable* x with the axiom `x = 0 => (cos, sin) = (1, 0)`
    and expands cos/sin of a sum by the addition formulas.  RydbergHamiltonian branches on `phis.any()`, so the
    same axiom is needed for the linear forms phi_k + c: instantiate it (true facts about cos/sin):
    phi_k + c = 0  =>  cos(phi_k + c) = 1, sin(phi_k + c) = 0, cos(phi_k) = cos(c), sin(phi_k) = -sin(c)."""
    T = env.torch
    cc, sc = scalar(T.cos(c)), scalar(T.sin(c))
    for k in range(phi.shape[0]):
        a = phi[k] + c
        env.assume(
            b_implies(
                scalar(a) == 0,
                b_and(
                    scalar(T.cos(a)) == 1,
                    scalar(T.sin(a)) == 0,
                    scalar(T.cos(phi[k])) == cc,
                    scalar(T.sin(phi[k])) == -sc,
                ),
            ),
            "phi_k + c = 0 => cos(phi_k + c) = 1, sin(phi_k + c) = 0, cos phi_k = cos c, sin phi_k = -sin c "
            "(instances of the trig axiom schema)",
        )


def _sv_ham(env, omega, delta, phi, U):
    H_mod = env.mod("emu_sv.hamiltonian")
    return H_mod.RydbergHamiltonian(omegas=omega, deltas=delta, phis=phi, interaction_matrix=U, device="cpu")


def _expect(env, ham, vec):
    sv_mod = env.mod("emu_sv.state_vector")
    try:
        return ham.expect(sv_mod.StateVector(vec, gpu=False))
    except AssertionError:
        return None


def sv_offset(n, zero_phase):
    """emu-sv: H(phi+c) R = R H(phi) on a symbolic vector; energy invariant."""

    def fn(env):
        T = env.torch
        omega, delta, phi = _drive(env, n, zero_phase)
        U = env.sym_matrix("U", n)
        c, cvec = _offset(env, n)
        v = env.tensor_cplx("v", (2**n,))
        r = rotation_diag(env, c, n)
        trig_zero_lemma(env, phi, c)
        h0 = _sv_ham(env, omega, delta, phi, U)
        h1 = _sv_ham(env, omega, delta, phi + cvec, U)
        lhs = h1 * (r * v)
        rhs = r * (h0 * v)
        env.check_eq(lhs, rhs, f"emu-sv: H(phi+c) R_c v = R_c H(phi) v (n={n})")
        env.check_eq(r * r.conj(), T.ones(2**n, dtype=T.complex128), "R_c is unitary (diagonal of unit modulus)")
        e0 = _expect(env, h0, v)
        e1 = _expect(env, h1, r * v)
        if e0 is not None and e1 is not None:
            env.check_eq(e1, e0, "emu-sv: <R v|H(phi+c)|R v> = <v|H(phi)|v>")

    return fn


def sv_negate(n):
    """emu-sv: H(-phi) v = conj(H(phi) conj(v)); energy invariant under v -> conj(v)."""

    def fn(env):
        T = env.torch
        omega, delta, phi = _drive(env, n)
        U = env.sym_matrix("U", n)
        v = env.tensor_cplx("v", (2**n,))
        h0 = _sv_ham(env, omega, delta, phi, U)
        pneg = phi if env.mutant("no_negation") else -phi
        h1 = _sv_ham(env, omega, delta, pneg, U)
        env.check_eq(h1 * v, (h0 * v.conj()).conj(), f"emu-sv: H(-phi) = conj(H(phi)) (n={n})")
        e0 = _expect(env, h0, v)
        e1 = _expect(env, h1, v.conj())
        if e0 is not None and e1 is not None:
            env.check_eq(e1, e0, "emu-sv: <conj v|H(-phi)|conj v> = <v|H(phi)|v>")

    return fn


def commutation(n, d):
    """R_c commutes with every n_i and n_i n_j and maps every computational basis
    state to a multiple of itself of unit modulus."""

    def fn(env):
        T = env.torch
        c, _ = _offset(env, n)
        r = rotation_diag(env, c, n, d)
        R = T.zeros(d**n, d**n, dtype=T.complex128)
        for k in range(d**n):
            R[k, k] = r[k]
        nn = refs.n_op(T, d)
        for i in range(n):
            ni = refs.embed(T, nn, i, n, d)
            if env.mutant("sx_instead"):
                ni = refs.embed(T, refs.sigma_x(T, d), i, n, d)
            env.check_eq(R @ ni @ R.mH, ni, f"R_c n_{i} R_c^dag = n_{i} (n={n}, d={d})")
            for j in range(i + 1, n):
                nij = refs.embed2(T, nn, i, nn, j, n, d)
                env.check_eq(R @ nij @ R.mH, nij, f"R_c n_{i} n_{j} R_c^dag = n_{i} n_{j} (n={n}, d={d})")
        env.check_eq(R @ R.mH, T.eye(d**n, dtype=T.complex128), "R_c R_c^dag = 1")
        # basis states are eigenvectors: R is diagonal (off-diagonal entries are exactly zero by construction)
        off = R.clone()
        for k in range(d**n):
            off[k, k] = 0.0
        env.check_eq(off, T.zeros(d**n, d**n, dtype=T.complex128), "R_c is diagonal in the computational basis")

    return fn


def mps_equiv(n, d, kind):
    """emu-mps: dense(make_H/update_H) transforms as R H R^dag under phi -> phi + c and
    as complex conjugation under phi -> -phi."""

    def fn(env):
        T = env.torch
        hm = env.mod("emu_mps.hamiltonian")
        HT = env.mod("emu_base").HamiltonianType
        U = env.sym_matrix("U", n)
        htype = HT.Rydberg if kind == "rydberg" else HT.XY
        omega, delta, phi = _drive(env, n)
        c, cvec = _offset(env, n)
        noise = T.zeros(d, d, dtype=T.complex128)
        H = hm.make_H(interaction_matrix=U, hamiltonian_type=htype, dim=d, num_gpus_to_use=0)
        hm.update_H(H, omega, delta, phi, noise)
        dense0 = refs.contract_mpo(T, H.factors)
        hm.update_H(H, omega, delta, phi + cvec, noise)
        dense1 = refs.contract_mpo(T, H.factors)
        pneg = phi if env.mutant("no_negation") else -phi
        hm.update_H(H, omega, delta, pneg, noise)
        dense2 = refs.contract_mpo(T, H.factors)
        r = rotation_diag(env, c, n, d)
        # (R H R^dag)_{ab} = r_a H_ab conj(r_b)
        conj_by_R = r.unsqueeze(1) * dense0 * r.conj().unsqueeze(0)
        env.check_eq(dense1, conj_by_R, f"emu-mps {kind}: H(phi+c) = R_c H(phi) R_c^dag (n={n}, d={d})")
        env.check_eq(dense2, dense0.conj(), f"emu-mps {kind}: H(-phi) = conj(H(phi)) (n={n}, d={d})")
        # energy of an arbitrary state
        v = env.tensor_cplx("v", (d**n,))
        e0 = T.vdot(v, dense0 @ v)
        env.check_eq(T.vdot(r * v, dense1 @ (r * v)), e0, f"emu-mps {kind}: energy invariant under the phase offset")
        env.check_eq(T.vdot(v.conj(), dense2 @ v.conj()), e0.conj(), f"emu-mps {kind}: energy invariant under phase negation")
        env.check_eq(e0.imag, 0.0, f"emu-mps {kind}: energy is real")

    return fn


def adapter_phase_equivariance(n_samples, n_int):
    """the per-step phases handed to both backends follow a global phase offset / a phase negation of the
    Pulser samples exactly (PCHIP is affine-equivariant), for phases of any sign; amplitudes and detunings
    do not move.  Without this the Hamiltonian-level equivalences below would be fed different drives."""
    from harness.c22 import FakeSamples, target_grid

    def fn(env):
        T = env.torch
        pa = env.mod("emu_base.pulser_adapter")
        ts = target_grid(env, n_samples, n_int)
        amp = [env.real(f"amp{k}", lo=0.0) for k in range(n_samples)]
        det = [env.real(f"det{k}") for k in range(n_samples)]
        pha = [env.real(f"pha{k}") for k in range(n_samples)]
        c = env.real("c")  # any sign: offsets and negation produce negative phases

        def run(phases):
            data = {"q0": {"amp": T.tensor(amp, dtype=T.float64), "det": T.tensor(det, dtype=T.float64), "phase": T.tensor(phases, dtype=T.float64)}}
            return pa._extract_omega_delta_phi(FakeSamples({"ground-rydberg": data}, float(n_samples)), ("q0",), ts)

        o0, d0, p0 = run(pha)
        o1, d1, p1 = run([x + c for x in pha])
        shift = c if not env.mutant("offset_lost") else 0.0
        env.check_eq(p1, p0 + shift, f"phases of the offset sequence = phases + c at every step ({n_samples} samples, {n_int} steps)")
        env.check_eq(o1, o0, "amplitudes do not depend on the phase offset")
        env.check_eq(d1, d0, "detunings do not depend on the phase offset")
        o2, d2, p2 = run([-x for x in pha])
        env.check_eq(p2, -1.0 * p0, "phases of the phase-negated sequence = -phases at every step")
        env.check_eq(o2, o0, "amplitudes do not depend on the phase negation")

    return fn



META = {
    "explanation": (
        "Both Hamiltonian implementations (emu-sv's matrix-free RydbergHamiltonian on a symbolic vector, emu-mps' "
        "make_H/update_H contracted to a dense matrix; Rydberg and XY) are executed with symbolic Omega, Delta, phi, U "
        "and a symbolic global phase offset c. cos/sin of phi+c expand by the angle-addition formulas, R_c has entries "
        "cos c + i sin c. z3 decides entry-wise: H(phi+c) R_c = R_c H(phi) (a unitary equivalence), R_c n_i R_c^dag = n_i "
        "and R_c n_i n_j R_c^dag = n_i n_j, R_c diagonal and unitary (hence populations and n-correlations from any "
        "computational-basis initial state coincide: U'(t) = R U(t) R^dag and R|b> = phase |b>), H(-phi) = conj(H(phi)) "
        "(anti-unitary equivalence), and the invariance of the energy expectation under both maps. The drives both backends "
        "receive follow the transformation exactly: _extract_omega_delta_phi on symbolic samples returns phases + c for samples "
        "+ c and -phases for negated samples (any sign), with amplitudes and detunings unchanged."
    ),
    "outside": [
        "rigid motions of the register and serialisation round-trips (performed by Pulser before the repository sees "
        "anything; the repository only receives the interaction matrix)",
        "that the time evolution of the unitarily equivalent Hamiltonian is the conjugated evolution (mathematics; the "
        "numerical integrators are C01/C03)",
        "N > 3 (N > 4 for emu-sv thorough); time-dependent offsets; floating-point rounding",
    ],
    "assumptions": [
        "cos/sin abstracted by (c,s) with c^2+s^2=1 and the angle-addition formulas for linear angle forms",
        "interaction matrix symmetric with zero diagonal; zero noise term in update_H",
    ],
}


def cases(tier):
    out = []
    quick = tier == "quick"
    for n in ([1, 2, 3] if quick else [1, 2, 3, 4]):
        for zp in ((False,) if quick and n != 2 else (False, True)):
            out.append(
                Case(
                    f"sv_offset_n{n}{'_phase0' if zp else ''}",
                    sv_offset(n, zp),
                    covers=COVERS_SV,
                    bounds={"n_qubits": n, "phi": "identically 0" if zp else "symbolic", "offset": "symbolic c"},
                    canaries=["rotate_ground"] + (["only_atom0"] if n >= 2 else []),
                    weight=4**n,
                )
            )
        out.append(
            Case(
                f"sv_negate_n{n}",
                sv_negate(n),
                covers=COVERS_SV,
                bounds={"n_qubits": n},
                canaries=["no_negation"],
                weight=4**n,
            )
        )
    for ns, ni in ([(3, 2)] if quick else [(3, 2), (4, 3), (2, 2)]):
        out.append(
            Case(
                f"adapter_phase_equivariance_T{ns}_K{ni}",
                adapter_phase_equivariance(ns, ni),
                covers=[("emu_base/pulser_adapter.py", "_extract_omega_delta_phi"), ("emu_base/math/pchip_torch.py", "PCHIP1D.__init__"), ("emu_base/math/pchip_torch.py", "PCHIP1D.__call__")],
                bounds={"samples": ns, "steps": ni, "phases": "symbolic, any sign", "offset": "symbolic c, any sign"},
                canaries=["offset_lost"],
                weight=3**ns * ni,
                timeout_ms=60000,
                deadline_s=1200,
            )
        )
    # the drive columns follow the REGISTER order of the atoms, whatever their ids are called (a serialisation
    # round trip renames integer ids to strings: same physics, other sort order) - shared with C22
    from harness.c22 import extract as _extract, COVERS as _COVERS_EXTRACT

    out.append(
        Case(
            "adapter_columns_follow_register_order",
            _extract(2, 2, 2),
            covers=_COVERS_EXTRACT,
            bounds={"samples": 2, "steps": 2, "atoms": 2, "ids": "register order differs from the sorted order of the ids"},
            canaries=["left_endpoint"],
            weight=20,
            timeout_ms=60000,
        )
    )
    for n, d in ([(2, 2), (3, 2), (2, 3)] if quick else [(1, 2), (2, 2), (3, 2), (2, 3), (3, 3)]):
        out.append(
            Case(
                f"commute_n{n}_d{d}",
                commutation(n, d),
                covers=[],
                bounds={"n_atoms": n, "dim": d},
                canaries=["sx_instead"],
                weight=d**n,
            )
        )
    grid = (
        [(2, 2, "rydberg"), (3, 2, "rydberg"), (2, 2, "xy"), (3, 2, "xy"), (2, 3, "rydberg")]
        if quick
        else [(n, 2, k) for n in (2, 3, 4) for k in ("rydberg", "xy")] + [(n, 3, k) for n in (2, 3) for k in ("rydberg", "xy")]
    )
    for n, d, kind in grid:
        out.append(
            Case(
                f"mps_{kind}_n{n}_d{d}",
                mps_equiv(n, d, kind),
                covers=COVERS_MPS,
                bounds={"n_atoms": n, "dim": d, "type": kind, "sparsity": "all patterns (forked)"},
                canaries=["rotate_ground", "no_negation"],
                weight=(d**n) ** 2,
                deadline_s=1500.0,
            )
        )
    return out
