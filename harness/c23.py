"""C23 — interactions follow the register, cutoff, custom matrix and SLM schedule."""

from types import SimpleNamespace

from symex.api import Case
from symex import refs
from symex.env import b_and, b_or, b_not, b_implies, scalar

PROPERTY = "C23"

COVERS = [
    ("emu_base/pulser_adapter.py", "PulserData.get_sequences"),
    ("emu_base/pulser_adapter.py", "_InteractionMatrixCallable.__call__"),
    ("emu_mps/mps_backend_impl.py", "MPSBackendImpl._get_interaction_matrix"),
    ("emu_sv/sv_backend_impl.py", "SVBackendImpl._evolve_step"),
    ("emu_sv/sv_backend_impl.py", "SVBackendImpl._apply_observables"),
    ("emu_mps/hamiltonian.py", "HamiltonianMPOFactors.__init__"),
    ("emu_sv/hamiltonian.py", "RydbergHamiltonian._create_diagonal"),
]


class FakeMatrix:
    def __init__(self, t):
        self.t = t

    def as_tensor(self):
        return self.t

    def __len__(self):
        return self.t.shape[0]


class FakeRegister:
    def __init__(self, ids):
        self.qubit_ids = tuple(ids)

    def find_indices(self, targets):
        return [self.qubit_ids.index(t) for t in targets]


def make_pulser_data(env, n, user_matrix, reg_matrix, cutoff, slm_targets, slm_end, reps=1, bad=None, n_samples=1):
    """A PulserData with every attribute the real constructor sets (Pulser objects
    replaced by duck-typed stubs carrying symbolic data)."""
    T = env.torch
    pa = env.mod("emu_base.pulser_adapter")
    ids = tuple(f"q{i}" for i in range(n))
    pd = object.__new__(pa.PulserData)
    pd._sequence = SimpleNamespace(_slm_mask_targets=set(slm_targets), register=FakeRegister(ids))
    pd.qubit_ids = ids
    pd.qubit_count = n
    pd.target_times = [0.0, 1.0, 2.0]
    pd.full_interaction_matrix = user_matrix
    pd.interaction_cutoff = cutoff
    pd.slm_end_time = slm_end
    pd.lindblad_ops = []
    pd.has_lindblad_noise = False
    pd.dim = 2
    pd.noise_model = SimpleNamespace(state_prep_error=0.0)
    pd.eigenstates = ["r", "g"]
    pd.hamiltonian_type = pa.HamiltonianType.Rydberg
    bad = bad or {q: False for q in ids}
    samples = [
        SimpleNamespace(
            trajectory=SimpleNamespace(interaction_matrix=FakeMatrix(reg_matrix), bad_atoms=dict(bad)),
            samples=object(),
            reps=reps,
        )
        for _ in range(n_samples)
    ]
    pd.hamiltonian = SimpleNamespace(noisy_samples=samples)
    return pd, pa


def with_stubbed_extract(pa, T, n, fn):
    saved = pa._extract_omega_delta_phi
    z = T.zeros(2, n, dtype=T.complex128)
    pa._extract_omega_delta_phi = lambda *a, **k: (z, z, z)
    try:
        return fn()
    finally:
        pa._extract_omega_delta_phi = saved


def cutoff_and_mask(n, user_given):
    def fn(env):
        T = env.torch
        reg = env.sym_matrix("R", n)
        usr = env.sym_matrix("M", n) if user_given else None
        reg0 = reg.clone()
        usr0 = usr.clone() if usr is not None else None
        cutoff = env.real("cutoff", lo=0.0)
        masked_sites = [i for i in range(n) if env.boolean(f"slm_{i}")]
        slm_end = env.real("slm_end", lo=0.0, hi=8.0)
        pd, pa = make_pulser_data(env, n, usr, reg, cutoff, [f"q{i}" for i in masked_sites], slm_end)
        seqs = with_stubbed_extract(pa, T, n, lambda: list(pd.get_sequences()))
        env.check(len(seqs) == 1, "one SequenceData per trajectory repetition")
        call = seqs[0].interaction_matrix
        src = usr0 if user_given else reg0
        if env.mutant("wrong_source") and user_given:
            src = reg0
        full, masked = call.full_matrix, call.masked_matrix
        env.check_eq(reg, reg0, "register matrix unchanged (clone discipline)")
        if user_given:
            env.check_eq(usr, usr0, "user matrix unchanged (clone discipline)")
        for i in range(n):
            for j in range(n):
                s = scalar(src[i, j])
                small = abs(s) < cutoff
                f = scalar(full[i, j])
                env.check(
                    b_and(b_implies(small, env.eqv(f, 0.0)), b_implies(b_not(small), env.eqv(f, s))),
                    f"full[{i},{j}]: below-cutoff entries are zero, the others unchanged",
                )
                m = scalar(masked[i, j])
                hit = (i in masked_sites) or (j in masked_sites)
                if env.mutant("mask_rows_only"):
                    hit = i in masked_sites
                want = 0.0 if hit else f
                env.check(env.eqv(m, want), f"masked[{i},{j}]: zero iff a masked atom is involved")
        env.check_eq(full, full.T, "full matrix symmetric")
        env.check_eq(masked, masked.T, "masked matrix symmetric")
        env.check_eq(full.diagonal(), T.zeros(n, dtype=T.float64), "zero diagonal")
        # time routing
        t = env.real("t", lo=0.0, hi=8.0)
        got = call(t)
        before = t < slm_end
        if env.mutant("inclusive_end"):
            before = t <= slm_end
        if bool(before):
            env.check(got is masked, "before the SLM end the masked matrix applies")
        else:
            env.check(got is full, "from the SLM end on the full matrix applies")

    return fn


def query_times(n_steps):
    """Which matrix each backend uses for step k."""

    def fn(env):
        T = env.torch
        pa = env.mod("emu_base.pulser_adapter")
        n = 2
        full = T.tensor([[0.0, 1.0], [1.0, 0.0]], dtype=T.float64)
        masked = T.zeros(2, 2, dtype=T.float64)
        slm_end = env.real("slm_end", lo=0.0, hi=10.0)
        call = pa._InteractionMatrixCallable(full, masked, slm_end)
        ts = [0.0]
        for k in range(1, n_steps + 1):
            t = env.real(f"t{k}", lo=0.0, hi=10.0)
            env.assume(t > ts[-1], "target times strictly increasing")
            ts.append(t)
        k = env.choice("step", list(range(n_steps)))

        def classify(mat):
            return "masked" if mat is masked else "full"

        def expected_ok(which):
            must_mask = ts[k + 1] <= slm_end
            must_full = ts[k] >= slm_end
            if env.mutant("always_full"):
                must_mask, must_full = False, True
            return b_and(b_implies(must_mask, which == "masked"), b_implies(must_full, which == "full"))

        # emu-sv
        svm = env.mod("emu_sv.sv_backend_impl")
        rec = {}

        class Stepper:
            @staticmethod
            def apply(dt, om, de, ph, mat, state, tol, lind):
                rec["mat"] = mat
                return state, "H"

        impl = object.__new__(svm.SVBackendImpl)
        z = T.zeros(n_steps, n, dtype=T.complex128)
        impl.stepper = Stepper
        impl.omega = impl.delta = impl.phi = z
        impl.interaction_matrix = call
        impl.target_times = ts
        impl.state = SimpleNamespace(data=T.zeros(4, dtype=T.complex128))
        impl._config = SimpleNamespace(krylov_tolerance=1e-8)
        impl.pulser_lindblads = []
        impl._current_H = None
        impl._evolve_step(ts[k + 1] - ts[k], k)
        env.check(expected_ok(classify(rec["mat"])), "emu-sv: step matrix is masked while the step ends before the SLM end, full once it starts after")
        # emu-mps
        mm = env.mod("emu_mps.mps_backend_impl")
        mi = object.__new__(mm.MPSBackendImpl)
        mi.pulser_data = SimpleNamespace(interaction_matrix=call)
        mi.current_time = ts[k]
        mi.target_time = ts[k + 1]
        mi.qubit_count = n
        mi.qubit_permutation = T.arange(n)
        mi.well_prepared_qubits_filter = None
        got = mi._get_interaction_matrix()
        env.check(expected_ok(classify(got)), "emu-mps: step matrix is masked while the step ends before the SLM end, full once it starts after")
        # timestep_complete queries the matrix of step k >= 1 while current_time == target_time == t_k
        mi.current_time = ts[k]
        mi.target_time = ts[k]
        got2 = mi._get_interaction_matrix()
        env.check(expected_ok(classify(got2)), "emu-mps (as queried by timestep_complete): masked while the step ends before the SLM end, full once it starts after")

    return fn


def diagonal_ignored(n, backend):
    """A non-zero diagonal (and, for emu-sv, the lower triangle) never reaches
    the Hamiltonian."""

    def fn(env):
        T = env.torch
        U = env.sym_matrix("U", n)
        D = U.clone()
        for i in range(n):
            D[i, i] = env.real(f"diag_{i}")
        z = T.zeros(n, dtype=T.complex128)
        om = env.tensor_real("omega", (n,), dtype=T.complex128)
        if backend == "mps":
            hm = env.mod("emu_mps.hamiltonian")
            HT = env.mod("emu_base").HamiltonianType
            H = hm.make_H(interaction_matrix=D, hamiltonian_type=HT.Rydberg, dim=2, num_gpus_to_use=0)
            hm.update_H(H, om, z, z, T.zeros(2, 2, dtype=T.complex128))
            dense = refs.contract_mpo(T, H.factors)
        else:
            hs = env.mod("emu_sv.hamiltonian")
            ham = hs.RydbergHamiltonian(omegas=om, deltas=z, phis=z, interaction_matrix=D, device="cpu")
            cols = [ham * T.eye(2**n, dtype=T.complex128)[:, k].clone() for k in range(2**n)]
            dense = T.stack(cols, dim=1)
        Uref = D if env.mutant("keep_diagonal") else U
        ref = refs.dense_single_terms(T, om, z, z, n)
        nn = refs.n_op(T)
        for i in range(n):
            for j in range(i + 1, n):
                ref = ref + Uref[i, j] * refs.embed2(T, nn, i, nn, j, n)
            if env.mutant("keep_diagonal"):
                ref = ref + Uref[i, i] * refs.embed(T, nn, i, n)
        env.check_eq(dense, ref, f"{backend}: Hamiltonian uses only the off-diagonal couplings")

    return fn


META = {
    "explanation": (
        "PulserData.get_sequences is executed on a PulserData whose Pulser collaborators are duck-typed stubs carrying a symbolic "
        "symmetric register matrix, an optional symbolic user matrix, a symbolic cutoff, a symbolic SLM target set (forked) and "
        "SLM end time; z3 decides entry-wise cutoff semantics, masking of rows and columns, source selection, clone discipline, "
        "symmetry / zero diagonal, and routing of an arbitrary query time. A second family drives the real "
        "SVBackendImpl._evolve_step and MPSBackendImpl._get_interaction_matrix over a symbolic time grid and decides which "
        "matrix each backend uses for a step relative to the SLM end. A third shows the diagonal never reaches a Hamiltonian."
    ),
    "outside": [
        "Pulser's computation of the register interaction matrix (input provider)",
        "N > 4 atoms, > 3 steps",
        "a step that straddles the SLM end may use either matrix (emu-sv samples the step start, emu-mps the midpoint)",
    ],
    "assumptions": [
        "trajectory.interaction_matrix.as_tensor() returns a symmetric (N,N) tensor with zero diagonal (the pulser 1.8 contract the code was written against)",
        "cutoff >= 0",
    ],
}


def cases(tier):
    out = []
    for n in ([2, 3] if tier == "quick" else [2, 3, 4]):
        for ug in (False, True):
            out.append(
                Case(
                    f"cutoff_mask_n{n}_{'user' if ug else 'register'}",
                    cutoff_and_mask(n, ug),
                    covers=COVERS,
                    bounds={"atoms": n, "user_matrix": ug, "slm_targets": "all subsets"},
                    canaries=["mask_rows_only", "inclusive_end"] + (["wrong_source"] if ug else []),
                    weight=4**n,
                    deadline_s=1500,
                    conc_samples=3,
                )
            )
    for k in ([2] if tier == "quick" else [1, 2, 3]):
        out.append(
            Case(f"query_times_steps{k}", query_times(k), covers=COVERS, bounds={"steps": k}, canaries=["always_full"])
        )
    for n in ([2, 3] if tier == "quick" else [2, 3, 4]):
        for b in ("mps", "sv"):
            out.append(
                Case(f"diagonal_ignored_{b}_n{n}", diagonal_ignored(n, b), covers=COVERS, bounds={"atoms": n}, canaries=["keep_diagonal"])
            )
    # several noise trajectories: every SequenceData uses the matrix of ITS OWN trajectory (shared with C34)
    from harness.c34 import reps_expansion

    for k in ([2] if tier == "quick" else [2, 3]):
        out.append(
            Case(
                f"per_trajectory_matrix_samples{k}",
                reps_expansion(k),
                covers=[("emu_base/pulser_adapter.py", "PulserData.get_sequences")],
                bounds={"noisy_samples": k, "reps": "1..3 each", "user_matrix": None, "trajectory matrices": "pairwise different"},
                canaries=["one_per_sample"],
                weight=3**k,
            )
        )
    return out
