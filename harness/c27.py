"""C27 — a loadable autosave always survives a crash during autosaving.

Engine M: the real `MPSBackendImpl.save_simulation` and the real entry of
`MPSBackend.resume` run against a symbolic POSIX file system; the crash point,
the pre-state of the side files and the clock are symbolic.
"""

import pickle as _real_pickle
import types

from symex.api import Case

PROPERTY = "C27"

COVERS = [
    ("emu_mps/mps_backend_impl.py", "MPSBackendImpl.save_simulation"),
    ("emu_mps/mps_backend.py", "MPSBackend.resume"),
]


# ---------------------------------------------------------------------------
# symbolic file system (shared with C26)
# ---------------------------------------------------------------------------
class Crash(BaseException):
    """The process dies here (BaseException: no `except Exception` in the code
    under test may swallow it)."""


ABSENT = ("absent",)
PARTIAL = ("partial",)


def complete(version):
    return ("complete", version)


class FS:
    """name -> ABSENT | PARTIAL | complete(version).  POSIX semantics: rename /
    replace are atomic and replace the target, remove of a missing file fails, a
    write that is interrupted leaves a partial file.  Every mutating operation
    (write = open+dump+close, rename, replace, remove) is numbered; `crash` is
    None, ("before", k) or ("inside", k) (k-th mutating operation, 1-based;
    "inside" is only meaningful for a write)."""

    def __init__(self, files, crash=None, nonatomic_rename=False):
        self.files = dict(files)
        self.crash = crash
        self.ops = 0
        self.log = []
        self.nonatomic_rename = nonatomic_rename

    def state(self, name):
        return self.files.get(str(name), ABSENT)

    def exists(self, name):
        return self.state(name) != ABSENT

    def begin_op(self, what):
        self.ops += 1
        self.log.append(what)
        if self.crash == ("before", self.ops):
            raise Crash(f"before op {self.ops}: {what}")

    def crash_inside(self):
        return self.crash == ("inside", self.ops)

    # operations ------------------------------------------------------------
    def rename(self, src, dst):
        src, dst = str(src), str(dst)
        self.begin_op(f"rename {src} -> {dst}")
        if not self.exists(src):
            raise FileNotFoundError(src)
        if self.nonatomic_rename:
            # canary: a rename that unlinks the target first and can die in between
            self.files.pop(dst, None)
            if self.crash_inside():
                raise Crash("inside non-atomic rename")
        self.files[dst] = self.files.pop(src)

    def remove(self, name):
        name = str(name)
        self.begin_op(f"remove {name}")
        if not self.exists(name):
            raise FileNotFoundError(name)
        del self.files[name]

    def getsize(self, name):
        if not self.exists(name):
            raise FileNotFoundError(str(name))
        return 1000

    def open(self, name, mode="r", *a, **k):
        name = str(name)
        if "w" in mode:
            self.begin_op(f"write {name}")
            self.files[name] = PARTIAL  # created / truncated
            return _WriteHandle(self, name)
        if "a" in mode:
            # append (seed C27d): a missing file is created; existing content stays in front of what is written
            self.begin_op(f"append {name}")
            if not self.exists(name):
                self.files[name] = PARTIAL
                return _WriteHandle(self, name)
            return _AppendHandle(self, name)
        if not self.exists(name):
            raise FileNotFoundError(name)
        return _ReadHandle(self, name)


class _WriteHandle:
    def __init__(self, fs, name):
        self.fs, self.name, self.payload = fs, name, None

    def __enter__(self):
        return self

    def put(self, version):
        if self.fs.crash_inside():
            raise Crash(f"inside write of {self.name}")
        self.payload = version

    def flush(self):
        pass

    def fileno(self):
        return 3

    def close(self):
        if self.payload is not None and self.fs.state(self.name) == PARTIAL:
            self.fs.files[self.name] = complete(self.payload)

    def __exit__(self, et, ev, tb):
        if et is None:
            self.close()
        return False


class _AppendHandle(_WriteHandle):
    """Appending a pickle to existing content: a partial file stays unloadable, a complete one
    still loads as its FIRST pickle (pickle.load stops there), i.e. keeps its old version."""

    def close(self):
        pass


class _ReadHandle:
    def __init__(self, fs, name):
        self.fs, self.name = fs, name

    def __enter__(self):
        return self

    def __exit__(self, *a):
        return False

    def close(self):
        pass


class FakePath:
    """The part of pathlib.Path that the code under test uses, over an FS."""

    def __init__(self, fs, name):
        self.fs, self._name = fs, name

    def with_suffix(self, suffix):
        stem = self._name.rsplit(".", 1)[0] if "." in self._name else self._name
        return FakePath(self.fs, stem + suffix)

    def is_file(self):
        return self.fs.exists(self._name)

    exists = is_file

    @property
    def name(self):
        return self._name

    def __fspath__(self):
        return self._name

    def __str__(self):
        return self._name

    __repr__ = __str__

    def __eq__(self, o):
        return str(o) == self._name

    def __hash__(self):
        return hash(self._name)

    def unlink(self, missing_ok=False):
        if missing_ok and not self.is_file():
            return
        self.fs.remove(self._name)

    def rename(self, target):
        self.fs.rename(self._name, target)
        return FakePath(self.fs, str(target))

    replace = rename


class FakeOS:
    def __init__(self, fs):
        self.fs = fs
        self.path = types.SimpleNamespace(
            getsize=fs.getsize, exists=fs.exists, isfile=fs.exists, basename=lambda p: str(p)
        )

    def rename(self, a, b):
        self.fs.rename(a, b)

    replace = rename

    def remove(self, a):
        self.fs.remove(a)

    unlink = remove

    def fsync(self, fd):
        pass

    def getcwd(self):
        return "/cwd"

    def fspath(self, p):
        return str(p)


class FakePickle:
    """dump writes the version token of the object; load returns
    `loader(version)`; a partial file does not unpickle."""

    UnpicklingError = _real_pickle.UnpicklingError
    PicklingError = _real_pickle.PicklingError
    HIGHEST_PROTOCOL = _real_pickle.HIGHEST_PROTOCOL
    DEFAULT_PROTOCOL = _real_pickle.DEFAULT_PROTOCOL

    def __init__(self, fs, version_of, loader):
        self.fs, self.version_of, self.loader = fs, version_of, loader
        self.loaded = []

    def dump(self, obj, fh, *a, **k):
        fh.put(self.version_of(obj))

    def load(self, fh, *a, **k):
        st = self.fs.state(fh.name)
        if st[0] != "complete":
            raise _real_pickle.UnpicklingError("pickle data was truncated")
        self.loaded.append(st[1])
        return self.loader(st[1])


class FakeTime:
    """monotone clock: fresh non-decreasing reals."""

    def __init__(self, env, start, prefix="clock_step", max_step=2000.0):
        self.env, self.last, self.k, self.prefix, self.max_step = env, start, 0, prefix, max_step
        self.values = []

    def time(self):
        self.k += 1
        step = self.env.real(f"{self.prefix}{self.k}", lo=0.0, hi=self.max_step)
        self.last = self.last + step
        self.values.append(self.last)
        return self.last

    def perf_counter(self):
        return self.time()


class NullLogger:
    def debug(self, *a, **k):
        pass

    info = warning = error = debug


class Patch:
    """set attributes on modules / classes and restore them afterwards."""

    _MISSING = object()

    def __init__(self):
        self.saved = []

    def set(self, obj, name, value):
        old = obj.__dict__.get(name, Patch._MISSING)
        self.saved.append((obj, name, old))
        setattr(obj, name, value)

    def restore(self):
        for obj, name, old in reversed(self.saved):
            if old is Patch._MISSING:
                try:
                    delattr(obj, name)
                except AttributeError:
                    pass
            else:
                setattr(obj, name, old)
        self.saved = []


# ---------------------------------------------------------------------------
# the harness
# ---------------------------------------------------------------------------
BASE = "emu_mps_save_1337.dat"
BAK = "emu_mps_save_1337.bak"
NEW = "emu_mps_save_1337.new"


def _stub_impl(env, fs, version, last_save, autosave_dt):
    mi = env.mod("emu_mps.mps_backend_impl")
    impl = object.__new__(mi.MPSBackendImpl)
    impl.snapshot_version = version
    impl.autosave_file = FakePath(fs, BASE)
    impl.last_save_time = last_save
    impl.config = types.SimpleNamespace(
        autosave_dt=autosave_dt, log_level=30, log_file=None, optimize_qubit_ordering=False
    )
    return impl


def _install(env, patch, fs, clock, autosave_dt):
    """stubs in the namespaces of mps_backend_impl (save) and mps_backend (resume)."""
    mi = env.mod("emu_mps.mps_backend_impl")
    mb = env.mod("emu_mps.mps_backend")
    ran = []

    def loader(version):
        return _stub_impl(env, fs, version, None, autosave_dt)

    pk = FakePickle(fs, lambda obj: obj.snapshot_version, loader)
    for m in (mi, mb):
        patch.set(m, "os", FakeOS(fs))
        patch.set(m, "open", fs.open)
        patch.set(m, "pickle", pk)
        patch.set(m, "time", clock)
    patch.set(mb, "init_logging", lambda *a, **k: NullLogger())

    def fake_run(impl):
        ran.append(impl)
        return ("RESULTS-OF", impl.snapshot_version)

    patch.set(mb.MPSBackend, "_run", staticmethod(fake_run))
    return mi, mb, pk, ran


def _side_state(env, name):
    kind = env.choice(f"pre-state of {name}", ["absent", "stale", "partial"])
    return {"absent": ABSENT, "stale": complete("v_stale"), "partial": PARTIAL}[kind]


def _crash_choice(env, first_op, n_ops, write_ops):
    opts = ["none"]
    for k in range(first_op, first_op + n_ops + 1):
        opts.append(f"before:{k}")
    for k in write_ops:
        opts.append(f"inside:{k}")
    c = env.choice("crash point", opts)
    if c == "none":
        return None
    kind, k = c.split(":")
    return (kind, int(k))


def _check_survivor(env, mb, fs, ran, pk, allowed, tag):
    """The advertised file is a complete snapshot and the real resume entry
    gets as far as _run with exactly that snapshot."""
    st = fs.state(BASE)
    versions = tuple(allowed)
    if env.mutant("expect_new_only"):
        versions = versions[-1:]
    env.check(
        st[0] == "complete" and st[1] in versions,
        f"{tag}: the advertised autosave file is a complete snapshot, the previous or the new one (not missing, not partial)",
    )
    # resume on the surviving file system (no further crash)
    fs.crash = None
    outcome = "ok"
    res = None
    try:
        res = mb.MPSBackend.resume(FakePath(fs, BASE))
    except ValueError:
        outcome = "not-a-file"
    except (_real_pickle.UnpicklingError, EOFError):
        outcome = "partial"
    except FileNotFoundError:
        outcome = "missing"
    env.check(
        outcome == "ok" and len(ran) == 1 and ran[0].snapshot_version in versions and res == ("RESULTS-OF", ran[0].snapshot_version),
        f"{tag}: resume neither raises 'Not a file' nor loads a partial file and continues from the previous or the new snapshot",
    )
    return outcome

def later_autosave(env):
    """Inductive step: any state in which the first autosave has completed."""
    side_bak = _side_state(env, ".bak")
    side_new = _side_state(env, ".new")
    files = {BASE: complete("v_old")}
    if side_bak != ABSENT:
        files[BAK] = side_bak
    if side_new != ABSENT:
        files[NEW] = side_new
    crash = _crash_choice(env, 1, 5, [1])
    fs = FS(files, crash, nonatomic_rename=env.mutant("nonatomic_rename"))
    if env.mutant("nonatomic_rename") and crash is not None and crash[0] == "before" and crash[1] >= 2:
        fs.crash = ("inside", crash[1])
    last_save = env.real("last_save_time", lo=0.0, hi=1.0e6)
    autosave_dt = env.real("autosave_dt", lo=10.0, hi=1000.0)
    env.assume(autosave_dt > 10.0, "autosave_dt > 10 s (enforced by MPSConfig)")
    clock = FakeTime(env, last_save)
    patch = Patch()
    try:
        mi, mb, pk, ran = _install(env, patch, fs, clock, autosave_dt)
        impl = _stub_impl(env, fs, "v_new", last_save, autosave_dt)
        before = dict(fs.files)
        crashed = False
        try:
            impl.save_simulation()
        except Crash:
            crashed = True
        if fs.ops == 0:
            # too early for an autosave: nothing may have been touched
            env.check(fs.files == before, "no autosave due: file system untouched")
            env.check(env.eqv(impl.last_save_time, last_save), "no autosave due: last_save_time unchanged")
            return
        now = clock.values[0]
        env.check(env.ge(now - autosave_dt, last_save), "an autosave is only written when autosave_dt has elapsed")
        if crashed:
            _check_survivor(env, mb, fs, ran, pk, ("v_old", "v_new"), "crash during a later autosave")
        else:
            env.check(fs.state(BASE) == complete("v_new"), "completed autosave: the advertised file holds the new snapshot")
            env.check(env.ge(impl.last_save_time, now), "completed autosave: last_save_time advanced to the clock")
            _check_survivor(env, mb, fs, ran, pk, ("v_new",), "after a completed autosave")
    finally:
        patch.restore()


def first_autosave(env):
    """The very first autosave: the advertised name is absent or complete, never partial."""
    files = {}
    crash = _crash_choice(env, 1, 3, [1])
    fs = FS(files, crash)
    last_save = env.real("last_save_time", lo=0.0, hi=1.0e6)
    autosave_dt = env.real("autosave_dt", lo=10.0, hi=1000.0)
    env.assume(autosave_dt > 10.0, "autosave_dt > 10 s (enforced by MPSConfig)")
    clock = FakeTime(env, last_save)
    patch = Patch()
    try:
        mi, mb, pk, ran = _install(env, patch, fs, clock, autosave_dt)
        impl = _stub_impl(env, fs, "v_new", last_save, autosave_dt)
        crashed = False
        try:
            impl.save_simulation()
        except Crash:
            crashed = True
        if fs.ops == 0:
            env.check(fs.files == {}, "no autosave due: file system untouched")
            return
        st = fs.state(BASE)
        ok = st == complete("v_new") or (crashed and st == ABSENT)
        if env.mutant("must_exist"):
            ok = st == complete("v_new")
        env.check(ok, "first autosave: the advertised file is absent (crash) or the complete new snapshot, never partial")
        if not crashed:
            _check_survivor(env, mb, fs, ran, pk, ("v_new",), "after the first autosave")
    finally:
        patch.restore()


def unrolled(env):
    """Reachability witness from the real initial state (empty directory): first
    autosave completes, the second one crashes at a symbolic point."""
    crash = _crash_choice(env, 1, 5, [1])  # relative to the start of the second autosave
    fs = FS({}, None)
    t0 = env.real("last_save_time", lo=0.0, hi=1.0e6)
    autosave_dt = env.real("autosave_dt", lo=10.0, hi=1000.0)
    env.assume(autosave_dt > 10.0, "autosave_dt > 10 s (enforced by MPSConfig)")
    clock = FakeTime(env, t0)
    patch = Patch()
    try:
        mi, mb, pk, ran = _install(env, patch, fs, clock, autosave_dt)
        impl = _stub_impl(env, fs, "v_old", t0, autosave_dt)
        impl.save_simulation()
        if fs.ops == 0:
            return  # first autosave not due yet
        env.check(fs.state(BASE) == complete("v_old"), "first autosave completed")
        if fs.state(BASE) != complete("v_old"):
            return
        impl.snapshot_version = "v_new"
        ops0 = fs.ops
        if crash is not None:
            fs.crash = (crash[0], ops0 + crash[1])
        crashed = False
        try:
            impl.save_simulation()
        except Crash:
            crashed = True
        if fs.ops == ops0:
            return
        allowed = ("v_old", "v_new") if crashed else ("v_new",)
        if env.mutant("expect_old_only"):
            allowed = ("v_old",)
        _check_survivor(env, mb, fs, ran, pk, allowed, "second autosave after a real first one")
    finally:
        patch.restore()


META = {
    "explanation": (
        "The real MPSBackendImpl.save_simulation runs on a stub impl (object.__new__) whose collaborators os / open / "
        "pickle / time are replaced, in the module namespace, by a symbolic POSIX file system (name -> absent | partial | "
        "complete(version)), a version-token pickle and a monotone symbolic clock. The explorer enumerates the crash point "
        "(before every mutating file-system operation, inside the write, after the last operation, or none) and the pre-state "
        "of the .bak/.new side files; z3 decides the clock condition (last_save_time, time.time(), autosave_dt are reals). After "
        "the crash the real MPSBackend.resume entry (is_file, open, pickle.load) is run against the surviving file system "
        "with _run stubbed. VC: the advertised name holds complete(v_old) or complete(v_new), resume raises neither 'Not a "
        "file' nor an unpickling error and continues from one of those two snapshots. The step is inductive over 'base "
        "complete, side files arbitrary'; an unrolling from the empty directory is the reachability witness."
    ),
    "outside": [
        "power loss / missing fsync (data of a renamed file not yet durable): the model is a process crash on a POSIX file system",
        "non-POSIX rename semantics (Windows os.rename fails if the target exists)",
        "concurrent processes touching the same files; disk-full and permission errors",
        "whether the pickled bytes of a torch-backed state really round-trip (see C26 outside)",
    ],
    "assumptions": [
        "rename/replace are atomic and replace the target; an interrupted write leaves a partial file; remove is atomic",
        "time.time() is monotone",
    ],
}


def cases(tier):
    return [
        Case(
            "later_autosave_crash",
            later_autosave,
            covers=COVERS,
            bounds={
                "pre_state": "base complete(v_old); .bak and .new each absent | stale complete | partial",
                "crash": "none | before op 1..6 | inside the write",
                "clock": "last_save_time, time.time() values, autosave_dt > 10 symbolic reals",
            },
            canaries=["expect_new_only", "nonatomic_rename"],
            conc_samples=4,
        ),
        Case(
            "first_autosave_crash",
            first_autosave,
            covers=COVERS,
            bounds={"pre_state": "empty directory", "crash": "none | before op 1..4 | inside the write"},
            canaries=["must_exist"],
            conc_samples=3,
        ),
        Case(
            "unrolled_two_autosaves",
            unrolled,
            covers=COVERS,
            bounds={"pre_state": "empty directory, first autosave completes", "crash": "none | before op 1..6 of the second autosave | inside its write"},
            canaries=["expect_old_only"],
            conc_samples=4,
        ),
    ]
