"""C11 — MPS/MPO operations are faithful to their dense counterparts.

Every case builds matrix-product factors with symbolic complex entries, runs the
repository's real function on them and compares the dense contraction of the
result with the same operation carried out on the dense contractions of the
operands (polynomial identities decided by z3).  Operands are cloned before
and compared entry-wise afterwards.
"""

from itertools import combinations, product

from symex.api import Case
from symex import refs
from symex.env import scalar, b_and

PROPERTY = "C11"

EIG = {2: ("r", "g"), 3: ("g", "r", "x")}
LEVEL = {"g": 0, "0": 0, "r": 1, "1": 1, "x": 2}


# --------------------------------------------------------------------------
# helpers
# --------------------------------------------------------------------------
def sym_mps(env, name, n, d, chis):
    dims = [1] + list(chis) + [1]
    return [env.tensor_cplx(f"{name}{k}", (dims[k], d, dims[k + 1])) for k in range(n)]


def sym_mpo(env, name, n, d, chis):
    dims = [1] + list(chis) + [1]
    return [env.tensor_cplx(f"{name}{k}", (dims[k], d, d, dims[k + 1])) for k in range(n)]


def clones(fs):
    return [f.clone() for f in fs]


def unchanged(env, fs, before, what):
    env.check(len(fs) == len(before), f"{what}: number of factors unchanged")
    for k, (f, b) in enumerate(zip(fs, before)):
        env.check(tuple(f.shape) == tuple(b.shape), f"{what}: shape of factor {k} unchanged")
        env.check_eq(f, b, f"{what}: entries of factor {k} unchanged")


def make_mps(env, fs, d, center=None, eig=None, **kw):
    M = env.mod("emu_mps.mps").MPS
    return M(fs, orthogonality_center=center, num_gpus_to_use=0, eigenstates=eig or EIG[d], **kw)


def abs2(T, t):
    return t.real * t.real + t.imag * t.imag


def well_formed_mps(env, fs, n, d, what):
    env.check(len(fs) == n, f"{what}: one factor per site")
    env.check(all(f.dim() == 3 and f.shape[1] == d for f in fs), f"{what}: factors are (Dl, d, Dr)")
    env.check(fs[0].shape[0] == 1 and fs[-1].shape[-1] == 1, f"{what}: outer bonds are 1")
    env.check(all(fs[i].shape[-1] == fs[i + 1].shape[0] for i in range(n - 1)), f"{what}: adjacent bonds match")


# --------------------------------------------------------------------------
# add_factors / scale_factors
# --------------------------------------------------------------------------
def add_factors_case(kind, n, d, cl, cr):
    def fn(env):
        T = env.torch
        alg = env.mod("emu_mps.algebra")
        mk = sym_mps if kind == "mps" else sym_mpo
        contract = refs.contract_mps if kind == "mps" else refs.contract_mpo
        L, R = mk(env, "a", n, d, cl), mk(env, "b", n, d, cr)
        L0, R0 = clones(L), clones(R)
        got = alg.add_factors(L, R)
        env.check(len(got) == n, "add_factors: one factor per site")
        env.check(got[0].shape[0] == 1 and got[-1].shape[-1] == 1, "add_factors: outer bonds stay 1")
        env.check(
            all(got[i].shape[-1] == cl[i] + cr[i] and got[i + 1].shape[0] == cl[i] + cr[i] for i in range(n - 1)),
            "add_factors: inner bond dimensions add",
        )
        ref = contract(T, L0) + (contract(T, R0) if not env.mutant("drop_right") else 0.0)
        env.check_eq(contract(T, got), ref, f"contract(add_factors(a,b)) = contract(a) + contract(b) ({kind}, n={n}, d={d})")
        unchanged(env, L, L0, "add_factors left operand")
        unchanged(env, R, R0, "add_factors right operand")
        env.check_raises(lambda: alg.add_factors(L, R[:-1]), (ValueError,), "add_factors rejects different lengths")

    return fn


def scale_factors_case(kind, n, d, chis):
    def fn(env):
        T = env.torch
        alg = env.mod("emu_mps.algebra")
        mk = sym_mps if kind == "mps" else sym_mpo
        contract = refs.contract_mps if kind == "mps" else refs.contract_mpo
        fs = mk(env, "a", n, d, chis)
        f0 = clones(fs)
        s = env.cplx("s")
        which = env.choice("which", list(range(n)))
        as_tensor = env.boolean("scalar_is_tensor")
        sc = T.tensor(s, dtype=T.complex128) if as_tensor else s
        got = alg.scale_factors(fs, sc, which=which)
        sref = s.conjugate() if env.mutant("conj_scalar") else s
        env.check_eq(contract(T, got), sref * contract(T, f0), f"contract(scale_factors(a,s)) = s*contract(a) ({kind}, n={n})")
        env.check(all(tuple(g.shape) == tuple(b.shape) for g, b in zip(got, f0)), "scale_factors keeps all shapes")
        unchanged(env, fs, f0, "scale_factors operand")

    return fn


# --------------------------------------------------------------------------
# MPS: inner / overlap / scaling / norm / make
# --------------------------------------------------------------------------
def inner_case(n, d, ca, cb, with_overlap=True):
    def fn(env):
        T = env.torch
        mm = env.mod("emu_mps.mps")
        A, B = sym_mps(env, "a", n, d, ca), sym_mps(env, "b", n, d, cb)
        A0, B0 = clones(A), clones(B)
        a, b = make_mps(env, A, d), make_mps(env, B, d)
        va, vb = refs.contract_mps(T, A0), refs.contract_mps(T, B0)
        ref = T.vdot(va, vb) if not env.mutant("linear_in_left") else T.dot(va, vb)
        got = a.inner(b)
        env.check_eq(got, ref, f"MPS.inner(a,b) = <a|b> (n={n}, d={d})")
        env.check_eq(mm.inner(a, b), ref, "mps.inner(a,b) = <a|b>")
        if with_overlap:  # |.|^2 squares the polynomial: only for the small instances
            env.check_eq(a.overlap(b), abs2(T, ref), "MPS.overlap(a,b) = |<a|b>|^2")
        env.check_eq(b.inner(a), ref.conj(), "<b|a> = conj <a|b>")
        unchanged(env, a.factors, A0, "inner/overlap left state")
        unchanged(env, b.factors, B0, "inner/overlap right state")
        env.check(a.orthogonality_center is None and b.orthogonality_center is None, "inner does not re-centre")

    return fn


def rmul_case(n, d, chis):
    def fn(env):
        T = env.torch
        A = sym_mps(env, "a", n, d, chis)
        A0 = clones(A)
        center = env.choice("center", [None] + list(range(n)))
        a = make_mps(env, A, d, center=center, precision=1e-3, max_bond_dim=7)
        s = env.cplx("s")
        inplace = env.boolean("imul")
        if inplace:
            res = a
            res *= s
        else:
            res = s * a
        sref = -s if env.mutant("negate") else s
        env.check_eq(refs.contract_mps(T, res.factors), sref * refs.contract_mps(T, A0), f"dense(s*psi) = s*dense(psi) (n={n}, d={d})")
        well_formed_mps(env, res.factors, n, d, "s*psi")
        env.check(res.orthogonality_center == center, "scaling keeps the declared orthogonality centre")
        env.check(res.precision == 1e-3 and res.max_bond_dim == 7, "scaling keeps precision and max_bond_dim")
        env.check(tuple(res.eigenstates) == tuple(a.eigenstates), "scaling keeps the eigenstates")
        # the scaled tensor is the declared centre (so that norm() stays the centre norm)
        w = center if center is not None else 0
        for k in range(n):
            env.check_eq(res.factors[k], (s if k == w else 1.0) * A0[k], f"only the centre factor is scaled (site {k})")
        unchanged(env, a.factors, A0, "scaling operand")
        env.check(a.orthogonality_center == center, "operand keeps its centre")

    return fn


def norm_case(n, d, chis):
    def fn(env):
        T = env.torch
        A = sym_mps(env, "a", n, d, chis)
        A0 = clones(A)
        center = env.choice("center", list(range(n)))
        a = make_mps(env, A, d, center=center)
        got = a.norm()
        other = (center + 1) % n if env.mutant("wrong_site") else center
        fro2 = abs2(T, A0[other]).sum()
        env.check_eq(got * got, fro2, f"norm()^2 = Frobenius norm^2 of the declared centre factor (n={n})")
        env.check(env.ge(scalar(got), 0.0), "norm() >= 0")
        unchanged(env, a.factors, A0, "norm operand")
        env.check(a.orthogonality_center == center, "norm keeps the centre")

    return fn


def unit_factor(env, T, f):
    """f / |f| (requires f != 0): a bond-1 factor that is an isometry."""
    nrm = T.sqrt(abs2(T, f).sum())
    env.assume(scalar(nrm) > 0.0, "factors that are normalised are non-zero")
    return f * (1.0 / nrm)


def norm_isometry_case(d):
    """N = 2, bond 1: with a left-orthonormal first factor the centre norm is
    the dense norm (the canonical-form half of the norm contract, chi = 1)."""

    def fn(env):
        T = env.torch
        A = sym_mps(env, "a", 2, d, [1])
        A[0] = unit_factor(env, T, A[0])
        A0 = clones(A)
        a = make_mps(env, A, d, center=1)
        got = a.norm()
        dense = refs.contract_mps(T, A0)
        ref2 = abs2(T, dense).sum()
        if env.mutant("double"):
            ref2 = 2.0 * ref2
        env.check_eq(got * got, ref2, "norm()^2 = dense norm^2 when the other factor is an isometry (n=2, chi=1)")

    return fn


def make_case():
    def fn(env):
        T = env.torch
        M = env.mod("emu_mps.mps").MPS
        n = env.choice("n", [2, 3, 4])
        eig = env.choice("eigenstates", [("0", "1"), ("r", "g"), ("g", "r"), ("g", "r", "x"), ("r", "g", "x")])
        d = len(eig)
        m = M.make(n, precision=1e-4, max_bond_dim=5, num_gpus_to_use=0, eigenstates=list(eig))
        well_formed_mps(env, m.factors, n, d, "make")
        dense = refs.contract_mps(T, m.factors)
        e0 = T.zeros(d**n, dtype=T.complex128)
        e0[(d**n - 1) if env.mutant("all_excited") else 0] = 1.0
        env.check_eq(dense, e0, "make() is |00..0>")
        env.check(m.orthogonality_center == 0, "make() declares centre 0")
        env.check_eq(m.norm(), 1.0, "make() has norm 1")
        env.check(m.precision == 1e-4 and m.max_bond_dim == 5 and m.num_sites == n and m.n_qudits == n, "make() keeps its parameters")
        env.check(all(m.factors[i] is not m.factors[j] for i in range(n) for j in range(i)), "make() factors are distinct tensors")
        env.check_raises(lambda: M.make(1, num_gpus_to_use=0), (ValueError,), "make(1) is rejected")
        env.check_raises(lambda: M.make(0, num_gpus_to_use=0), (ValueError,), "make(0) is rejected")
        env.check_raises(
            lambda: M.make(2, num_gpus_to_use=0, eigenstates=["a", "b", "c", "d"]), (ValueError,), "4-level basis is rejected"
        )

    return fn


# --------------------------------------------------------------------------
# MPO: expect / add / rmul ; utils: new_left_bath, tensor_trace
# --------------------------------------------------------------------------
def expect_case(n, d, chis, Ds):
    def fn(env):
        T = env.torch
        MPO = env.mod("emu_mps.mpo").MPO
        A = sym_mps(env, "a", n, d, chis)
        O = sym_mpo(env, "o", n, d, Ds)
        A0, O0 = clones(A), clones(O)
        a = make_mps(env, A, d)
        op = MPO(O, num_gpus_to_use=0)
        got = op.expect(a)
        v = refs.contract_mps(T, A0)
        H = refs.contract_mpo(T, O0)
        if env.mutant("perturbed_op"):  # one matrix element of the dense operator: the residual |v_0|^2 is small for the solver
            H[0, 0] = H[0, 0] + 1.0
        env.check_eq(got, T.vdot(v, H @ v), f"MPO.expect(psi) = <psi|O|psi> (n={n}, d={d})")
        unchanged(env, a.factors, A0, "expect state")
        unchanged(env, op.factors, O0, "expect operator")

    return fn


def mpo_add_rmul_case(n, d, Da, Db):
    def fn(env):
        T = env.torch
        MPO = env.mod("emu_mps.mpo").MPO
        A, B = sym_mpo(env, "a", n, d, Da), sym_mpo(env, "b", n, d, Db)
        A0, B0 = clones(A), clones(B)
        a, b = MPO(A, num_gpus_to_use=0), MPO(B, num_gpus_to_use=0)
        s = env.cplx("s")
        c = a + b
        da, db = refs.contract_mpo(T, A0), refs.contract_mpo(T, B0)
        env.check_eq(refs.contract_mpo(T, c.factors), da + (db if not env.mutant("drop_right") else 0.0), f"dense(A+B) = dense(A)+dense(B) (n={n}, d={d})")
        e = s * a
        env.check_eq(refs.contract_mpo(T, e.factors), (s if not env.mutant("conj_scalar") else s.conjugate()) * da, "dense(s*A) = s*dense(A)")
        f = s * (a + b) + b
        env.check_eq(refs.contract_mpo(T, f.factors), s * (da + db) + db, "dense(s*(A+B)+B) = s*(dense A + dense B) + dense B")
        env.check(c.factors[0].shape[0] == 1 and c.factors[-1].shape[-1] == 1, "A+B keeps outer bonds 1")
        unchanged(env, a.factors, A0, "MPO add/rmul left operand")
        unchanged(env, b.factors, B0, "MPO add/rmul right operand")
        env.check_raises(lambda: MPO([A0[0]]), (ValueError,), "single-site MPO is rejected")

    return fn


def left_bath_case(d, b1, b2, b3, r1, r2, r3, same_state):
    """new[r', j', r] = sum bath[i,j,k] conj(bra[i,s',r']) op[j,s',s,j'] ket[k,s,r]."""

    def fn(env):
        T = env.torch
        u = env.mod("emu_mps.utils")
        bath = env.tensor_cplx("bath", (b1, b2, b1 if same_state else b3))
        st = env.tensor_cplx("st", (b1, d, r1))
        op = env.tensor_cplx("op", (b2, d, d, r2))
        bath0, st0, op0 = bath.clone(), st.clone(), op.clone()
        got = u.new_left_bath(bath, st, op)
        K = b1 if same_state else b3
        R = r1 if same_state else r3
        # reference by explicit index sums on scalars (ket = bra state: the function has a single state argument)
        rows = []
        for rp in range(r1):
            plane = []
            for jp in range(r2):
                line = []
                for r in range(r1):
                    acc = 0.0
                    for i in range(b1):
                        for j in range(b2):
                            for k in range(b1):
                                for sp in range(d):
                                    for s_ in range(d):
                                        o = op0[j, sp, s_, jp].item() if not env.mutant("swap_phys") else op0[j, s_, sp, jp].item()
                                        acc = acc + bath0[i, j, k].item() * st0[i, sp, rp].item().conjugate() * o * st0[k, s_, r].item()
                    line.append(acc)
                plane.append(line)
            rows.append(plane)
        ref = T.tensor(rows, dtype=T.complex128)
        env.check(tuple(got.shape) == (r1, r2, r1), "new_left_bath shape (Dr_bra, Dr_op, Dr_ket)")
        env.check_eq(got, ref, f"new_left_bath = explicit index sum (d={d})")
        env.check_eq(bath, bath0, "new_left_bath leaves the bath unchanged")
        env.check_eq(st, st0, "new_left_bath leaves the state factor unchanged")
        env.check_eq(op, op0, "new_left_bath leaves the operator factor unchanged")

    return fn


def tensor_trace_case(shape):
    def fn(env):
        T = env.torch
        u = env.mod("emu_mps.utils")
        t = env.tensor_cplx("t", shape)
        t0 = t.clone()
        nd = len(shape)
        pairs = [(i, j) for i in range(nd) for j in range(nd) if i != j and shape[i] == shape[j]]
        d1, d2 = env.choice("dims", pairs)
        got = u.tensor_trace(t, d1, d2)
        rest = [k for k in range(nd) if k not in (d1, d2)]
        out_shape = [shape[k] for k in rest]
        flat = []
        for ix in product(*[range(s_) for s_ in out_shape]):
            acc = 0.0
            for m in range(shape[d1]):
                full = [0] * nd
                for k, v in zip(rest, ix):
                    full[k] = v
                full[d1] = m
                full[d2] = m if not env.mutant("off_diagonal") else (m + 1) % shape[d2]
                acc = acc + t0[tuple(full)].item()
            flat.append(acc)
        ref = T.tensor(flat, dtype=T.complex128).reshape(*out_shape) if out_shape else T.tensor(flat[0], dtype=T.complex128)
        env.check(tuple(got.shape) == tuple(out_shape), "tensor_trace removes the two traced legs")
        env.check_eq(got, ref, "tensor_trace = sum_m t[.., m, .., m, ..]")
        env.check_eq(t, t0, "tensor_trace leaves its argument unchanged")
        bad = [(i, j) for i in range(nd) for j in range(nd) if shape[i] != shape[j]]
        if bad:
            env.check_raises(lambda: u.tensor_trace(t, *bad[0]), (AssertionError,), "tensor_trace rejects legs of different size")

    return fn


# --------------------------------------------------------------------------
# MPO.from_operator_repr
# --------------------------------------------------------------------------
def op_names(eig):
    return [a + b for a in eig for b in eig]


def dense_qudit_op(T, d, qop):
    rows = [[0.0] * d for _ in range(d)]
    for name, c in qop.items():
        i, j = LEVEL[name[0]], LEVEL[name[1]]
        rows[i][j] = rows[i][j] + c
    return T.tensor(rows, dtype=T.complex128)


def nonempty_subsets(items, max_size=None):
    out = []
    for r in range(1, len(items) + 1):
        if max_size and r > max_size:
            break
        out.extend(combinations(items, r))
    return out


def operator_repr_case(eig, n, terms, mode):
    """terms: list (one entry per TensorOp) of the number of QuditOps in it.
    mode 'full': every QuditOp has all d^2 names with symbolic coefficients;
    mode 'sparse': 1-2 names per QuditOp chosen by env.choice."""
    d = len(eig)

    def fn(env):
        T = env.torch
        MPO = env.mod("emu_mps.mpo").MPO
        names = op_names(eig)
        operations = []
        ref = T.zeros(d**n, d**n, dtype=T.complex128)
        for t, n_ops in enumerate(terms):
            coef = env.cplx(f"c{t}")
            free = list(range(n))
            tensorop = []
            site = {}
            for j in range(n_ops):
                if not free:
                    break
                if mode == "full":
                    keys = names
                else:
                    k1 = env.choice(f"t{t}o{j}.name1", names)
                    keys = [k1]
                    if env.boolean(f"t{t}o{j}.two"):
                        keys.append(env.choice(f"t{t}o{j}.name2", [x for x in names if x != k1]))
                qop = {k: env.cplx(f"w{t}_{j}_{k}") for k in keys}
                tg = env.choice(f"t{t}o{j}.targets", nonempty_subsets(free))
                for q in tg:
                    free.remove(q)
                    site[q] = dense_qudit_op(T, d, qop)
                as_set = (len(tg) + j) % 2 == 1
                tensorop.append((qop, set(tg) if as_set else list(tg)))
            operations.append((coef, tensorop))
            mats = [site.get(q, refs.ident(T, d)) for q in range(n)]
            if env.mutant("reverse_sites"):
                mats = mats[::-1]
            ref = ref + coef * refs.kron_all(T, mats)
        ops_before = [(c, [(dict(q), list(tg)) for q, tg in top]) for c, top in operations]
        got = MPO.from_operator_repr(eigenstates=eig, n_qudits=n, operations=operations)
        env.check(len(got.factors) == n, "from_operator_repr: one factor per qudit")
        env.check(all(f.shape[1] == d and f.shape[2] == d for f in got.factors), "from_operator_repr: physical dimension")
        env.check_eq(refs.contract_mpo(T, got.factors), ref, f"dense(from_operator_repr) = sum_k c_k (x)_q op_kq ({''.join(eig)}, n={n})")
        env.check(got._operations is operations and got._n_qudits == n and tuple(got._eigenstates) == tuple(eig), "abstract representation is recorded")
        same = all(
            c is c0 and len(top) == len(top0) and all(dict(q) == q0 and list(tg) == tg0 for (q, tg), (q0, tg0) in zip(top, top0))
            for (c, top), (c0, top0) in zip(operations, ops_before)
        )
        env.check(same and len(operations) == len(ops_before), "from_operator_repr leaves `operations` unchanged")

    return fn


def operator_repr_tensor_case(d, n):
    """A QuditOp given directly as a (1,d,d,1) tensor (the `replace_operator_string`
    pass-through), one repeated on several targets, via _from_operator_repr."""
    eig = EIG[d]

    def fn(env):
        T = env.torch
        MPO = env.mod("emu_mps.mpo").MPO
        X = env.tensor_cplx("X", (1, d, d, 1))
        X0 = X.clone()
        c0, c1 = env.cplx("c0"), env.cplx("c1")
        names = op_names(eig)
        nm = env.choice("name", names)
        w = env.cplx("w")
        tg0 = env.choice("targets0", nonempty_subsets(list(range(n))))
        tg1 = env.choice("targets1", nonempty_subsets(list(range(n)), 1))
        operations = [(c0, [(X, list(tg0))]), (c1, [({nm: w}, list(tg1))])]
        got, ops_out = MPO._from_operator_repr(eigenstates=eig, n_qudits=n, operations=operations)
        Xm = X0.reshape(d, d)
        if env.mutant("transpose_tensor"):
            Xm = Xm.mT
        I = refs.ident(T, d)
        ref = c0 * refs.kron_all(T, [Xm if q in tg0 else I for q in range(n)]) + c1 * refs.kron_all(
            T, [dense_qudit_op(T, d, {nm: w}) if q in tg1 else I for q in range(n)]
        )
        env.check_eq(refs.contract_mpo(T, got.factors), ref, f"dense(_from_operator_repr with a tensor QuditOp) (d={d}, n={n})")
        env.check(ops_out is operations, "_from_operator_repr returns the operations it was given")
        env.check_eq(X, X0, "the user tensor is not modified")
        env.check_raises(
            lambda: MPO._from_operator_repr(eigenstates=("a", "b"), n_qudits=n, operations=operations),
            (ValueError,),
            "unsupported basis is rejected",
        )

    return fn


# --------------------------------------------------------------------------
# MPS.from_state_amplitudes : character -> basis tensor mapping
# --------------------------------------------------------------------------
def state_amplitudes_case(eig, n, n_amps):
    d = len(eig)

    def fn(env):
        T = env.torch
        mm = env.mod("emu_mps.mps")
        alg = env.mod("emu_mps.algebra")
        MPS = mm.MPS
        strings = ["".join(p) for p in product(eig, repeat=n)]
        chosen = []
        for k in range(n_amps):
            chosen.append(env.choice(f"string{k}", [s_ for s_ in strings if s_ not in chosen]))
        amps = {s_: env.cplx(f"amp{k}") for k, s_ in enumerate(chosen)}
        amps_before = dict(amps)
        p = 0.0
        for a in amps.values():
            p = p + (a * a.conjugate()).real
        env.assume(p > 0.0, "at least one amplitude is non-zero")

        def direct_sum_add(self, other):  # MPS.__add__ without the truncation sweep
            assert isinstance(other, MPS) and self.eigenstates == other.eigenstates
            return MPS(
                alg.add_factors(self.factors, other.factors),
                precision=self.precision,
                max_bond_dim=self.max_bond_dim,
                num_gpus_to_use=None,
                orthogonality_center=None,
                eigenstates=self.eigenstates,
            )

        def true_norm(self):  # what norm() returns for a canonical MPS
            return T.sqrt(self.inner(self).real)

        saved = (MPS.__add__, MPS.norm)
        MPS.__add__, MPS.norm = direct_sum_add, true_norm
        try:
            got = MPS.from_state_amplitudes(eigenstates=eig, amplitudes=amps)
        finally:
            MPS.__add__, MPS.norm = saved
        well_formed_mps(env, got.factors, n, d, "from_state_amplitudes")
        target = [0.0] * (d**n)
        for s_, a in amps.items():
            idx = 0
            for ch in s_:
                lv = LEVEL[ch]
                if env.mutant("swap_g_r") and lv < 2:
                    lv = 1 - lv
                idx = idx * d + lv
            target[idx] = a
        target = T.tensor(target, dtype=T.complex128)
        dense = refs.contract_mps(T, got.factors)
        renorm = abs(p * p - 1.0) > 1e-12
        if renorm:
            # 1/|amp| is formed as in the code (same atoms), its meaning is checked once instead of per entry
            inv = 1 / T.sqrt(T.tensor(p, dtype=T.float64))
            env.check(b_and(env.eqv(scalar(inv * inv) * p, 1.0), scalar(inv) > 0.0), "1/|amp| is the positive root of 1/sum|amp_s|^2")
            env.check_eq(dense, target * inv, f"normalised state = sum amp_s |s> / |amp| ({''.join(eig)}, n={n})")
        else:
            env.check_eq(dense, target, f"dense(from_state_amplitudes) = sum amp_s |s> ({''.join(eig)}, n={n})")
        env.check(tuple(got.eigenstates) == tuple(eig), "eigenstates recorded")
        env.check(got._amplitudes is amps and dict(amps) == amps_before, "amplitudes recorded and unchanged")

    return fn


# --------------------------------------------------------------------------
# product states (all bonds 1): the QR-based observables with an exact 1-column QR
# --------------------------------------------------------------------------
def install_column_qr(env):
    """torch.linalg.qr for an (m x 1) matrix a: R = [[r]], Q = a/r with
    r = e^{i theta} |a| for an arbitrary phase theta (every valid reduced QR of a
    non-zero column).  Only installed under symtorch; the real torch runs LAPACK."""
    T = env.torch
    if env.mode == "real":
        return
    cnt = [0]

    def qr(a, mode="reduced"):
        if a.dim() != 2 or a.shape[1] != 1:
            from symex.core import Inconclusive

            raise Inconclusive("column QR stub reached with more than one column")
        k = cnt[0]
        cnt[0] += 1
        th = T.tensor(env.real(f"qr{k}.theta", lo=-3.0, hi=3.0), dtype=T.float64)
        phase = T.cos(th) + 1j * T.sin(th)
        p = abs2(T, a).sum()
        nrm = T.sqrt(p)
        env.assume(scalar(nrm) > 0.0, "QR is applied to non-zero columns")
        u = 1.0 / nrm
        # consequence of u*nrm = 1 and nrm^2 = p, proved once and then handed to the solver as a lemma
        if env.symbolic:  # (the real torch runs LAPACK: no record there, so none in the concrete shim run either)
            lemma = env.eqv(scalar(u * u * p), 1.0)
            env.check(lemma, "lemma: (1/|a|)^2 |a|^2 = 1")
            env.assume(lemma, "lemma (proved): (1/|a|)^2 |a|^2 = 1")
        return a * (phase.conj() * u), (phase * nrm).reshape(1, 1)

    T.STUBS["linalg.qr"] = qr


def hermitian_op(env, name, dim):
    T = env.torch
    rows = [[None] * dim for _ in range(dim)]
    for i in range(dim):
        rows[i][i] = env.real(f"{name}_{i}_{i}")
        for j in range(i + 1, dim):
            z = env.cplx(f"{name}_{i}_{j}")
            rows[i][j] = z
            rows[j][i] = z.conjugate()
    return T.tensor(rows, dtype=T.complex128)


def product_state_case(n, d, what):
    def fn(env):
        T = env.torch
        A = sym_mps(env, "a", n, d, [1] * (n - 1))
        center = env.choice("center", [None] + list(range(n)))
        if center is not None:
            # a declared centre is a promise that the other factors are isometries
            for k in range(n):
                if k != center:
                    A[k] = unit_factor(env, T, A[k])
        A0 = clones(A)
        v = refs.contract_mps(T, A0)
        nrm2 = abs2(T, v).sum()
        install_column_qr(env)
        a = make_mps(env, A, d, center=center)
        if what == "expect_batch":
            ops = env.tensor_cplx("op", (2, d, d))
            ops0 = ops.clone()
            got = a.expect_batch(ops)
            rows = []
            for q in range(n):
                row = []
                for k in range(2):
                    O = refs.embed(T, ops0[k], (n - 1 - q) if env.mutant("mirror_sites") else q, n, d)
                    row.append(scalar(T.vdot(v, O @ v)))
                rows.append(row)
            env.check_eq(got, T.tensor(rows, dtype=T.complex128), f"expect_batch[q,k] = <psi|O_k(q)|psi> (product state, n={n}, d={d})")
            env.check_eq(ops, ops0, "expect_batch leaves the operators unchanged")
        elif what.startswith("correlation"):
            if what == "correlation_hermitian":
                op = hermitian_op(env, "op", d)
            elif env.boolean("custom_operator"):
                op = env.tensor_cplx("op", (d, d))
                op = 0.5 * (op + op.mT)  # complex symmetric
            else:
                op = None
            got = a.get_correlation_matrix(op) if op is not None else a.get_correlation_matrix()
            O1 = op if op is not None else refs.n_op(T, d)
            rows = []
            for i in range(n):
                row = []
                for j in range(n):
                    # diagonal: a single application <O_i> (the convention of the repository's own test-suite;
                    # the docstring's <O_i O_i> coincides for the default projector n)
                    M = refs.embed(T, O1, i, n, d) @ refs.embed(T, O1, j, n, d) if i != j else refs.embed(T, O1, i, n, d)
                    val = scalar(T.vdot(v, M @ v))
                    row.append(val.real if not env.mutant("no_real_part") else val + 1.0j)
                rows.append(row)
            env.check_eq(got, T.tensor(rows, dtype=T.complex128), f"correlation matrix = Re <psi|O_i O_j|psi> (product state, n={n}, d={d})")
        elif what == "norm":
            got = a.norm()
            env.check_eq(got * got, nrm2 if not env.mutant("double") else 2.0 * nrm2, f"norm()^2 = dense norm^2 (product state, n={n}, d={d})")
            env.check(env.ge(scalar(got), 0.0), "norm() >= 0")
        elif what == "apply":
            op = env.tensor_cplx("op", (d, d))
            q = env.choice("site", list(range(n)))
            a.apply(q, op)
            O = refs.embed(T, op if not env.mutant("transpose_op") else op.mT, q, n, d)
            env.check_eq(refs.contract_mps(T, a.factors), O @ v, f"dense(apply(q, O)) = O(q) dense(psi) (product state, n={n}, d={d})")
            env.check(a.orthogonality_center == q, "apply leaves the centre on the target qubit")
        if what != "apply":
            env.check_eq(refs.contract_mps(T, a.factors), v, f"{what} leaves the represented state unchanged")
        well_formed_mps(env, a.factors, n, d, what)

    return fn


# --------------------------------------------------------------------------
COV_ALG = [("emu_mps/algebra.py", "add_factors"), ("emu_mps/algebra.py", "scale_factors")]
COV_MPS = [
    ("emu_mps/mps.py", "MPS.__init__"),
    ("emu_mps/mps.py", "MPS.inner"),
    ("emu_mps/mps.py", "MPS.overlap"),
    ("emu_mps/mps.py", "inner"),
    ("emu_mps/utils.py", "assign_devices"),
]
COV_SCALE = [("emu_mps/mps.py", "MPS.__rmul__"), ("emu_mps/mps.py", "MPS.__imul__"), ("emu_mps/algebra.py", "scale_factors")]
COV_MPO = [
    ("emu_mps/mpo.py", "MPO.__init__"),
    ("emu_mps/mpo.py", "MPO.expect"),
    ("emu_mps/utils.py", "new_left_bath"),
]
COV_MPO_ALG = [
    ("emu_mps/mpo.py", "MPO.__add__"),
    ("emu_mps/mpo.py", "MPO.__rmul__"),
    ("emu_mps/algebra.py", "add_factors"),
    ("emu_mps/algebra.py", "scale_factors"),
]
COV_REPR = [("emu_mps/mpo.py", "MPO._from_operator_repr"), ("emu_mps/mpo.py", "MPO.__add__"), ("emu_mps/mpo.py", "MPO.__rmul__")]
COV_AMPS = [("emu_mps/mps.py", "MPS._from_state_amplitudes"), ("emu_mps/mps.py", "MPS.__rmul__"), ("emu_mps/mps.py", "MPS.__imul__")]
COV_PROD = [
    ("emu_mps/mps.py", "MPS.orthogonalize"),
    ("emu_mps/mps.py", "MPS.expect_batch"),
    ("emu_mps/mps.py", "MPS.get_correlation_matrix"),
    ("emu_mps/mps.py", "MPS.norm"),
    ("emu_mps/mps.py", "MPS.apply"),
    ("emu_mps/utils.py", "tensor_trace"),
]

META = {
    "explanation": (
        "add_factors, scale_factors, MPS.inner/overlap/module inner, MPS.__rmul__/__imul__, MPS.norm (declared centre), "
        "MPS.make, MPO.expect, MPO.__add__/__rmul__, new_left_bath, tensor_trace, MPO.from_operator_repr (three bases, "
        "operator names / targets chosen by forking, symbolic complex coefficients, QuditOps given as dictionaries or as "
        "tensors, one QuditOp on several targets) and MPS.from_state_amplitudes (basis strings chosen by forking, symbolic "
        "amplitudes) are executed on factor lists with symbolic complex entries. The dense contraction of every result is "
        "compared entry-wise, as a polynomial identity decided by z3, with the same operation on the dense contractions of "
        "the operands; operands are cloned before and compared after. For product states (all bonds 1) the QR-based "
        "operations expect_batch, get_correlation_matrix, norm (no declared centre) and apply are executed with an exact "
        "one-column QR (Q = a/r, r = e^{i theta}|a| for an arbitrary phase) and compared with dense expectation values."
    ),
    "outside": [
        "N > 3 sites, bond dimension > 2 (add/scale/inner), operator bond > 2; the property quantifies over 2-8 sites and bonds up to 16",
        "every path through torch.linalg.qr with more than one column, eigh or svdvals: MPS.__add__ (truncates), MPO.apply_to, "
        "MPO.__matmul__, zip_right, entanglement_entropy, and expect_batch / get_correlation_matrix / apply / norm() without a "
        "declared centre for bond dimension > 1",
        "MPS.norm() equals the dense norm only for a canonical MPS: checked for chi = 1; for larger bonds only "
        "'norm() = Frobenius norm of the declared centre factor' is decided",
        "get_correlation_matrix for more than 2 sites (it re-centres once per site; the nested QR atoms are beyond z3), "
        "Hermitian operators for d = 3; the diagonal is compared with <O_i> (convention of the repository's test-suite; the "
        "docstring's <O_i O_i> coincides for the default projector n)",
        "MPS._from_state_amplitudes' accumulation through the truncating MPS.__add__ (replaced by the direct sum built from the real add_factors)",
        "floating-point rounding and the truncation precision (the program is read over exact reals)",
        "nested user-defined operator symbols in _from_operator_repr: the public signature offers no way to supply them",
    ],
    "assumptions": [
        "dense reference uses the emulator's level order g/0 -> 0, r/1 -> 1, x -> 2 on every site, site 0 most significant",
        "from_state_amplitudes: MPS.__add__ is the direct sum (add_factors) without truncation and norm() returns the true norm",
        "from_state_amplitudes: at least one amplitude is non-zero",
        "product-state cases: QR of a non-zero column a returns (a/r, r) with |r| = |a|; a declared centre promises isometries elsewhere",
    ],
}


class _PartEnv:
    """env seen by one part of a grouped case: mutant names are prefixed by the part name."""

    def __init__(self, env, prefix):
        self._env = env
        self._prefix = prefix

    def __getattr__(self, k):
        return getattr(self._env, k)

    def mutant(self, name):
        return self._env.mutant(f"{self._prefix}:{name}")


def group(name, items):
    """One Case whose paths are the union of the paths of its parts (the part is a forked choice)."""
    if len(items) == 1:
        it = items[0]
        return Case(name=it["name"], fn=it["fn"], covers=it["covers"], bounds=it["bounds"], canaries=it["canaries"], weight=it["weight"], **it["kw"])
    names = [it["name"] for it in items]

    def fn(env):
        k = env.choice("part", list(range(len(items))))
        items[k]["fn"](_PartEnv(env, names[k]))

    covers = []
    for it in items:
        for c in it["covers"]:
            if c not in covers:
                covers.append(c)
    return Case(
        name=name,
        fn=fn,
        covers=covers,
        bounds={it["name"]: it["bounds"] for it in items},
        canaries=[f"{it['name']}:{m}" for it in items for m in it["canaries"]],
        weight=sum(it["weight"] for it in items),
        conc_samples=min(3 * len(items), 12),
        timeout_ms=max(it["kw"].get("timeout_ms", 20000) for it in items),
        deadline_s=sum(it["kw"].get("deadline_s", 300.0) for it in items),
    )


def cases(tier):
    quick = tier == "quick"
    items = []

    def add(grp, name, fn, covers, bounds, canaries, weight=1.0, **kw):
        items.append(dict(group=grp, name=name, fn=fn, covers=covers, bounds=bounds, canaries=canaries, weight=weight, kw=kw))

    # add_factors
    grid = [("mps", 3, 2, [2, 1], [1, 2]), ("mps", 2, 3, [1], [2]), ("mpo", 3, 2, [1, 2], [2, 1])]
    if not quick:
        grid += [
            ("mps", 2, 2, [2], [1]),
            ("mpo", 2, 2, [2], [1]),
            ("mps", 3, 2, [2, 2], [2, 2]),
            ("mps", 3, 3, [2, 2], [1, 2]),
            ("mpo", 3, 2, [2, 2], [2, 2]),
            ("mpo", 2, 3, [2], [2]),
            ("mps", 4, 2, [2, 2, 2], [1, 2, 1]),
        ]
    for kind, n, d, cl, cr in grid:
        add(
            "algebra",
            f"add_factors_{kind}_n{n}_d{d}_{'x'.join(map(str, cl))}_{'x'.join(map(str, cr))}",
            add_factors_case(kind, n, d, cl, cr),
            COV_ALG,
            {"kind": kind, "sites": n, "dim": d, "bonds_left": cl, "bonds_right": cr},
            ["drop_right"],
            weight=n * d,
        )
    # scale_factors
    grid = [("mps", 3, 3, [2, 1]), ("mpo", 3, 2, [2, 2])]
    if not quick:
        grid += [("mps", 2, 2, [2]), ("mps", 3, 2, [2, 2]), ("mpo", 2, 3, [2]), ("mps", 4, 2, [2, 2, 2])]
    for kind, n, d, ch in grid:
        add(
            "algebra",
            f"scale_factors_{kind}_n{n}_d{d}",
            scale_factors_case(kind, n, d, ch),
            COV_ALG,
            {"kind": kind, "sites": n, "dim": d, "bonds": ch, "which": "any site (forked)", "scalar": "python complex or 0-d tensor"},
            ["conj_scalar"],
        )
    # inner / overlap
    grid = [(2, 2, [2], [2]), (3, 2, [2, 1], [1, 2])]
    if not quick:
        grid += [(2, 3, [1], [2]), (3, 2, [2, 2], [2, 2]), (3, 3, [2, 1], [1, 2]), (2, 3, [2], [2])]
    for n, d, ca, cb in grid:
        add(
            "mps_inner",
            f"inner_n{n}_d{d}_{'x'.join(map(str, ca))}_{'x'.join(map(str, cb))}",
            inner_case(n, d, ca, cb, with_overlap=(n == 2 and d**n * max(ca) * max(cb) <= 16)),
            COV_MPS,
            {"sites": n, "dim": d, "bonds_a": ca, "bonds_b": cb},
            ["linear_in_left"],
            weight=(d**n) * 4,
        )
    # rmul / imul / norm
    grid = [(3, 2, [2, 1]), (2, 3, [2])]
    if not quick:
        grid += [(2, 2, [2]), (3, 2, [2, 2]), (3, 3, [2, 2])]
    for n, d, ch in grid:
        add(
            "mps_scale_norm",
            f"rmul_n{n}_d{d}_{'x'.join(map(str, ch))}",
            rmul_case(n, d, ch),
            COV_SCALE + [("emu_mps/mps.py", "MPS.__init__")],
            {"sites": n, "dim": d, "bonds": ch, "centre": "None or any site (forked)", "op": "__rmul__ and __imul__ (forked)"},
            ["negate"],
        )
        add(
            "mps_scale_norm",
            f"norm_n{n}_d{d}_{'x'.join(map(str, ch))}",
            norm_case(n, d, ch),
            [("emu_mps/mps.py", "MPS.norm")],
            {"sites": n, "dim": d, "bonds": ch, "centre": "any declared site (forked)"},
            ["wrong_site"],
        )
    for d in (2, 3):
        add("mps_scale_norm", f"norm_isometry_n2_d{d}", norm_isometry_case(d), [("emu_mps/mps.py", "MPS.norm")], {"sites": 2, "dim": d, "bond": 1}, ["double"], timeout_ms=60000)
    add("mps_scale_norm", "make", make_case(), [("emu_mps/mps.py", "MPS.make"), ("emu_mps/mps.py", "MPS.__init__")], {"sites": [2, 3, 4], "bases": "01, rg, gr, grx, rgx"}, ["all_excited"])
    # MPO expect
    grid = [(2, 2, [2], [2]), (2, 3, [1], [2]), (3, 2, [1, 2], [1, 1])]
    if not quick:
        grid += [(3, 2, [2, 2], [2, 2]), (2, 3, [2], [2]), (3, 3, [1, 1], [2, 1])]
    for n, d, ch, Ds in grid:
        add(
            "mpo_expect" if n == 2 else "mpo_expect_n3",
            f"expect_n{n}_d{d}_{'x'.join(map(str, ch))}_D{'x'.join(map(str, Ds))}",
            expect_case(n, d, ch, Ds),
            COV_MPO,
            {"sites": n, "dim": d, "mps_bonds": ch, "mpo_bonds": Ds},
            ["perturbed_op"],
            weight=(d**n) ** 2,
        )
    grid = [(3, 2, [1, 2], [1, 1])]
    if not quick:
        grid += [(2, 2, [2], [1]), (3, 2, [2, 2], [2, 1]), (2, 3, [2], [2])]
    for n, d, Da, Db in grid:
        add(
            "mpo_algebra",
            f"mpo_add_rmul_n{n}_d{d}_{'x'.join(map(str, Da))}_{'x'.join(map(str, Db))}",
            mpo_add_rmul_case(n, d, Da, Db),
            COV_MPO_ALG + [("emu_mps/mpo.py", "MPO.__init__")],
            {"sites": n, "dim": d, "bonds_a": Da, "bonds_b": Db},
            ["drop_right", "conj_scalar"],
            weight=(d**n) ** 2,
        )
    # new_left_bath, tensor_trace
    grid = [(2, 2, 2, 2, 2, 2, 2, True)]
    if not quick:
        grid += [(3, 1, 2, 1, 2, 1, 2, True), (2, 2, 1, 2, 1, 2, 1, True), (3, 2, 2, 2, 2, 2, 2, True)]
    for d, b1, b2, b3, r1, r2, r3, same in grid:
        add(
            "mpo_algebra",
            f"new_left_bath_d{d}_{b1}{b2}_{r1}{r2}",
            left_bath_case(d, b1, b2, b3, r1, r2, r3, same),
            [("emu_mps/utils.py", "new_left_bath")],
            {"dim": d, "bath": [b1, b2, b1], "state_right_bond": r1, "op_right_bond": r2},
            ["swap_phys"],
            weight=d * d * b1 * b2 * r1 * r2,
        )
    for shape in ([(2, 3, 2), (2, 2, 2)] if quick else [(3, 3), (2, 2), (2, 3, 2), (2, 2, 2), (2, 3, 3, 2)]):
        add(
            "mpo_algebra",
            f"tensor_trace_{'x'.join(map(str, shape))}",
            tensor_trace_case(shape),
            [("emu_mps/utils.py", "tensor_trace")],
            {"shape": list(shape), "legs": "any two legs of equal size (forked)"},
            ["off_diagonal"],
        )
    # operator representation
    B01, BRG, BGR, BX = ("0", "1"), ("r", "g"), ("g", "r"), ("g", "r", "x")
    if quick:
        grid = [(BRG, 2, [2, 1], "full"), (BX, 2, [1, 1], "full"), (B01, 2, [1], "sparse")]
    else:
        grid = [
            (BRG, 2, [2, 1], "full"),
            (BRG, 3, [2, 2], "full"),
            (B01, 3, [2, 1, 1], "full"),
            (BGR, 2, [2, 2], "full"),
            (BX, 3, [2, 1], "full"),
            (BX, 2, [2, 2], "full"),
            (B01, 2, [1], "sparse"),
            (BRG, 2, [2], "sparse"),
            (B01, 3, [1, 1], "sparse"),
            (BX, 2, [1], "sparse"),
            (BX, 3, [1], "sparse"),
        ]
    for eig, n, terms, mode in grid:
        add(
            f"operator_repr_{mode}",
            f"operator_repr_{''.join(eig)}_n{n}_{'x'.join(map(str, terms))}_{mode}",
            operator_repr_case(eig, n, terms, mode),
            COV_REPR,
            {
                "eigenstates": list(eig),
                "qudits": n,
                "qudit_ops_per_term": terms,
                "qudit_op": "all d^2 names, symbolic complex weights" if mode == "full" else "1-2 names chosen by forking",
                "targets": "every non-empty subset of the free qudits (forked)",
            },
            ["reverse_sites"],
            weight=(len(eig) ** n) ** 2 * len(terms) * (3 if mode == "sparse" else 1),
            deadline_s=800.0,
        )
    for d, n in ([(2, 2)] if quick else [(2, 2), (2, 3), (3, 2), (3, 3)]):
        add(
            "operator_repr_full",
            f"operator_repr_tensor_d{d}_n{n}",
            operator_repr_tensor_case(d, n),
            COV_REPR,
            {"dim": d, "qudits": n, "qudit_op": "a (1,d,d,1) tensor on any target set + a named operator"},
            ["transpose_tensor"],
        )
    # state amplitudes
    if quick:
        grid = [(BRG, 2, 2), (BX, 2, 1)]
    else:
        grid = [(BRG, 2, 2), (BRG, 3, 2), (B01, 2, 3), (BGR, 2, 2), (BX, 2, 2), (BX, 3, 1)]
    for eig, n, k in grid:
        add(
            "state_amplitudes",
            f"state_amplitudes_{''.join(eig)}_n{n}_k{k}",
            state_amplitudes_case(eig, n, k),
            COV_AMPS,
            {"eigenstates": list(eig), "qudits": n, "amplitudes": k, "strings": "any distinct basis strings (forked)"},
            ["swap_g_r"],
            weight=(len(eig) ** n) ** k,
            timeout_ms=60000,
            deadline_s=800.0,
        )
    # product states with the exact column QR
    kinds = ("expect_batch", "correlation", "correlation_hermitian", "norm", "apply")
    # (get_correlation_matrix re-centres once per site: for n = 3 the nested QR atoms exceed what z3 decides in a minute)
    grid = [(2, 2, w) for w in kinds] if quick else [(n, d, w) for w in kinds for (n, d) in ((2, 2), (3, 2), (2, 3)) if not (w.startswith("correlation") and n > 2) and not (w == "correlation_hermitian" and d > 2)]
    for n, d, w in grid:
        add(
            "product_state" if w != "correlation_hermitian" else "product_state_correlation_hermitian",
            f"product_state_{w}_n{n}_d{d}",
            product_state_case(n, d, w),
            COV_PROD,
            {
                "sites": n,
                "dim": d,
                "bonds": 1,
                "centre": "None or any site (forked)",
                "qr": "exact one-column QR with arbitrary phase",
                "operator": {"correlation": "default n or complex symmetric", "correlation_hermitian": "Hermitian"}.get(w, "arbitrary complex"),
            },
            {"expect_batch": ["mirror_sites"], "correlation": ["no_real_part"], "correlation_hermitian": [], "norm": ["double"], "apply": ["transpose_op"]}[w],
            timeout_ms=60000,
            deadline_s=800.0,
            weight=50 * n * d,
        )
    # quick: few worker processes (one per group); thorough: one case per instance, tiny ones grouped
    out = []
    if quick:
        order = []
        for it in items:
            if it["group"] not in order:
                order.append(it["group"])
        for g in order:
            out.append(group(g, [it for it in items if it["group"] == g]))
    else:
        small = {"algebra", "mps_scale_norm", "mpo_algebra"}
        for g in sorted(small):
            out.append(group(g, [it for it in items if it["group"] == g]))
        for it in items:
            if it["group"] not in small:
                out.append(group(it["name"], [it]))
    # expect_batch across a genuine (chi = 2) QR on either side of the centre: shared with C13
    from harness.c13 import mps_expect_batch_entangled

    for side in ("left", "right"):
        out.append(
            Case(
                f"mps_expect_batch_entangled_{side}",
                mps_expect_batch_entangled(side),
                covers=[("emu_mps/mps.py", "MPS.expect_batch")],
                bounds={"sites": 3, "bond_dims": [2, 1] if side == "left" else [1, 2], "centre": 1, "qr": "known factorisation Q0 R0, every valid QR answer (Q0 D, D* R0)", "amplitudes": "complex"},
                canaries=["mirror_sites"],
                weight=200,
                timeout_ms=60000,
            )
        )
    return out
