"""C06 — emu-sv operators apply exactly the Hamiltonian and Lindbladian they
represent."""

from symex.api import Case
from symex import refs

PROPERTY = "C06"


def _params(env, n, with_phase):
    T = env.torch
    omega = env.tensor_real("omega", (n,), dtype=T.complex128)
    delta = env.tensor_real("delta", (n,), dtype=T.complex128)
    if with_phase:
        phi = env.tensor_real("phi", (n,), dtype=T.complex128)
    else:
        phi = T.zeros(n, dtype=T.complex128)
    U = env.sym_matrix("U", n)
    return omega, delta, phi, U


def ham_mul(n, with_phase):
    def fn(env):
        T = env.torch
        H_mod = env.mod("emu_sv.hamiltonian")
        omega, delta, phi, U = _params(env, n, with_phase)
        v = env.tensor_cplx("v", (2**n,))
        ham = H_mod.RydbergHamiltonian(
            omegas=omega, deltas=delta, phis=phi, interaction_matrix=U, device="cpu"
        )
        got = ham * v
        Uref = 2 * U if env.mutant("double_coupling") else U
        pref = -phi if env.mutant("phase_sign") else phi
        ref = refs.dense_rydberg(T, omega, delta, pref, Uref, n)
        env.check_eq(got, ref @ v, f"H*v = H_dense v (n={n})")
        # expect
        sv_mod = env.mod("emu_sv.state_vector")
        st = sv_mod.StateVector(v, gpu=False)
        try:
            e = ham.expect(st)
        except AssertionError:
            e = None
        if e is not None:
            env.check_eq(e, T.vdot(v, ref @ v).real, "expect = Re <v|H|v>")

    return fn


COVERS_H = [
    ("emu_sv/hamiltonian.py", "RydbergHamiltonian.__init__"),
    ("emu_sv/hamiltonian.py", "RydbergHamiltonian.__mul__"),
    ("emu_sv/hamiltonian.py", "RydbergHamiltonian._create_diagonal"),
    ("emu_sv/hamiltonian.py", "RydbergHamiltonian._apply_sigma_operators_real"),
    ("emu_sv/hamiltonian.py", "RydbergHamiltonian._apply_sigma_operators_complex"),
    ("emu_sv/hamiltonian.py", "RydbergHamiltonian.expect"),
]


def cases(tier):
    out = []
    ns = [1, 2, 3] if tier == "quick" else [1, 2, 3, 4, 5]
    for n in ns:
        for ph in (False, True):
            out.append(
                Case(
                    name=f"ham_mul_n{n}_{'phase' if ph else 'nophase'}",
                    fn=ham_mul(n, ph),
                    covers=COVERS_H,
                    bounds={"n_qubits": n, "phase": ph},
                    canaries=["double_coupling"] + (["phase_sign"] if ph else []) if n >= 2 else [],
                )
            )
    return out


# ---------------------------------------------------------------------------
# Lindbladian
# ---------------------------------------------------------------------------
def hermitian(env, name, dim):
    T = env.torch
    rows = [[None] * dim for _ in range(dim)]
    for i in range(dim):
        rows[i][i] = env.real(f"{name}_{i}_{i}")
        for j in range(i + 1, dim):
            z = env.cplx(f"{name}_{i}_{j}")
            rows[i][j] = z
            rows[j][i] = z.conjugate()
    return T.tensor(rows, dtype=T.complex128)


def force_not_cpu(env, t):
    """Make `t.is_cpu` False so the batched (GPU) code path is taken."""
    T = env.torch
    if env.mode == "real":

        class NotCpu(T.Tensor):
            @property
            def is_cpu(self):
                return False

        return t.as_subclass(NotCpu)
    T.FORCE_NOT_CPU = True
    return t


def lindblad_matmul(n, n_ops, with_phase, herm, batched=False):
    def fn(env):
        T = env.torch
        L_mod = env.mod("emu_sv.lindblad_operator")
        omega, delta, phi, U = _params(env, n, with_phase)
        dim = 2**n
        rho = hermitian(env, "rho", dim) if herm else env.tensor_cplx("rho", (dim, dim))
        Ls = [env.tensor_cplx(f"L{k}", (2, 2)) for k in range(n_ops)]
        lind = L_mod.RydbergLindbladian(
            omegas=omega,
            deltas=delta,
            phis=phi,
            pulser_lindblads=Ls,
            interaction_matrix=U,
            device="cpu",
        )
        rho_in = force_not_cpu(env, rho) if batched else rho
        rho_before = rho.clone()
        got = lind @ rho_in
        env.check_eq(rho, rho_before, "operand unchanged by L@rho")
        H = refs.dense_rydberg(T, omega, delta, phi, U, n)
        Heff = H
        jump = T.zeros(dim, dim, dtype=T.complex128)
        for q in range(n):
            for L in Ls:
                Lq = refs.embed(T, L, q, n)
                LdL = Lq.mH @ Lq
                Heff = Heff - 0.5j * LdL
                w = 2.0 if env.mutant("double_jump") else 1.0
                jump = jump + w * (Lq @ rho @ Lq.mH)
        A = Heff @ rho
        if herm:
            ref = A - rho @ Heff.mH + 1.0j * jump  # i * GKSL generator
            label = "L@rho = i*GKSL(rho) for Hermitian rho"
        else:
            ref = A - A.mH + 1.0j * jump
            label = "L@rho = Heff rho - (Heff rho)^dag + i sum L rho L^dag"
        env.check_eq(got, ref, f"{label} (n={n}, ops={n_ops}, batched={batched})")
        if herm:
            # generator lemmas: trace preserving and Hermiticity preserving
            gen = -1.0j * got
            env.check_eq(gen.trace(), 0.0, "tr(GKSL(rho)) = 0")
            env.check_eq(gen, gen.mH, "GKSL(rho) is Hermitian for Hermitian rho")
            dm_mod = env.mod("emu_sv.density_matrix_state")
            st = dm_mod.DensityMatrix(rho, gpu=False)
            try:
                e = lind.expect(st)
            except AssertionError:
                e = None
            if e is not None:
                env.check_eq(e, (H @ rho).trace().real, "expect = Re tr(H rho)")

    return fn


def batched_matmul(bdim, cdim):
    def fn(env):
        T = env.torch
        mm = env.mod("emu_base.math.matmul")
        left = env.tensor_cplx("A", (2, 2))
        right = env.tensor_cplx("B", (bdim, 2, cdim))
        before = right.clone()
        got = mm.matmul_2x2_with_batched(left, right)
        lref = left.mT if env.mutant("transpose") else left
        env.check_eq(got, lref @ right, "matmul_2x2_with_batched = left @ right")
        env.check_eq(right, before, "right operand unchanged")

    return fn


def noise_term(n_ops, dim):
    def fn(env):
        T = env.torch
        j = env.mod("emu_base.jump_lindblad_operators")
        Ls = [env.tensor_cplx(f"L{k}", (dim, dim)) for k in range(n_ops)]
        got = j.compute_noise_from_lindbladians(Ls, dim)
        ref = T.zeros(dim, dim, dtype=T.complex128)
        for L in Ls:
            ref = ref + (-0.5j) * (L.mH @ L)
        if env.mutant("sign"):
            ref = -ref
        env.check_eq(got, ref, "noise = -i/2 sum L^dag L")

    return fn


COVERS_L = [
    ("emu_sv/lindblad_operator.py", "RydbergLindbladian.__init__"),
    ("emu_sv/lindblad_operator.py", "RydbergLindbladian._create_diagonal"),
    ("emu_sv/lindblad_operator.py", "RydbergLindbladian.apply_local_op_to_density_matrix"),
    ("emu_sv/lindblad_operator.py", "RydbergLindbladian.apply_density_matrix_to_local_op_T"),
    ("emu_sv/lindblad_operator.py", "RydbergLindbladian.h_eff"),
    ("emu_sv/lindblad_operator.py", "RydbergLindbladian._local_terms_hamiltonian"),
    ("emu_sv/lindblad_operator.py", "RydbergLindbladian._apply_interaction_terms"),
    ("emu_sv/lindblad_operator.py", "RydbergLindbladian.__matmul__"),
    ("emu_sv/lindblad_operator.py", "RydbergLindbladian.expect"),
    ("emu_base/jump_lindblad_operators.py", "compute_noise_from_lindbladians"),
    ("emu_base/math/matmul.py", "matmul_2x2_with_batched"),
]

META = {
    "explanation": (
        "emu-sv's matrix-free RydbergHamiltonian.__mul__ and RydbergLindbladian.__matmul__ are executed "
        "on symbolic complex vectors / matrices with symbolic Omega, Delta, phi, U and symbolic 2x2 jump "
        "operators; each output entry is compared, as a polynomial identity decided by z3, with the dense "
        "Kronecker-product Hamiltonian resp. the GKSL generator. The executor forks on phis.any() so both the "
        "phase-free and the general path are covered; the batched (GPU) matmul path is forced through is_cpu=False."
    ),
    "outside": [
        "N > 3 for the Lindbladian and N > 5 for the Hamiltonian; more than 3 jump operators",
        "floating-point rounding (the program is read over exact reals)",
    ],
    "assumptions": [
        "cos/sin are abstracted by (c,s) with c^2+s^2=1 and phi=0 => (c,s)=(1,0)",
        "float literals denote the decimal they are written as",
    ],
}

_cases_h = cases


def cases(tier):  # noqa: F811
    out = _cases_h(tier)
    quick = tier == "quick"
    lin = [(1, 0, False), (1, 2, True), (2, 1, True), (2, 2, False), (3, 1, True)] if quick else [  # n=3 in quick since seed C16d
        (1, 0, False), (1, 3, True), (2, 1, True), (2, 2, False), (2, 3, True), (3, 1, True), (3, 2, False)
    ]
    for n, k, ph in lin:
        for herm in (False, True):
            out.append(
                Case(
                    name=f"lindblad_n{n}_ops{k}_{'phase' if ph else 'nophase'}_{'herm' if herm else 'any'}",
                    fn=lindblad_matmul(n, k, ph, herm),
                    covers=COVERS_L,
                    bounds={"n_qubits": n, "jump_ops": k, "phase": ph, "rho": "Hermitian" if herm else "arbitrary complex"},
                    canaries=["double_jump"] if k > 0 and not herm else [],
                    weight=4**n * (1 + k),
                )
            )
    for n, k in ([(2, 1)] if quick else [(2, 2), (3, 1)]):
        out.append(
            Case(
                name=f"lindblad_batched_n{n}_ops{k}",
                fn=lindblad_matmul(n, k, True, False, batched=True),
                covers=COVERS_L,
                bounds={"n_qubits": n, "jump_ops": k, "path": "matmul_2x2_with_batched"},
                canaries=["double_jump"],
                weight=4**n * (1 + k),
            )
        )
    for b, c in ([(2, 2)] if quick else [(1, 1), (2, 3), (4, 2)]):
        out.append(
            Case(
                name=f"batched_matmul_{b}x2x{c}",
                fn=batched_matmul(b, c),
                covers=[("emu_base/math/matmul.py", "matmul_2x2_with_batched")],
                bounds={"right_shape": [b, 2, c]},
                canaries=["transpose"],
            )
        )
    for k, d in ([(2, 2)] if quick else [(0, 2), (3, 2), (2, 3)]):
        out.append(
            Case(
                name=f"noise_term_ops{k}_dim{d}",
                fn=noise_term(k, d),
                covers=[("emu_base/jump_lindblad_operators.py", "compute_noise_from_lindbladians")],
                bounds={"jump_ops": k, "dim": d},
                canaries=["sign"] if k else [],
            )
        )
    return out
