"""C06 — emu-sv operators apply exactly the Hamiltonian and Lindbladian they
represent."""

from symex.api import Case
from symex import refs

PROPERTY = "C06"


def _params(env, n, with_phase):
    T = env.torch
    omega = env.tensor_real("omega", (n,), dtype=T.complex128)
    delta = env.tensor_real("delta", (n,), dtype=T.complex128)
    if with_phase:
        phi = env.tensor_real("phi", (n,), dtype=T.complex128)
    else:
        phi = T.zeros(n, dtype=T.complex128)
    U = env.sym_matrix("U", n)
    return omega, delta, phi, U


def ham_mul(n, with_phase):
    def fn(env):
        T = env.torch
        H_mod = env.mod("emu_sv.hamiltonian")
        omega, delta, phi, U = _params(env, n, with_phase)
        v = env.tensor_cplx("v", (2**n,))
        ham = H_mod.RydbergHamiltonian(
            omegas=omega, deltas=delta, phis=phi, interaction_matrix=U, device="cpu"
        )
        got = ham * v
        Uref = 2 * U if env.mutant("double_coupling") else U
        pref = -phi if env.mutant("phase_sign") else phi
        ref = refs.dense_rydberg(T, omega, delta, pref, Uref, n)
        env.check_eq(got, ref @ v, f"H*v = H_dense v (n={n})")
        # expect
        sv_mod = env.mod("emu_sv.state_vector")
        st = sv_mod.StateVector(v, gpu=False)
        try:
            e = ham.expect(st)
        except AssertionError:
            e = None
        if e is not None:
            env.check_eq(e, T.vdot(v, ref @ v).real, "expect = Re <v|H|v>")

    return fn


COVERS_H = [
    ("emu_sv/hamiltonian.py", "RydbergHamiltonian.__init__"),
    ("emu_sv/hamiltonian.py", "RydbergHamiltonian.__mul__"),
    ("emu_sv/hamiltonian.py", "RydbergHamiltonian._create_diagonal"),
    ("emu_sv/hamiltonian.py", "RydbergHamiltonian._apply_sigma_operators_real"),
    ("emu_sv/hamiltonian.py", "RydbergHamiltonian._apply_sigma_operators_complex"),
    ("emu_sv/hamiltonian.py", "RydbergHamiltonian.expect"),
]


def cases(tier):
    out = []
    ns = [1, 2, 3] if tier == "quick" else [1, 2, 3, 4]
    for n in ns:
        for ph in (False, True):
            out.append(
                Case(
                    name=f"ham_mul_n{n}_{'phase' if ph else 'nophase'}",
                    fn=ham_mul(n, ph),
                    covers=COVERS_H,
                    bounds={"n_qubits": n, "phase": ph},
                    canaries=["double_coupling"] + (["phase_sign"] if ph else []) if n >= 2 else [],
                )
            )
    return out
