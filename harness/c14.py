"""C14 — observables are recorded exactly at their requested times."""

import itertools
import uuid
from types import SimpleNamespace

from symex.api import Case
from symex.env import b_and, b_or, b_not, b_implies

PROPERTY = "C14"

COVERS = [
    ("emu_sv/sv_backend_impl.py", "SVBackendImpl._run"),
    ("emu_sv/sv_backend_impl.py", "SVBackendImpl.step"),
    ("emu_sv/sv_backend_impl.py", "SVBackendImpl._apply_observables"),
    ("emu_sv/sv_backend_impl.py", "SVBackendImpl._is_evaluation_time"),
    ("emu_mps/mps_backend_impl.py", "MPSBackendImpl.fill_results"),
    ("emu_mps/mps_backend_impl.py", "MPSBackendImpl._is_evaluation_time"),
    ("emu_mps/mps_backend_impl.py", "MPSBackendImpl.sweep_complete"),
    ("emu_mps/mps_backend_impl.py", "MPSBackendImpl.timestep_complete"),
]


class FakeConfig:
    """EmulationConfig stand-in: the two matching predicates are Pulser's
    definitions (`0<=t<=1 and any(|e-t|<=tol)`) lifted to symbolic scalars."""

    # every other MPSConfig / SVConfig option, so that code reading one of them does not trip over the stub
    dt = 7.0
    max_bond_dim = 1024
    max_krylov_dim = 100
    extra_krylov_tolerance = 1e-3
    num_gpus_to_use = 0
    gpu = False
    optimize_qubit_ordering = False
    interaction_cutoff = 0.0
    log_level = 20
    log_file = None
    autosave_prefix = "verif_"
    autosave_dt = float("inf")
    solver = "tdvp"
    initial_state = None
    with_modulation = False
    n_trajectories = 1
    interaction_matrix = None
    prefer_device_noise_model = False

    def __init__(self, observables, default_times):
        self.observables = observables
        self.default_evaluation_times = default_times
        self.krylov_tolerance = 1e-8
        self.precision = 1e-5

    @staticmethod
    def is_time_in_evaluation_times(t, evaluation_times, tol=1e-6):
        inside = b_and(t >= 0.0, t <= 1.0)
        return bool(b_and(inside, b_or(*[abs(e - t) <= tol for e in evaluation_times])))

    def is_evaluation_time(self, t, tol=1e-6):
        return self.is_time_in_evaluation_times(t, self.default_evaluation_times, tol=tol)


class Recorder:
    def __init__(self, total_duration):
        self.total_duration = total_duration
        self.stored = []  # (tag, time, value)
        self.atom_order = ()

    def _store(self, *, observable, time, value):
        self.stored.append((observable.tag, time, value))


def make_observable(env, tag, times):
    """A real pulser Observable subclass instance (its __call__ gate is the
    code that runs), built without the numpy validation of __init__."""
    import pulser.backend.observable as po

    class Probe(po.Observable):
        @property
        def _base_tag(self):
            return "probe"

        def apply(self, *, config, state, hamiltonian, **kw):
            return state.stamp

    o = object.__new__(Probe)
    o._uuid = uuid.uuid4()
    o.evaluation_times = times
    o._tag_suffix = tag
    o._default_aggregation_method = None
    return o


def scenario(env, n_steps, duration):
    """symbolic grid + two observables (own times / default times)."""
    D = float(duration)
    ts = [0.0]
    for k in range(1, n_steps):
        t = env.real(f"t{k}", lo=0.0, hi=D)
        env.assume(t - ts[-1] > 5e-10 * D, "grid times more than 5e-10*duration apart (C21)")
        ts.append(t)
    env.assume(D - ts[-1] > 5e-10 * D, "grid times more than 5e-10*duration apart (C21)") if n_steps > 1 else None
    ts.append(D)
    idx = list(range(n_steps + 1))
    subsets = [s for r in (1, 2) for s in itertools.combinations(idx, r)]
    own = env.choice("own_times", subsets)
    dflt = env.choice("default_times", subsets)
    rel = [t / D for t in ts]
    own_t = [rel[k] for k in own]
    dflt_t = [rel[k] for k in dflt]
    A = make_observable(env, "A", own_t)
    B = make_observable(env, "B", None)
    cfg = FakeConfig([A, B], dflt_t)
    return ts, rel, own, dflt, cfg


def expect(env, rec, rel, own, dflt, label):
    got_A = [(t, v) for tag, t, v in rec.stored if tag == "probe_A"]
    got_B = [(t, v) for tag, t, v in rec.stored if tag == "probe_B"]
    want_A = list(own)
    if env.mutant("own_also_default"):
        want_A = sorted(set(own) | set(dflt))
    for name, got, want in (("A(own times)", got_A, want_A), ("B(default times)", got_B, list(dflt))):
        env.check(len(got) == len(want), f"{label}: {name} stored exactly once per requested time and at no other time")
        for (t, v), k in zip(got, want):
            env.check(env.eqv(t, rel[k]), f"{label}: {name} stored at its requested time, in increasing order")
            env.check(v == k, f"{label}: {name} computed from the state produced by the step ending at that time")


def sv_run(n_steps, duration):
    def fn(env):
        T = env.torch
        svm = env.mod("emu_sv.sv_backend_impl")
        ts, rel, own, dflt, cfg = scenario(env, n_steps, duration)
        rec = Recorder(int(duration))
        counter = {"k": 0}

        class Stepper:
            @staticmethod
            def apply(dt, om, de, ph, mat, state, tol, lind):
                counter["k"] += 1
                return SimpleNamespace(stamp=counter["k"]), "H"

            @staticmethod
            def get_hamiltonian(**kw):
                return "H0"

        impl = object.__new__(svm.SVBackendImpl)
        impl.stepper = Stepper
        impl._config = cfg
        impl.target_times = ts
        z = T.zeros(n_steps, 1, dtype=T.complex128)
        impl.omega = impl.delta = impl.phi = z
        impl.nsteps = n_steps
        impl.interaction_matrix = lambda t: None
        impl.pulser_lindblads = []
        impl._current_H = None
        impl.results = rec

        class St:
            def __init__(self):
                self._d = SimpleNamespace(stamp=0, device="cpu")

            @property
            def data(self):
                return self._d

            @data.setter
            def data(self, v):
                self._d = v

            @property
            def stamp(self):
                return self._d.stamp

        impl.state = St()
        impl._save_statistics = lambda idx: None
        out = impl._run()
        env.check(out is rec, "_run returns the results object")
        env.check(counter["k"] == n_steps, "one evolution per interval")
        expect(env, rec, rel, own, dflt, "emu-sv")

    return fn


def mps_run(n_steps, duration):
    def fn(env):
        T = env.torch
        mm = env.mod("emu_mps.mps_backend_impl")
        ts, rel, own, dflt, cfg = scenario(env, n_steps, duration)
        rec = Recorder(int(duration))
        impl = object.__new__(mm.MPSBackendImpl)
        impl.config = cfg
        impl.target_times = ts
        impl.timestep_count = n_steps
        impl._timestep_index = 0
        impl.current_time = 0.0
        impl.target_time = ts[1]
        impl.results = rec
        impl.well_prepared_qubits_filter = None
        impl.hamiltonian = "H"
        M = T.zeros(2, 2, dtype=T.float64)
        impl.current_interaction_matrix = M
        impl._get_interaction_matrix = lambda: M
        impl.update_H = lambda: None
        impl.init_baths = lambda: None
        impl.statistics = SimpleNamespace(data=[], __call__=None)

        class Stat:
            data = []

            def __call__(self, *a):
                return None

        impl.statistics = Stat()
        impl.time = 0.0

        class St:
            def __init__(self, stamp):
                self.stamp = stamp

            def norm(self):
                return 1.0

            def __rmul__(self, c):
                return self

        impl.state = St(0)
        impl.fill_results()  # t = 0, as MPSBackendImpl.init does
        for k in range(n_steps):
            impl.state = St(k + 1)  # the state produced by the sweep ending at ts[k+1]
            impl.sweep_complete()
        env.check(impl._timestep_index == n_steps and impl.is_finished(), "every time step completed once")
        expect(env, rec, rel, own, dflt, "emu-mps")

    return fn


META = {
    "explanation": (
        "The real stepping/recording code of both backends (SVBackendImpl._run/step/_apply_observables/_is_evaluation_time and "
        "MPSBackendImpl.fill_results/_is_evaluation_time/sweep_complete/timestep_complete) and Pulser's real Observable.__call__ gate "
        "are executed over a symbolic target-time grid (contract from C21: sorted, ends at the duration, points more than "
        "5e-10*duration apart) with two observables - one with its own evaluation times, one using the config default - whose "
        "requested times are symbolic subsets of the grid (forked). Numeric evolution is a stub that stamps the state with the "
        "step index. z3 decides, on every path, that each observable is stored exactly once per requested time, at no other time, "
        "in increasing order, and from the state of the step that ends at that time. A default time may lie arbitrarily close "
        "(e.g. 0.3 ns) to an own time of the other observable."
    ),
    "outside": [
        "more than 4 steps (quick: 3) / 2 requested times per observable; durations other than 1, 20, 40, 1000 ns",
        "the numeric evolution between two times (C01/C02)",
        "Pulser's config.is_time_in_evaluation_times is replaced by its definition on symbolic scalars",
        "DMRG's sweep_complete (convergence-driven, same fill_results)",
    ],
    "assumptions": ["in the stepping cases the target-time grid is a symbolic grid satisfying C21's contract that contains the requested times; that the real grid has this property is what the requested_times_on_grid_* cases decide"],
}


def cases(tier):
    out = []
    grid = [(1, 20), (2, 20), (3, 1000)] if tier == "quick" else [(1, 1), (1, 20), (2, 20), (2, 1), (3, 20), (3, 1000), (4, 40)]
    for k, d in grid:
        for name, mk in (("sv", sv_run), ("mps", mps_run)):
            out.append(
                Case(
                    f"{name}_steps{k}_D{d}",
                    mk(k, d),
                    covers=COVERS,
                    bounds={"steps": k, "duration_ns": d, "requested_times": "all subsets of size 1-2 of the grid, per observable"},
                    canaries=["own_also_default"],
                    weight=k * 10,
                    deadline_s=1200,
                )
            )
    # the other half of "recorded at the requested times": every requested time (an observable's own or the
    # config default, also when both kinds are mixed in one configuration) is a grid time the matching finds.
    # Decided by C21's harness on the real _get_target_times/_unique_observable_times (F-abs); shared here.
    from harness.c21 import grid_props, COVERS as COVERS_GRID

    for ne, ni, dflt in ([(1, 1, True), (2, 1, "mixed")] if tier == "quick" else [(1, 1, False), (1, 1, True), (2, 1, "mixed"), (1, 1, "mixed")]):
        out.append(
            Case(
                f"requested_times_on_grid_evals{ne}{'_mixed' if dflt == 'mixed' else '_default' if dflt else '_own'}",
                grid_props(ne, ni, dflt),
                covers=COVERS_GRID,
                bounds={"evaluation_times": ne, "times given by": "own + default mixed" if dflt == "mixed" else "config default" if dflt else "observable", "duration": "1..10000 (integer)", "dt": "0.1..10000"},
                canaries=["end_short"],
                timeout_ms=60000,
                deadline_s=1500,
                conc_samples=3,
                weight=30,
            )
        )
    return out
