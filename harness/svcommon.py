"""Shared scaffolding for the emu-sv backend harnesses (C01, C16, C25, C13)."""

from types import SimpleNamespace

from symex import refs


class Recorder:
    """Stands in for pulser's Results (only stores)."""

    def __init__(self, atom_order=(), total_duration=0):
        self.atom_order = tuple(atom_order)
        self.total_duration = total_duration
        self.stored = []

    def _store(self, *, observable, time, value):
        self.stored.append((observable.tag, time, value))


def make_data(env, n, steps, *, lindblad_ops=(), bad_atoms=None, prep_error=0.0, slm=False, last_time=None, phase=True):
    """A SequenceData (the real dataclass) carrying symbolic drive values, a symbolic
    strictly increasing time grid and an _InteractionMatrixCallable with symbolic matrices."""
    T = env.torch
    pa = env.mod("emu_base.pulser_adapter")
    omega = env.tensor_real("omega", (steps, n), dtype=T.complex128)
    delta = env.tensor_real("delta", (steps, n), dtype=T.complex128)
    phi = env.tensor_real("phi", (steps, n), dtype=T.complex128) if phase else T.zeros(steps, n, dtype=T.complex128)
    full = env.sym_matrix("U", n)
    if slm:
        masked = env.sym_matrix("Um", n)
        slm_end = env.real("slm_end", lo=0.0, hi=50.0)
    else:
        masked = full
        slm_end = 0.0
    ts = [0.0]
    for k in range(1, steps + 1):
        if k == steps and last_time is not None:
            t = float(last_time)
            env.assume(ts[-1] < t, "target times strictly increasing")
        else:
            t = env.real(f"t{k}", lo=0.0, hi=50.0)
            env.assume(t > ts[-1], "target times strictly increasing")
        ts.append(t)
    ids = tuple(f"q{i}" for i in range(n))
    bad = tuple(bad_atoms) if bad_atoms is not None else tuple(False for _ in range(n))
    data = pa.SequenceData(
        omega,
        delta,
        phi,
        pa._InteractionMatrixCallable(full, masked, slm_end),
        ids,
        bad,
        list(lindblad_ops),
        prep_error,
        ts,
        ["r", "g"],
        pa.HamiltonianType.Rydberg,
    )
    return data, SimpleNamespace(omega=omega, delta=delta, phi=phi, full=full, masked=masked, slm_end=slm_end, ts=ts)


def build_sv_impl(env, data, config):
    """Runs the real SVBackendImpl.__init__ with pulser's Results/Statistics
    (unusable with symbolic times, and broken under pulser 1.9.1) replaced."""
    svm = env.mod("emu_sv.sv_backend_impl")
    saved = (svm.Results, svm.Statistics)
    svm.Results = Recorder
    svm.Statistics = lambda **kw: SimpleNamespace(**kw)
    try:
        impl = svm.SVBackendImpl(config, data)
    finally:
        svm.Results, svm.Statistics = saved
    impl._save_statistics = lambda idx: None
    return impl


class KrylovRecorder:
    """Replacement for krylov_exp in emu_sv.time_evolution: records the linear
    operator it is asked to exponentiate (as a dense matrix obtained by applying
    the closure to the basis) and the input vector, returns a fresh state."""

    def __init__(self, env, shape_kind):
        self.env = env
        self.kind = shape_kind  # "vec" | "mat"
        self.calls = []

    def __call__(self, op, v, **kw):
        env = self.env
        T = env.torch
        k = len(self.calls)
        dim = v.shape[0]
        v_in = v.clone()
        if self.kind == "vec":
            cols = []
            for j in range(dim):
                e = T.zeros(dim, dtype=T.complex128)
                e[j] = 1.0
                cols.append(op(e))
            M = T.stack(cols, dim=1)
            out = env.tensor_cplx(f"psi{k + 1}", (dim,))
            # linearity witness on the actual input
            env.check_eq(op(v.clone()), M @ v_in, f"step {k}: the exponentiated closure is the linear map of its matrix")
        else:
            # the Lindblad closure is only real-linear (it uses (H_eff rho)^dagger):
            # it is compared with the GKSL generator on a symbolic HERMITIAN probe
            from harness.c06 import hermitian

            probe = hermitian(env, f"probe{k}", dim)
            M = (probe, op(probe.clone()))
            out = hermitian(env, f"rho{k + 1}", dim)
        self.calls.append(SimpleNamespace(M=M, v=v_in, kw=kw, out=out.clone()))  # (a copy: the next call destroys its input)
        # krylov_exp documents that its input tensor "becomes invalid" (the real one normalises it in place):
        # the stub honours that contract in the bluntest way, so code that still needs the tensor is exposed
        v *= 0
        return out


def with_krylov_stub(env, kind, fn):
    te = env.mod("emu_sv.time_evolution")
    rec = KrylovRecorder(env, kind)
    saved = te.krylov_exp
    te.krylov_exp = rec
    try:
        return fn(rec), rec
    finally:
        te.krylov_exp = saved


def h_ref_step(env, sym, k, U, n, zero_sites=()):
    """dense reference Hamiltonian of step k (optionally with some atoms switched off)."""
    T = env.torch
    om, de, ph = sym.omega[k].clone(), sym.delta[k].clone(), sym.phi[k].clone()
    U = U.clone()
    for s in zero_sites:
        om[s] = 0.0
        de[s] = 0.0
        ph[s] = 0.0
        U[s, :] = 0.0
        U[:, s] = 0.0
    return refs.dense_rydberg(T, om, de, ph, U, n)


def sv_stub_config(**kw):
    """duck-typed SVConfig carrying every option the real one has.  `dt` is deliberately unrelated to the
    (symbolic) target-time grid the harnesses use: code that derives a step from config.dt instead of the
    grid then fails a semantic clause rather than an AttributeError in the stub."""
    base = dict(
        dt=7.0,
        max_krylov_dim=100,
        krylov_tolerance=1e-8,
        gpu=False,
        interaction_cutoff=0.0,
        log_level=20,
        log_file=None,
        initial_state=None,
        observables=[],
        with_modulation=False,
        noise_model=SimpleNamespace(noise_types=()),
        n_trajectories=1,
        interaction_matrix=None,
        prefer_device_noise_model=False,
    )
    base.update(kw)
    return SimpleNamespace(**base)
