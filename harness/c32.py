"""C32 — qubit-order optimisation returns a valid, no-worse permutation.

All of emu_mps/optimatrix/permutations.py and the search driver of
emu_mps/optimatrix/optimiser.py are executed on symbolic symmetric matrices.
The two sources of candidate permutations (SciPy's reverse Cuthill-McKee behind
`minimize_bandwidth_above_threshold`, and `torch.randperm`) are replaced by an
*arbitrary* permutation chosen by the explorer at every call, so that what is
decided holds for whatever those heuristics return.
"""

import itertools
import random

from symex.api import Case
from symex.env import b_and, b_or, b_not, scalar

PROPERTY = "C32"

PERM_FILE = "emu_mps/optimatrix/permutations.py"
OPT_FILE = "emu_mps/optimatrix/optimiser.py"


def all_perms(n):
    return [list(p) for p in itertools.permutations(range(n))]


def some_perms(n):
    """a few structurally different permutations of a large range."""
    rot = list(range(1, n)) + [0]
    rev = list(range(n))[::-1]
    swp = list(range(n))
    if n > 2:
        swp[0], swp[n - 2] = swp[n - 2], swp[0]
    rnd = list(range(n))
    random.Random(1000 + n).shuffle(rnd)
    out = []
    for p in (rot, rev, swp, rnd):
        if p not in out:
            out.append(p)
    return out


# ---------------------------------------------------------------------------
# stubs in the namespace of emu_mps.optimatrix.optimiser
# ---------------------------------------------------------------------------
class TorchProxy:
    """`torch` as seen by optimiser.py: the threshold scan torch.arange(0.1, 1.0, 0.01)
    is cut to its first `n_thresholds` values and randperm is the explorer's choice."""

    def __init__(self, T, n_thresholds, randperm):
        self._T = T
        self._n = n_thresholds
        self._randperm = randperm

    def arange(self, *a, **k):
        if len(a) == 3 and isinstance(a[0], float):
            return self._T.tensor([a[0] + i * a[2] for i in range(self._n)], dtype=self._T.float64)
        return self._T.arange(*a, **k)

    def randperm(self, n, *a, **k):
        return self._randperm(n)

    def __getattr__(self, k):
        return getattr(self._T, k)


class patched:
    def __init__(self, om, T, n_thresholds, rcm, randperm=None, impl=None):
        self.om = om
        self.new = {"torch": TorchProxy(T, n_thresholds, randperm), "minimize_bandwidth_above_threshold": rcm}
        if impl is not None:
            self.new["minimize_bandwidth_impl"] = impl

    def __enter__(self):
        self.saved = {k: getattr(self.om, k) for k in self.new}
        for k, v in self.new.items():
            setattr(self.om, k, v)

    def __exit__(self, *a):
        for k, v in self.saved.items():
            setattr(self.om, k, v)
        return False


# ---------------------------------------------------------------------------
# harness-side definitions (independent of the code under test)
# ---------------------------------------------------------------------------
def ref_permute2(T, M, p):
    """[i, j] -> M[p[i], p[j]]"""
    n = len(p)
    return T.stack([T.stack([M[p[i], p[j]] for j in range(n)]) for i in range(n)])


def weights(M, symmetric=True):
    """the weighted distances |M_ij| * |i - j| off the diagonal (for a symmetric matrix the
    upper triangle: the harness builds those from one symbol per pair)."""
    n = M.shape[0]
    return [
        abs(scalar(M[i, j])) * abs(i - j)
        for i in range(n)
        for j in range(n)
        if (i < j if symmetric else i != j)
    ]


def is_bandwidth(env, b, M, symmetric=True):
    """b = max_ij |M_ij| |i-j|  as a predicate (upper bound that is attained)."""
    w = weights(M, symmetric)
    if not w:
        return env.eqv(b, 0.0)
    return b_and(*[env.le(x, b) for x in w], b_or(*[env.eqv(b, x) for x in w]))


def bw_le(env, A, B, strict=False):
    """max_ij |A_ij||i-j|  <=  max_kl |B_kl||k-l|   (resp. <)"""
    wa, wb = weights(A), weights(B)
    if not wa:
        return not strict
    if strict:
        return b_or(*[b_and(*[b_not(env.le(y, x)) for x in wa]) for y in wb])
    return b_or(*[b_and(*[env.le(x, y) for x in wa]) for y in wb])


def is_perm(lst, n):
    return sorted(int(x) for x in lst) == list(range(n))


def sym_input(env, n):
    """symmetric, any sign, any sparsity, symbolic diagonal."""
    return env.sym_matrix("M", n, zero_diag=False)


# ---------------------------------------------------------------------------
# permutation helpers
# ---------------------------------------------------------------------------
def helpers(n, exhaustive):
    perms = all_perms(n) if exhaustive else some_perms(n)

    def fn(env):
        T = env.torch
        pm = env.mod("emu_mps.optimatrix.permutations")
        p = env.choice("perm", perms)
        pt = T.tensor(p)
        ident = list(range(n))
        env.check(pm.eye_permutation(n).tolist() == ident, f"eye_permutation = range(n) (n={n})")
        inv = pm.inv_permutation(pt)
        il = inv.tolist()
        env.check(pt.tolist() == p, "inv_permutation leaves its argument unchanged")
        env.check(is_perm(il, n), "inv_permutation returns a permutation")
        env.check(all(il[p[i]] == i for i in range(n)), "inv[perm[i]] = i")
        env.check(all(p[il[i]] == i for i in range(n)), "perm[inv[i]] = i")
        env.check(pm.permute_tensor(pt, inv).tolist() == ident, "permuting perm by its inverse gives the identity")
        env.check(pm.permute_tensor(inv, pt).tolist() == ident, "permuting the inverse by perm gives the identity")
        src = il if env.mutant("inverse_direction") else p
        # list / tuple / string
        xs = [f"q{i}" for i in range(n)]
        pl = pm.permute_list(xs, pt)
        env.check(pl == [xs[src[i]] for i in range(n)], "permute_list[i] = list[perm[i]]")
        env.check(xs == [f"q{i}" for i in range(n)], "permute_list leaves the list unchanged")
        env.check(pm.permute_tuple(tuple(xs), pt) == tuple(xs[src[i]] for i in range(n)), "permute_tuple[i] = tuple[perm[i]]")
        s = "".join(chr(48 + i) for i in range(n))
        env.check(pm.permute_string(s, pt) == "".join(s[src[i]] for i in range(n)), "permute_string[i] = string[perm[i]]")
        env.check(pm.permute_list(pl, inv) == xs, "permute_list by the inverse undoes permute_list")
        env.check(pm.permute_string(pm.permute_string(s, pt), inv) == s, "permute_string by the inverse undoes permute_string")
        env.check(pm.permute_tuple(pm.permute_tuple(tuple(xs), pt), inv) == tuple(xs), "permute_tuple by the inverse undoes permute_tuple")
        # tensors
        v = env.tensor_real("v", (n,))
        A = env.tensor_real("A", (n, n))
        v0, A0 = v.clone(), A.clone()
        pv = pm.permute_tensor(v, pt)
        pA = pm.permute_tensor(A, pt)
        env.check_eq(pv, T.stack([v[src[i]] for i in range(n)]), "permute_tensor(1-D)[i] = v[perm[i]]")
        env.check_eq(pA, ref_permute2(T, A, src), "permute_tensor(2-D)[i,j] = M[perm[i], perm[j]]")
        env.check_eq(v, v0, "permute_tensor leaves the vector unchanged")
        env.check_eq(A, A0, "permute_tensor leaves the matrix unchanged")
        env.check_eq(pm.permute_tensor(pv, inv), v, "permute_tensor(1-D) by the inverse undoes it")
        env.check_eq(pm.permute_tensor(pA, inv), A, "permute_tensor(2-D) by the inverse undoes it")
        env.check_eq(pm.permute_tensor(A, pm.eye_permutation(n)), A, "permuting by eye_permutation is the identity")
        # list and tensor helpers move the same elements
        names = pm.permute_list(list(range(n)), pt)
        env.check_eq(pv, T.stack([v[k] for k in names]), "permute_list and permute_tensor move the same elements")
        env.check_raises(
            lambda: pm.permute_tensor(T.zeros(n, n + 1, dtype=T.float64), pt), (ValueError,), "non-square 2-D tensor raises ValueError"
        )
        env.check_raises(
            lambda: pm.permute_tensor(T.zeros(n, n, n, dtype=T.float64), pt), (ValueError,), "3-D tensor raises ValueError"
        )

    return fn


# ---------------------------------------------------------------------------
# matrix_bandwidth / is_symmetric
# ---------------------------------------------------------------------------
def bandwidth_def(n):
    def fn(env):
        T = env.torch
        om = env.mod("emu_mps.optimatrix.optimiser")
        A = env.tensor_real("A", (n, n))  # not necessarily symmetric
        A0 = A.clone()
        b = om.matrix_bandwidth(A)
        env.check_eq(A, A0, "matrix_bandwidth leaves the matrix unchanged")
        if env.mutant("unweighted"):
            w = [abs(scalar(A[i, j])) for i in range(n) for j in range(n) if i != j]
            env.check(b_and(*[env.le(x, b) for x in w], b_or(*[env.eqv(b, x) for x in w])), f"matrix_bandwidth = max |M_ij| |i-j| (n={n})")
        else:
            env.check(is_bandwidth(env, b, A, symmetric=False), f"matrix_bandwidth = max |M_ij| |i-j| (n={n})")
        # is_symmetric: allclose(M, M^T, atol=1e-8) with torch's default rtol=1e-5
        res = om.is_symmetric(A)
        close = b_and(
            *[
                env.le(abs(scalar(A[i, j]) - scalar(A[j, i])), 1e-8 + 1e-5 * abs(scalar(A[j, i])))
                for i in range(n)
                for j in range(n)
                if i != j
            ]
        )
        if env.mutant("always_symmetric"):
            env.check(res is True or res == True, "is_symmetric <=> |M - M^T| <= 1e-8 + 1e-5 |M^T| entry-wise")  # noqa: E712
        else:
            env.check(close if res else b_not(close), "is_symmetric <=> |M - M^T| <= 1e-8 + 1e-5 |M^T| entry-wise")
        M = sym_input(env, n)
        env.check(om.is_symmetric(M) == True, "an exactly symmetric matrix is symmetric")  # noqa: E712
        if n >= 2:
            # an input that is asymmetric beyond allclose's tolerance (atol 1e-8, rtol 1e-5) is rejected
            e = env.real("gap", lo=0.0)
            B = M.clone()
            B[0, 1] = scalar(M[1, 0]) + 1.0 + e + 0.001 * abs(scalar(M[1, 0]))
            env.check_raises(lambda: om.minimize_bandwidth(B, samples=0), (AssertionError,), "minimize_bandwidth rejects an asymmetric matrix")

    return fn


# ---------------------------------------------------------------------------
# one global step: min over the candidate set
# ---------------------------------------------------------------------------
def global_step(n, n_thr, first_idx=None):
    perms = all_perms(n)
    first = [perms[i] for i in first_idx] if first_idx is not None else perms

    def fn(env):
        T = env.torch
        om = env.mod("emu_mps.optimatrix.optimiser")
        M = sym_input(env, n)
        M0 = M.clone()
        cands = []

        def rcm(mat, threshold):
            p = env.choice(f"candidate{len(cands)}", perms if cands else first)
            cands.append(p)
            return T.tensor(p)

        with patched(om, T, n_thr, rcm):
            res = om.minimize_bandwidth_global(M)
        r = [int(x) for x in res.tolist()]
        env.check(len(cands) == n_thr, "one candidate per threshold of the (cut) scan")
        env.check(r in cands, "minimize_bandwidth_global returns one of its candidates")
        env.check(is_perm(r, n), "the result is a permutation of range(n)")
        env.check_eq(M, M0, "the matrix is left unchanged")
        Mr = ref_permute2(T, M, r)
        for k, c in enumerate(cands):
            Mc = ref_permute2(T, M, c)
            if env.mutant("picks_worst"):
                env.check(bw_le(env, Mc, Mr), f"bandwidth under the result <= bandwidth under candidate {k} (n={n})")
            else:
                env.check(bw_le(env, Mr, Mc), f"bandwidth under the result <= bandwidth under candidate {k} (n={n})")

    return fn


# ---------------------------------------------------------------------------
# minimize_bandwidth_impl: accumulate while strictly improving
# ---------------------------------------------------------------------------
def impl_loop(n, n_thr, inits, max_accepted=None, terminate="assume"):
    perms = all_perms(n)
    init_perms = [perms[i] for i in inits] if inits is not None else perms

    def fn(env):
        T = env.torch
        om = env.mod("emu_mps.optimatrix.optimiser")
        pm = env.mod("emu_mps.optimatrix.permutations")
        M = sym_input(env, n)
        M0 = M.clone()
        init = env.choice("initial_perm", init_perms)
        init_t = T.tensor(init)
        seen = []

        def rcm(mat, threshold):
            k = len(seen)
            cut = max_accepted is not None and k >= max_accepted * n_thr
            if cut and terminate == "identity":
                # recorded cut: after `max_accepted` improving steps the candidate is the
                # identity (never a strict improvement), which ends the loop
                seen.append((mat.clone(), list(range(n))))
                return T.arange(n)
            p = env.choice(f"candidate{k}", perms)
            seen.append((mat.clone(), p))
            if cut:
                # recorded cut: at most `max_accepted` improving steps are followed
                env.assume(
                    env.le(om.matrix_bandwidth(mat), om.matrix_bandwidth(ref_permute2(T, mat, p))),
                    f"at most {max_accepted} accepted improvement steps",
                )
            return T.tensor(p)

        with patched(om, T, n_thr, rcm):
            acc, bw = om.minimize_bandwidth_impl(M, init_t)
        a = [int(x) for x in acc.tolist()]
        env.check(is_perm(a, n), "the accumulated permutation is a permutation of range(n)")
        env.check(init_t.tolist() == init, "the initial permutation is left unchanged")
        env.check_eq(M, M0, "the matrix is left unchanged")
        env.check(len(seen) % n_thr == 0 and len(seen) >= n_thr, "every step scans all thresholds")
        # the matrix the last (rejected) step worked on is the current matrix of the loop
        current = seen[-1][0]
        if env.mutant("composed_backwards"):
            inv = [0] * n
            for i, x in enumerate(a):
                inv[x] = i
            want = ref_permute2(T, M, inv)
        else:
            want = ref_permute2(T, M, a)
        env.check_eq(current, want, f"the loop's matrix = original permuted by the returned permutation (n={n})")
        env.check_eq(pm.permute_tensor(M, acc), want, "permute_tensor(original, result) is that matrix")
        env.check(is_bandwidth(env, bw, want), "the reported bandwidth is the bandwidth of the original under the returned permutation")
        start = ref_permute2(T, M, init)
        if env.mutant("must_improve"):
            env.check(bw_le(env, want, start, strict=True), "bandwidth under the result <= bandwidth under the initial permutation")
        else:
            env.check(bw_le(env, want, start), "bandwidth under the result <= bandwidth under the initial permutation")

    return fn


# ---------------------------------------------------------------------------
# minimize_bandwidth
# ---------------------------------------------------------------------------
def check_minimize(env, om, M, M0, res, n):
    T = env.torch
    r = [int(x) for x in res.tolist()]
    env.check(len(r) == n and is_perm(r, n), f"minimize_bandwidth returns a permutation of all atoms (n={n})")
    env.check_eq(M, M0, "the interaction matrix is left unchanged")
    Mr = ref_permute2(T, M, r)
    if env.mutant("must_improve"):
        env.check(bw_le(env, Mr, M, strict=True), f"bandwidth of the reordered matrix <= bandwidth of the original order (n={n})")
    else:
        env.check(bw_le(env, Mr, M), f"bandwidth of the reordered matrix <= bandwidth of the original order (n={n})")


def minimize_e2e(n, n_thr, samples, rand_idx=None, max_accepted=None, terminate="assume"):
    perms = all_perms(n)
    rand_perms = [perms[i] for i in rand_idx] if rand_idx is not None else perms

    def fn(env):
        T = env.torch
        om = env.mod("emu_mps.optimatrix.optimiser")
        M = sym_input(env, n)
        M0 = M.clone()
        calls = []
        steps = {"run": 0, "k": 0}

        def rcm(mat, threshold):
            steps["k"] += 1
            cut = max_accepted is not None and steps["k"] > max_accepted * n_thr
            if cut and terminate == "identity":
                calls.append(list(range(n)))
                return T.arange(n)
            p = env.choice(f"candidate{len(calls)}", perms)
            calls.append(p)
            if cut:
                env.assume(
                    env.le(om.matrix_bandwidth(mat), om.matrix_bandwidth(ref_permute2(T, mat, p))),
                    f"at most {max_accepted} accepted improvement steps per restart",
                )
            return T.tensor(p)

        def randperm(L):
            steps["k"] = 0
            return T.tensor(env.choice("randperm", rand_perms))

        # the generator of minimize_bandwidth draws all random permutations first,
        # the restarts then run one after the other: reset the step counter per run
        real_impl = om.minimize_bandwidth_impl

        def impl(matrix, initial_perm):
            steps["k"] = 0
            return real_impl(matrix, initial_perm)

        with patched(om, T, n_thr, rcm, randperm, impl):
            res = om.minimize_bandwidth(M, samples=samples)
        check_minimize(env, om, M, M0, res, n)

    return fn


def minimize_contract(n, samples, free_restart=False, first_idx=None):
    """minimize_bandwidth over a restart loop that is only known by its contract
    (decided in the impl_* cases): it returns some permutation p together with the
    bandwidth of |M| under p, never worse than the permutation it started from.
    `free_restart`: restarts from a random permutation may return *any* permutation
    (a superset of the contract; the random permutation itself is then immaterial)."""
    perms = all_perms(n)
    first = [perms[i] for i in first_idx] if first_idx is not None else perms

    def fn(env):
        T = env.torch
        om = env.mod("emu_mps.optimatrix.optimiser")
        pm = env.mod("emu_mps.optimatrix.permutations")
        M = sym_input(env, n)
        M0 = M.clone()
        runs = []

        def randperm(L):
            if free_restart:
                return T.tensor(list(range(n))[::-1])
            return T.tensor(env.choice(f"randperm{len(runs)}", perms))

        def impl(matrix, initial_perm):
            start = [int(x) for x in initial_perm.tolist()]
            p = env.choice(f"restart{len(runs)}", first if not runs else perms)
            runs.append((start, p))
            pt = T.tensor(p)
            bw = om.matrix_bandwidth(pm.permute_tensor(matrix, pt))
            if not free_restart or start == list(range(n)):
                env.assume(
                    env.le(bw, om.matrix_bandwidth(pm.permute_tensor(matrix, initial_perm))),
                    "contract of minimize_bandwidth_impl (decided in impl_*): result no worse than its initial permutation",
                )
            return pt, bw

        def rcm(mat, threshold):
            raise RuntimeError("not reached: the restart loop is replaced by its contract")

        with patched(om, T, 1, rcm, randperm, impl):
            res = om.minimize_bandwidth(M, samples=samples)
        env.check(len(runs) == samples + 1 and runs[0][0] == list(range(n)), "the identity order is always one of the starting points")
        check_minimize(env, om, M, M0, res, n)

    return fn


COVERS_P = [
    (PERM_FILE, "eye_permutation"),
    (PERM_FILE, "permute_list"),
    (PERM_FILE, "permute_tuple"),
    (PERM_FILE, "permute_string"),
    (PERM_FILE, "inv_permutation"),
    (PERM_FILE, "permute_tensor"),
]
COVERS_O = [
    (OPT_FILE, "is_symmetric"),
    (OPT_FILE, "matrix_bandwidth"),
    (OPT_FILE, "minimize_bandwidth_global"),
    (OPT_FILE, "minimize_bandwidth_impl"),
    (OPT_FILE, "minimize_bandwidth"),
    (PERM_FILE, "permute_tensor"),
]

META = {
    "explanation": (
        "permutations.py (all helpers) and optimiser.py (matrix_bandwidth, is_symmetric, minimize_bandwidth_global, "
        "minimize_bandwidth_impl, minimize_bandwidth) are executed on symbolic symmetric matrices (entries of any sign, "
        "possibly zero or tied, symbolic diagonal). minimize_bandwidth_above_threshold (SciPy RCM) and torch.randperm are "
        "replaced by an arbitrary permutation picked by the explorer at each call (all n! options are forked), the "
        "90-value threshold scan is cut to 1-2 values and the 100 restarts to 0-1; torch.abs/torch.max become abs/ite "
        "atoms, `min(key=...)`, `bandwidth <= new_bandwidth` and the final assert fork on symbolic bandwidths. On every "
        "path z3 decides: the result is a permutation of range(n); max|M[p_i,p_j]||i-j| <= max|M_ij||i-j| written as an "
        "explicit or-of-ands over the entries (not through the code's own bandwidth function); the loop's current matrix "
        "equals the original permuted by the returned accumulated permutation (composition order); the reported bandwidth "
        "is attained and an upper bound; helpers agree with index-level definitions and inversion undoes permutation."
    ),
    "outside": [
        "sizes above 4 for the optimiser (above 5 for exhaustive permutations of the helpers; sizes 8 and 30 only with 4 fixed permutations)",
        "that reverse Cuthill-McKee actually reduces the bandwidth (SciPy), thresholding inside minimize_bandwidth_above_threshold",
        "more than 2 thresholds per scan and more than 1 random restart (the code treats both as an opaque candidate set)",
        "n = 4: more than 1 accepted improvement step per restart; n = 3 end-to-end with a restart: scan cut to 1 threshold",
        "floating-point rounding in comparisons of bandwidths",
    ],
    "assumptions": [
        "input matrix exactly symmetric (is_symmetric itself is characterised separately, asymmetric input is rejected)",
        "minimize_contract_*: minimize_bandwidth_impl is represented by the contract decided in the impl_* cases",
    ],
}


def over_sizes(ns, make):
    """one case for several small sizes: the size is the explorer's first choice."""
    fns = {n: make(n) for n in ns}

    def fn(env):
        n = env.choice("n", list(ns))
        fns[n](env)

    return fn


def cases(tier):
    quick = tier == "quick"
    out = []
    # -- permutation helpers --------------------------------------------------
    ns = [1, 2, 3, 4] if quick else [1, 2, 3, 4, 5]
    out.append(
        Case(
            name=f"helpers_n1to{ns[-1]}",
            fn=over_sizes(ns, lambda n: helpers(n, True)),
            covers=COVERS_P,
            bounds={"n": ns, "permutations": "all n!"},
            canaries=["inverse_direction"],
            weight=5,
        )
    )
    ns = [30] if quick else [8, 30]
    out.append(
        Case(
            name="helpers_large_fixed_perms",
            fn=over_sizes(ns, lambda n: helpers(n, False)),
            covers=COVERS_P,
            bounds={"n": ns, "permutations": "rotation, reversal, transposition, one fixed shuffle"},
            canaries=["inverse_direction"],
            weight=8,
        )
    )
    # -- bandwidth / symmetry ---------------------------------------------------
    ns = [1, 2, 3] if quick else [1, 2, 3, 4]
    out.append(
        Case(
            name=f"bandwidth_n1to{ns[-1]}",
            fn=over_sizes(ns, bandwidth_def),
            covers=COVERS_O,
            bounds={"n": ns, "matrix": "arbitrary real, not necessarily symmetric"},
            canaries=["unweighted", "always_symmetric"],
            weight=9,
            timeout_ms=60000,
        )
    )
    # -- one global step ----------------------------------------------------------
    out.append(
        Case(
            name="global_n1to3",
            fn=over_sizes([1, 2, 3], lambda n: global_step(n, 2)),
            covers=COVERS_O,
            bounds={"n": [1, 2, 3], "candidates": "2 arbitrary permutations (threshold scan cut from 90 to 2)"},
            canaries=["picks_worst"],
            weight=10,
            timeout_ms=60000,
            deadline_s=800.0,
        )
    )
    if not quick:
        for k in range(4):
            g = list(range(6 * k, 6 * k + 6))
            out.append(
                Case(
                    name=f"global_n4_first{g[0]:02d}to{g[-1]:02d}",
                    fn=global_step(4, 2, g),
                    covers=COVERS_O,
                    bounds={
                        "n": 4,
                        "candidates": f"2 permutations: #{g[0]}..{g[-1]} of 24 (all over the cases) and an arbitrary one (scan cut from 90 to 2)",
                    },
                    canaries=["picks_worst"] if k == 0 else [],
                    weight=150,
                    timeout_ms=60000,
                    deadline_s=800.0,
                )
            )
    # -- restart loop ---------------------------------------------------------------
    out.append(
        Case(
            name="impl_n1to2",
            fn=over_sizes([1, 2], lambda n: impl_loop(n, 2, None)),
            covers=COVERS_O,
            bounds={"n": [1, 2], "initial_perm": "any", "candidates_per_step": 2, "steps": "unbounded"},
            canaries=["must_improve"],
            weight=2,
        )
    )
    for g in ([0, 1], [2, 3], [4, 5]):
        out.append(
            Case(
                name=f"impl_n3_init{''.join(map(str, g))}",
                fn=impl_loop(3, 1, g),
                covers=COVERS_O,
                bounds={
                    "n": 3,
                    "initial_perm": f"permutations #{g} of 6 (all 6 over the cases)",
                    "candidates_per_step": "1 arbitrary permutation (scan cut to 1)",
                    "steps": "unbounded",
                },
                canaries=["composed_backwards", "must_improve"],
                weight=40,
                timeout_ms=60000,
                deadline_s=800.0,
            )
        )
    if not quick:
        for k in range(6):
            g = list(range(4 * k, 4 * k + 4))
            out.append(
                Case(
                    name=f"impl_n4_init{g[0]:02d}to{g[-1]:02d}",
                    fn=impl_loop(4, 1, g, max_accepted=1, terminate="identity"),
                    covers=COVERS_O,
                    bounds={
                        "n": 4,
                        "initial_perm": f"permutations #{g[0]}..{g[-1]} of 24 (all 24 over the cases)",
                        "candidates_per_step": "1 arbitrary permutation",
                        "steps": "1 arbitrary candidate (accepted or rejected), then the identity as the terminating candidate",
                    },
                    canaries=["composed_backwards"],
                    weight=100,
                    timeout_ms=60000,
                    deadline_s=850.0,
                )
            )
    # -- minimize_bandwidth -----------------------------------------------------------
    out.append(
        Case(
            name="minimize_n1to2",
            fn=over_sizes([1, 2], lambda n: minimize_e2e(n, 2, 1)),
            covers=COVERS_O,
            bounds={"n": [1, 2], "thresholds": 2, "random_restarts": 1, "steps": "unbounded"},
            canaries=["must_improve"],
            weight=3,
        )
    )
    out.append(
        Case(
            name="minimize_n3_identity_start",
            fn=minimize_e2e(3, 1, 0),
            covers=COVERS_O,
            bounds={"n": 3, "thresholds": 1, "random_restarts": 0, "steps": "unbounded"},
            canaries=["must_improve"],
            weight=30,
            timeout_ms=60000,
            deadline_s=800.0,
        )
    )
    if not quick:
        for g in ([0, 1, 2], [3, 4, 5]):
            out.append(
                Case(
                    name=f"minimize_n3_restart{''.join(map(str, g))}",
                    fn=minimize_e2e(3, 1, 1, rand_idx=g, max_accepted=1, terminate="identity"),
                    covers=COVERS_O,
                    bounds={
                        "n": 3,
                        "thresholds": 1,
                        "random_restarts": f"1, random permutation #{g} of 6 (all 6 over the cases)",
                        "steps": "per restart 1 arbitrary candidate (accepted or rejected), then the identity as the terminating candidate",
                    },
                    canaries=["must_improve"],
                    weight=90,
                    timeout_ms=60000,
                    deadline_s=850.0,
                )
            )
    for g in ([0, 1, 2], [3, 4, 5]):
        out.append(
            Case(
                name=f"minimize_contract_n3_first{''.join(map(str, g))}",
                fn=minimize_contract(3, 1, first_idx=g),
                covers=COVERS_O,
                bounds={
                    "n": 3,
                    "random_restarts": 1,
                    "restart_loop": f"replaced by its contract: any permutation no worse than its start (from the identity: #{g} of 6, all over the cases)",
                },
                canaries=["must_improve"],
                weight=35,
                timeout_ms=60000,
                deadline_s=850.0,
            )
        )
    if not quick:
        for k in range(4):
            g = list(range(6 * k, 6 * k + 6))
            out.append(
                Case(
                    name=f"minimize_contract_n4_first{g[0]:02d}to{g[-1]:02d}",
                    fn=minimize_contract(4, 1, free_restart=True, first_idx=g),
                    covers=COVERS_O,
                    bounds={
                        "n": 4,
                        "random_restarts": 1,
                        "restart_loop": (
                            "replaced by its contract: from the identity any permutation no worse "
                            f"(#{g[0]}..{g[-1]} of 24; all over the cases), from the random start any permutation at all"
                        ),
                    },
                    canaries=["must_improve"] if k == 0 else [],
                    weight=200,
                    timeout_ms=60000,
                    deadline_s=850.0,
                )
            )
    return out
