"""C22 — per-step drive values are the interpolated Pulser samples."""

from symex.api import Case
from symex.env import b_and, b_or, b_not, b_implies, scalar
from harness.c20 import ref_slopes

PROPERTY = "C22"

COVERS = [
    ("emu_base/pulser_adapter.py", "_extract_omega_delta_phi"),
    ("emu_base/math/pchip_torch.py", "PCHIP1D.__init__"),
    ("emu_base/math/pchip_torch.py", "PCHIP1D.__call__"),
    ("emu_base/math/pchip_torch.py", "_pchip_derivatives"),
    ("emu_base/math/pchip_torch.py", "_limit_endpoint"),
]


class FakeSamples:
    """Duck-typed pulser SequenceSamples: only what the adapter reads."""

    def __init__(self, nested, max_duration):
        self._nested = nested
        self.max_duration = max_duration

    def to_nested_dict(self, all_local=False, samples_type="array"):
        assert all_local and samples_type == "tensor"
        return {"Local": self._nested}


def ref_eval(env, samples, t):
    """reference PCHIP on the integer grid 0..T-1 evaluated at the scalar t
    (end pieces extrapolate)."""
    T = env.torch
    n = len(samples)
    xs = [float(k) for k in range(n)]
    d, h, m = ref_slopes(env, xs, samples)
    k = 0
    for j in range(1, n - 1):
        if bool(xs[j] <= t):
            k = j
    dk, dk1, mk = scalar(d[k]), scalar(d[k + 1]), scalar(m[k])
    p2 = 3.0 * mk - 2.0 * dk - dk1
    p3 = dk + dk1 - 2.0 * mk
    s = t - xs[k]
    return samples[k] + s * (dk + s * (p2 + s * p3))


def target_grid(env, T_dur, n_int, last_ns=False):
    """0 = t0 < t1 < ... < t_K = T_dur with symbolic interior times."""
    ts = [0.0]
    lo = float(T_dur - 1) if last_ns else 0.0
    for k in range(1, n_int):
        t = env.real(f"t{k}", lo=lo, hi=float(T_dur))
        env.assume(t > ts[-1], "target times strictly increasing")
        ts.append(t)
    env.assume(ts[-1] < float(T_dur), "last interior time before the end") if n_int > 1 else None
    ts.append(float(T_dur))
    return ts


def extract(n_samples, n_int, n_atoms, basis="ground-rydberg", last_ns=False, missing=False, fork_where=False):
    def fn(env):
        T = env.torch
        if fork_where and env.mode != "real":
            T.WHERE_FORKS = True
            try:
                return body(env)
            finally:
                T.WHERE_FORKS = False
        return body(env)

    def body(env):
        T = env.torch
        pa = env.mod("emu_base.pulser_adapter")
        ts = target_grid(env, n_samples, n_int, last_ns)
        # register order is NOT the sorted order of the ids (Pulser ids are arbitrary strings or ints; after a
        # serialisation round trip integer ids become strings, whose sort order differs from 10 atoms on)
        qids = [f"q{a}" for a in range(n_atoms)][::-1]
        data = {}
        raw = {}
        for q in qids:
            amp = [env.real(f"amp_{q}_{k}", lo=0.0) for k in range(n_samples)]
            det = [env.real(f"det_{q}_{k}") for k in range(n_samples)]
            pha = [env.real(f"pha_{q}_{k}") for k in range(n_samples)]
            raw[q] = (amp, det, pha)
            data[q] = {
                "amp": T.tensor(amp, dtype=T.float64),
                "det": T.tensor(det, dtype=T.float64),
                # pulser hands complex-typed tensors for some channels: exercise that path
                "phase": T.tensor(pha, dtype=T.complex128),
            }
        all_ids = tuple(qids) + (("ghost",) if missing else ())
        samples = FakeSamples({basis: data}, float(n_samples))
        omega, delta, phi = pa._extract_omega_delta_phi(samples, all_ids, ts)
        env.check(tuple(omega.shape) == (n_int, n_atoms), "one row per interval, one column per atom present in the samples")
        env.check(tuple(delta.shape) == (n_int, n_atoms) and tuple(phi.shape) == (n_int, n_atoms), "shapes of delta, phi")
        env.check(omega.is_complex() and delta.is_complex() and phi.is_complex(), "complex128 outputs")
        for a, q in enumerate(qids):
            amp, det, pha = raw[q]
            for k in range(n_int):
                tm = 0.5 * (ts[k] + ts[k + 1])
                if env.mutant("left_endpoint"):
                    tm = ts[k]
                want_d = ref_eval(env, det, tm)
                want_p = ref_eval(env, pha, tm)
                want_a = ref_eval(env, amp, tm)
                env.check_eq(delta[k, a], want_d, f"delta[{k},{a}] = PCHIP(det samples)(midpoint)")
                env.check_eq(phi[k, a], want_p, f"phi[{k},{a}] = PCHIP(phase samples)(midpoint)")
                got_a = scalar(omega[k, a].real)
                env.check(
                    b_implies(env.ge(want_a, 0.0), env.eqv(got_a, want_a)),
                    f"omega[{k},{a}] = PCHIP(amp samples)(midpoint) whenever that is non-negative",
                )
                env.check(env.ge(got_a, 0.0), f"omega[{k},{a}] >= 0 (amplitude never negative)")
                env.check_eq(omega[k, a].imag, 0.0, f"omega[{k},{a}] is real")

    return fn


def rejects(kind):
    def fn(env):
        T = env.torch
        pa = env.mod("emu_base.pulser_adapter")
        ts = [0.0, 1.0, 2.0]
        ok = {"amp": T.tensor([1.0, 1.0], dtype=T.float64), "det": T.tensor([0.0, 0.0], dtype=T.float64), "phase": T.tensor([0.0, 0.0], dtype=T.float64)}
        if kind == "two_bases":
            s = FakeSamples({"ground-rydberg": {"q0": ok}, "XY": {"q0": ok}}, 2.0)
            env.check_raises(lambda: pa._extract_omega_delta_phi(s, ("q0",), ts), (ValueError,), "two channel bases are rejected")
        elif kind == "supported_plus_unsupported":
            # a supported basis next to one the emulators do not implement (e.g. a Raman channel):
            # the whole sequence must be refused, not the unsupported part silently dropped
            first = env.choice("supported", ["ground-rydberg", "XY"])
            other = env.choice("unsupported", ["digital", "all"])
            order = env.boolean("unsupported_first")
            items = [(first, {"q0": ok}), (other, {"q0": ok})]
            if order:
                items.reverse()
            s = FakeSamples(dict(items), 2.0)
            env.check_raises(lambda: pa._extract_omega_delta_phi(s, ("q0",), ts), (ValueError,), "a supported basis mixed with an unsupported one is rejected")
        elif kind == "unknown_basis":
            s = FakeSamples({"digital": {"q0": ok}}, 2.0)
            env.check_raises(lambda: pa._extract_omega_delta_phi(s, ("q0",), ts), (ValueError,), "an unsupported basis is rejected")
        elif kind == "imag":
            im = env.real("im", lo=0.001)
            bad = dict(ok)
            bad["det"] = T.tensor([complex(0.0, 0.0), 1.0j * im], dtype=T.complex128) if env.mode != "sym" else T.tensor([0.0, im * 1.0j], dtype=T.complex128)
            s = FakeSamples({"ground-rydberg": {"q0": bad}}, 2.0)
            env.check_raises(lambda: pa._extract_omega_delta_phi(s, ("q0",), ts), (ValueError,), "samples with a non-zero imaginary part are rejected")
        elif kind == "duration_mismatch":
            s = FakeSamples({"ground-rydberg": {"q0": ok}}, 3.0)
            env.check_raises(lambda: pa._extract_omega_delta_phi(s, ("q0",), ts), (AssertionError,), "grid end != sample duration is rejected")

    return fn


META = {
    "explanation": (
        "_extract_omega_delta_phi is executed with a duck-typed SequenceSamples whose per-atom amp/det/phase samples are "
        "symbolic reals (amp >= 0, Pulser's contract) and with a symbolic, strictly increasing target-time grid (including "
        "several steps inside the last nanosecond, i.e. beyond the last Pulser sample). searchsorted forks on the interval of "
        "every midpoint; z3 decides that every delta/phi entry equals a reference PCHIP evaluated at the step midpoint "
        "(extrapolating with the end polynomial), that every amplitude equals it whenever it is non-negative, and that no "
        "amplitude row is negative; rejected inputs (two bases, unknown basis, imaginary samples, duration mismatch) raise."
    ),
    "outside": [
        "more than 5 samples per atom / 3 intervals / 2 atoms (4 intervals with <= 4 samples)",
        "that the interpolant is non-negative inside the data range follows from C20's lemmas and is not re-proved here",
        "Pulser's sampling itself (to_nested_dict)",
    ],
    "assumptions": ["amplitude samples are non-negative", "target times strictly increasing, first 0, last = sample count"],
}


def cases(tier):
    out = []
    if tier == "quick":
        grid = [(3, 2, 1, False), (4, 3, 1, False), (3, 3, 1, True), (2, 2, 2, False)]
    else:
        # (5 samples x 4 intervals and 4 x 4 inside the last ns were part of this tier until the NaN-gradient repair
        #  of PCHIP1D put if-then-else terms into the harmonic mean: z3 now answers `unknown` after 60 s on one
        #  amplitude row of each, and forking every torch.where instead explodes to > 5000 paths)
        grid = [(2, 2, 1, False), (3, 2, 2, False), (4, 3, 1, False), (5, 3, 1, False), (3, 3, 1, True), (4, 3, 1, True), (5, 3, 2, True)]
    for ns, ni, na, last in grid:
        out.append(
            Case(
                f"extract_T{ns}_K{ni}_atoms{na}{'_lastns' if last else ''}",
                extract(ns, ni, na, last_ns=last, missing=(na == 1), fork_where=False),
                covers=COVERS,
                bounds={"samples_per_atom": ns, "intervals": ni, "atoms": na, "all_steps_in_last_ns": last},
                canaries=["left_endpoint"],
                weight=ns**ni * na,
                timeout_ms=60000,
                deadline_s=1200,
            )
        )
    out.append(Case("extract_xy_basis", extract(3, 2, 1, basis="XY"), covers=COVERS, bounds={"basis": "XY"}, canaries=["left_endpoint"]))
    for k in ("two_bases", "supported_plus_unsupported", "unknown_basis", "imag", "duration_mismatch"):
        out.append(Case(f"rejects_{k}", rejects(k), covers=COVERS, bounds={"input": k}))
    return out
