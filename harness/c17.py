"""C17 — emu-mps quantum-jump trajectories reproduce Lindblad dynamics on average.

The property itself is statistical and NOT decided.  What is decided here are the
deterministic ingredients of one trajectory that the average relies on: the effective
non-Hermitian Hamiltonian, the jump weights handed to the sampler, the state after a jump
and the redraw of the threshold.  (Stepping: C18; operators: C24; observables of a
normalised state: C13.)
"""

from types import SimpleNamespace

from symex.api import Case
from symex import refs
from symex.env import b_and, b_or, b_not, b_implies, scalar
from harness.c11 import sym_mps, make_mps, install_column_qr, unit_factor, clones, abs2
from harness.c18 import FakeMath

PROPERTY = "C17"

COVERS = [
    ("emu_mps/mps_backend_impl.py", "NoisyMPSBackendImpl.init_lindblad_noise"),
    ("emu_mps/mps_backend_impl.py", "NoisyMPSBackendImpl.do_random_quantum_jump"),
    ("emu_mps/mps_backend_impl.py", "NoisyMPSBackendImpl.set_jump_threshold"),
    ("emu_mps/mps_backend_impl.py", "MPSBackendImpl.update_H"),
    ("emu_mps/mps.py", "MPS.expect_batch"),
    ("emu_mps/mps.py", "MPS.apply"),
    ("emu_base/jump_lindblad_operators.py", "compute_noise_from_lindbladians"),
]


def effective_hamiltonian(n, n_ops, d):
    """H_eff = H - (i/2) sum_q sum_k (L_k^dag L_k)_q in the MPO the noisy solver evolves with."""

    def fn(env):
        T = env.torch
        mm = env.mod("emu_mps.mps_backend_impl")
        hm = env.mod("emu_mps.hamiltonian")
        HT = env.mod("emu_base").HamiltonianType
        Ls = [env.tensor_cplx(f"L{k}", (d, d)) for k in range(n_ops)]
        impl = object.__new__(mm.NoisyMPSBackendImpl)
        impl.lindblad_ops = Ls
        impl.dim = d
        impl.init_lindblad_noise()
        for k, L in enumerate(Ls):
            env.check_eq(impl.aggregated_lindblad_ops[k], L.mH @ L, f"aggregated operator {k} = L^dag L")
        U = env.sym_matrix("U", n)
        om = env.tensor_real("omega", (1, n), dtype=T.complex128)
        de = env.tensor_real("delta", (1, n), dtype=T.complex128)
        ph = env.tensor_real("phi", (1, n), dtype=T.complex128)
        impl.omega, impl.delta, impl.phi = om, de, ph
        impl._timestep_index = 0
        impl.hamiltonian = hm.make_H(interaction_matrix=U, hamiltonian_type=HT.Rydberg, dim=d, num_gpus_to_use=0)
        impl.update_H()
        noise = T.zeros(d, d, dtype=T.complex128)
        for L in Ls:
            w = -0.5j if not env.mutant("plus_i") else 0.5j
            noise = noise + w * (L.mH @ L)
        ref = refs.dense_rydberg(T, om[0], de[0], ph[0], U, n, d, noise=noise)
        env.check_eq(refs.contract_mpo(T, impl.hamiltonian.factors), ref, f"noisy solver's MPO = H - i/2 sum L^dag L on every atom (n={n}, d={d}, ops={n_ops})")
        impl.update_H_no_noise()
        ref0 = refs.dense_rydberg(T, om[0], de[0], ph[0], U, n, d)
        env.check_eq(refs.contract_mpo(T, impl.hamiltonian.factors), ref0, "the Hamiltonian handed to observables carries no noise term")

    return fn


CONCRETE_UNITS = [(0.6, 0.8, 0.0), (0.8, -0.6, 0.0), (0.0, 0.6, 0.8)]
CONCRETE_UNITS2 = [(0.6, 0.8), (0.8, -0.6), (0.0, 1.0)]


def jump(n, n_ops, d, symbolic_state=True):
    """do_random_quantum_jump on a product state: weights, chosen operator, new state, threshold.
    With symbolic_state=False the state is a concrete product state with rational norms and only
    the jump operators are symbolic (few atoms: fast also when a counterexample has to be found)."""

    def fn(env):
        T = env.torch
        mm = env.mod("emu_mps.mps_backend_impl")
        if symbolic_state:
            A = sym_mps(env, "a", n, d, [1] * (n - 1))
        else:
            A = [T.tensor([3.0, 4.0j, 0.0][:d] if d == 2 else [2.0, 1.0j, 2.0], dtype=T.complex128).reshape(1, d, 1)]
            # (unit vectors: the factors right of the centre must be isometries for the state to be canonical)
            A += [T.tensor(list(CONCRETE_UNITS2[(k - 1) % 3]) if d == 2 else [0.0, 0.6, 0.8], dtype=T.complex128).reshape(1, d, 1) for k in range(1, n)]
        for k in range(1, n if symbolic_state else 0):
            # centre 0: the other factors are isometries; parametrised by angles (no sqrt atoms)
            b = T.tensor(env.real(f"beta{k}", lo=-3.2, hi=3.2), dtype=T.float64)
            comps = [T.cos(b), T.sin(b)]
            if d == 3:
                g = T.tensor(env.real(f"gamma{k}", lo=-3.2, hi=3.2), dtype=T.float64)
                comps = [T.cos(b) * T.cos(g), T.cos(b) * T.sin(g), T.sin(b)]
            A[k] = T.stack(comps).to(T.complex128).reshape(1, d, 1)
        A0 = clones(A)
        psi = refs.contract_mps(T, A0)
        install_column_qr(env)
        state = make_mps(env, A, d, center=0)
        Ls = [env.tensor_cplx(f"L{k}", (d, d)) for k in range(n_ops)]
        impl = object.__new__(mm.NoisyMPSBackendImpl)
        impl.state = state
        impl.lindblad_ops = Ls
        impl.dim = d
        impl.init_lindblad_noise()
        rec = {}

        class FakeRandom:
            @staticmethod
            def choices(population, weights=None):
                rec["population"] = list(population)
                rec["weights"] = list(weights)
                idx = env.choice("jump", list(range(len(population))))
                rec["idx"] = idx
                return [population[idx]]

            @staticmethod
            def uniform(lo, hi):
                frac = env.real("u", lo=0.0, hi=1.0)
                env.assume(b_and(frac > 0.0, frac < 1.0), "uniform draws fall in the open interval")
                rec["uniform"] = (lo, hi)
                return lo + frac * (hi - lo)

        baths = []
        impl.init_baths = lambda: baths.append(1)

        class Math:
            """the code's own sanity assertion `isclose(norm, 1)` is recorded, not re-proved: the
            normalisation is decided below on the dense state"""

            @staticmethod
            def isclose(a, b, **kw):
                rec["isclose"] = (a, b)
                return True

        saved = (mm.random, mm.math)
        mm.random, mm.math = FakeRandom, Math
        try:
            impl.do_random_quantum_jump()
        finally:
            mm.random, mm.math = saved
        # population: (qubit, operator) pairs, qubit-major; weights <psi|(L^dag L)_q|psi>
        pop = [(q, k) for q in range(n) for k in range(n_ops)]
        env.check(len(rec["population"]) == len(pop), "one candidate jump per (atom, operator)")
        for j, (q, k) in enumerate(pop):
            qq, op = rec["population"][j]
            env.check(qq == q and op is Ls[k], f"candidate #{j} is (atom {q}, operator {k})")
            site = q if not env.mutant("weights_mirrored") else n - 1 - q
            O = refs.embed(T, Ls[k].mH @ Ls[k], site, n, d)
            env.check_eq(rec["weights"][j], T.vdot(psi, O @ psi).real, f"weight #{j} = <psi|(L_{k}^dag L_{k}) on atom {q}|psi>")
        q, k = pop[rec["idx"]]
        jumped = refs.embed(T, Ls[k], q, n, d) @ psi
        got = refs.contract_mps(T, impl.state.factors)
        if q == 0:
            # no QR is involved: the centre tensor is L a_0 and the code divides by its norm
            nrm = T.sqrt(abs2(T, Ls[k] @ A0[0]).sum())
            env.assume(scalar(nrm) > 0.001, "the chosen jump does not annihilate the state")
            u = 1 / nrm  # the reciprocal the code forms (same atom)
            if env.symbolic:
                lemma = env.eqv(scalar(u * nrm), 1.0)
                env.check(lemma, "lemma: (1/|L a_0|) * |L a_0| = 1")
                env.assume(lemma, "lemma (proved): (1/|L a_0|) * |L a_0| = 1")
            env.check_eq(got, u * jumped, "state after a jump on atom 0 = L_0 psi / |L_0 psi|")
        else:
            # the QR sweeps of orthogonalize() introduce nested norm atoms: decide direction only
            dim = d**n
            for i in range(dim):
                for j in range(i + 1, dim):
                    env.check_eq(got[i] * jumped[j], got[j] * jumped[i], f"state after the jump is proportional to L_q psi (components {i},{j})")
        env.check(impl.state.orthogonality_center == 0, "state is re-centred on site 0")
        env.check(baths == [1], "baths are rebuilt once")
        lo, hi = rec["uniform"]
        n2 = scalar(impl.state.norm()) ** 2  # squared norm of the (normalised) state as the code measures it
        env.check(env.eqv(lo, 0.0), "new threshold is drawn from an interval starting at 0")
        env.check(env.eqv(hi, n2), "... and ending at the squared norm of the state after the jump")
        thr = impl.jump_threshold
        env.check(env.eqv(impl.norm_gap_before_jump, n2 - thr), "norm gap restarts at |psi|^2 - threshold")

    return fn


META = {
    "explanation": (
        "C17 itself (trajectory averages converge to the master equation) is a statistical claim and is not decided. Decided are the "
        "deterministic ingredients of a trajectory: NoisyMPSBackendImpl.init_lindblad_noise + update_H give an MPO that contracts to "
        "H - i/2 sum_q sum_k (L_k^dag L_k)_q for symbolic jump operators (and update_H_no_noise removes it for observables); "
        "do_random_quantum_jump on symbolic product states hands random.choices one candidate per (atom, operator) with weights "
        "<psi|(L^dag L)_q|psi>, applies the chosen operator, re-centres and normalises so that the state is L_q psi/|L_q psi|, rebuilds "
        "the baths and redraws the threshold in (0,1). QR on product states is the exact one-column QR with an arbitrary phase."
    ),
    "outside": [
        "THE PROPERTY'S CORE: convergence of trajectory averages to Lindblad dynamics (needs the RNG and the full numeric evolution)",
        "entangled states in do_random_quantum_jump (multi-column QR); N > 4 (N > 5 for the effective Hamiltonian); more than 2 jump operators",
    ],
    "assumptions": ["random.uniform returns a value in the open interval; random.choices returns one of the candidates"],
}


def cases(tier):
    out = []
    q = tier == "quick"
    for n, k, d in ([(2, 1, 2), (3, 2, 2), (2, 1, 3)] if q else [(2, 2, 2), (3, 2, 2), (4, 1, 2), (4, 2, 2), (5, 1, 2), (2, 2, 3), (3, 1, 3), (3, 2, 3)]):
        out.append(Case(f"effective_hamiltonian_n{n}_ops{k}_d{d}", effective_hamiltonian(n, k, d), covers=COVERS, bounds={"atoms": n, "jump_ops": k, "dim": d}, canaries=["plus_i"], weight=(d**n) ** 2))
    for n, k, d in ([(2, 1, 2), (3, 2, 2)] if q else [(2, 2, 2), (3, 2, 2), (4, 1, 2), (2, 1, 3), (3, 1, 3)]):
        out.append(
            Case(f"jump_concrete_state_n{n}_ops{k}_d{d}", jump(n, k, d, symbolic_state=False), covers=COVERS, bounds={"atoms": n, "jump_ops": k, "dim": d, "state": "concrete product state, symbolic jump operators"}, canaries=["weights_mirrored"], weight=(d**n) * 20, timeout_ms=60000, deadline_s=1500)
        )
    for n, k, d in ([] if q else [(2, 1, 2)]):
        out.append(
            Case(f"jump_symbolic_state_n{n}_ops{k}_d{d}", jump(n, k, d), covers=COVERS, bounds={"atoms": n, "jump_ops": k, "dim": d, "state": "symbolic product state"}, canaries=[], weight=(d**n) * 200, timeout_ms=120000, deadline_s=2400)
        )
    # what a trajectory REPORTS: between jumps its norm decays, and observables are evaluated on the
    # normalised state (with badly prepared atoms re-inserted in |g>) - shared with C13/C25
    from harness.c13 import mps_fill_results

    out.append(
        Case(
            "reported_state_is_normalised_N3_d2_chi2",
            mps_fill_results(3, 2, 2),
            covers=[("emu_mps/mps_backend_impl.py", "MPSBackendImpl.fill_results")],
            bounds={"register_atoms": 3, "dim": 2, "chi": 2, "masks": "all with >= 2 good atoms (none bad included)", "state norm": "arbitrary (symbolic)"},
            canaries=["dark_excited"],
            weight=160,
            timeout_ms=60000,
            deadline_s=1500,
        )
    )
    return out
