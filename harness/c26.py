"""C26 — resuming from an autosave gives the same results as an uninterrupted run.

Engine M: the real MPSBackend.resume / _run / _run_from_sequence_data,
MPSBackendImpl.permute_results (+ helpers), save_simulation and
__getstate__/__setstate__ run on stub implementations whose numerical
evolution is replaced by "store fresh symbolic results"; file system, pickle,
clock and logging are stubs in the module namespaces (see harness/c27.py).
"""

import itertools
import types
import warnings
from collections import Counter

from symex.api import Case
from harness.c27 import FS, FakePath, FakeOS, FakePickle, FakeTime, NullLogger, Patch, complete, ABSENT

PROPERTY = "C26"

COVERS = [
    ("emu_mps/mps_backend.py", "MPSBackend.resume"),
    ("emu_mps/mps_backend.py", "MPSBackend._run"),
    ("emu_mps/mps_backend.py", "MPSBackend._run_from_sequence_data"),
    ("emu_mps/mps_backend_impl.py", "MPSBackendImpl.permute_results"),
    ("emu_mps/mps_backend_impl.py", "permute_bitstrings"),
    ("emu_mps/mps_backend_impl.py", "permute_occupations_and_correlations"),
    ("emu_mps/mps_backend_impl.py", "permute_atom_order"),
    ("emu_mps/mps_backend_impl.py", "MPSBackendImpl.is_finished"),
    ("emu_mps/mps_backend_impl.py", "MPSBackendImpl.save_simulation"),
]
COVERS_STATE = [
    ("emu_mps/mps_backend_impl.py", "MPSBackendImpl.__getstate__"),
    ("emu_mps/mps_backend_impl.py", "MPSBackendImpl.__setstate__"),
    ("emu_mps/mps_backend_impl.py", "MPSBackendImpl.__init__"),
    ("emu_mps/mps_config.py", "MPSConfig.__init__"),
    ("emu_mps/mps_config.py", "MPSConfig.monkeypatch_observables"),
]

RESUME_FILE = "emu_mps_save_resume.dat"
REF_FILE = "emu_mps_save_reference.dat"
MOVED_FROM = "emu_mps_save_original_location.dat"
IDS3 = ("qa", "qb", "qc")
BITKEYS = {2: ["10", "01"], 3: ["100", "010", "001"]}


class _FrozenClock:
    """clock of the reference run: no autosave ever becomes due."""

    def __init__(self, t):
        self.t = t

    def time(self):
        return self.t


class _FakeStatistics:
    def __init__(self, evaluation_times=None, data=None, timestep_count=0):
        self.evaluation_times, self.data, self.timestep_count = evaluation_times, data, timestep_count


def _quiet():
    cm = warnings.catch_warnings()
    cm.__enter__()
    warnings.simplefilter("ignore")
    return cm


def _observables(tagset):
    import pulser.backend as pb

    mk = {
        "bitstrings": lambda: pb.BitStrings(evaluation_times=[1.0]),
        "occupation": lambda: pb.Occupation(evaluation_times=[1.0]),
        "correlation_matrix": lambda: pb.CorrelationMatrix(evaluation_times=[1.0]),
        "energy": lambda: pb.Energy(evaluation_times=[1.0]),
    }
    return [mk[t]() for t in tagset]


def _step_values(env, n, step, tagset, bitkey, as_lists, scale=1.0):
    """the (symbolic) values every observable yields at time index `step`, in internal order."""
    T = env.torch
    out = {}
    for tag in tagset:
        if tag == "occupation":
            v = env.tensor_real(f"occ_t{step}", (n,)) * scale
            out[tag] = v.tolist() if as_lists else v
        elif tag == "correlation_matrix":
            v = env.tensor_real(f"corr_t{step}", (n, n)) * scale
            out[tag] = v.tolist() if as_lists else v
        elif tag == "energy":
            out[tag] = T.tensor(env.real(f"energy_t{step}") * scale, dtype=T.float64)
        elif tag == "bitstrings":
            out[tag] = Counter({bitkey: 3 + step, "1" * n: 2})
    return out


def _store_step(env, impl, step, n_steps, n, tagset, bitkey, as_lists, scale=1.0):
    vals = _step_values(env, n, step, tagset, bitkey, as_lists, scale)
    for obs in impl.config.observables:
        impl.results._store(observable=obs, time=step / n_steps, value=vals[obs.tag])


def _make_impl(env, cls_name, cfg, fs, filename, n, ids, perm, k_done, j_left, tagset, bitkey, as_lists, last_save, mutate_last=False):
    """impl as it was autosaved after k_done of k_done+j_left time steps."""
    T = env.torch
    mi = env.mod("emu_mps.mps_backend_impl")
    import pulser.backend as pb

    impl = object.__new__(getattr(mi, cls_name))
    impl.config = cfg
    impl.qubit_count = n
    impl.qubit_permutation = T.tensor(list(perm))
    impl.timestep_count = k_done + j_left
    impl._timestep_index = k_done
    impl.autosave_file = FakePath(fs, filename)
    impl.last_save_time = last_save
    impl.snapshot_version = "snap0"
    internal_ids = tuple(ids[p] for p in perm)
    impl.results = pb.Results(atom_order=internal_ids, total_duration=1000)
    n_steps = k_done + j_left
    for s in range(0, k_done + 1):
        _store_step(env, impl, s, n_steps, n, tagset, bitkey, as_lists)

    def progress(self):
        s = self._timestep_index + 1
        scale = 2.0 if (mutate_last and s == n_steps) else 1.0
        _store_step(env, self, s, n_steps, n, tagset, bitkey, as_lists, scale)
        self._timestep_index += 1
        self.save_simulation()  # the real one, as in the real progress()

    impl.progress = types.MethodType(progress, impl)
    impl.init = lambda: None
    return impl


def _as_tensor(T, v):
    return v if hasattr(v, "shape") else T.tensor(v)


def _compare(env, got, ref, tagset, what):
    T = env.torch
    env.check(tuple(got.atom_order) == tuple(ref.atom_order), f"{what}: same atom order")
    same_tags = sorted(got.get_result_tags()) == sorted(ref.get_result_tags())
    env.check(same_tags, f"{what}: same result tags")
    if not same_tags:
        return
    env.check(
        all(got.get_result_times(t) == ref.get_result_times(t) for t in ref.get_result_tags()),
        f"{what}: same evaluation times",
    )
    for tag in tagset:
        a, b = got.get_tagged_results()[tag], ref.get_tagged_results()[tag]
        if len(a) != len(b):
            env.check(False, f"{what}: same number of {tag} results")
            continue
        if tag == "bitstrings":
            env.check(all(dict(x) == dict(y) for x, y in zip(a, b)), f"{what}: same bitstring counts")
        else:
            env.check_eq(
                T.stack([_as_tensor(T, x).reshape(-1) for x in a]),
                T.stack([_as_tensor(T, y).reshape(-1) for y in b]),
                f"{what}: same {tag} values",
            )


TAGSETS = [("bitstrings", "occupation", "correlation_matrix", "energy"), ("energy",), ("occupation",)]


def resume_equals_uninterrupted(n, classes, j_max, with_lists, tagsets=TAGSETS):
    ids = IDS3[:n]

    def fn(env):
        T = env.torch
        mi = env.mod("emu_mps.mps_backend_impl")
        mb = env.mod("emu_mps.mps_backend")
        mc = env.mod("emu_mps.mps_config")

        cls_name = env.choice("implementation", classes)
        perm = env.choice("qubit_permutation", list(itertools.permutations(range(n))))
        optimize = env.boolean("optimize_qubit_ordering")
        tagset = env.choice("observables", list(tagsets))
        j_left = env.choice("remaining steps", list(range(0, j_max + 1)))
        k_done = 1
        bitkey = env.choice("sampled bitstring", BITKEYS[n]) if "bitstrings" in tagset else None
        as_lists = env.boolean("vector results stored as lists") if with_lists else False
        autosave_dt = env.real("autosave_dt", lo=10.0, hi=1000.0)
        env.assume(autosave_dt > 10.0, "autosave_dt > 10 s (enforced by MPSConfig)")
        t_resume0 = env.real("clock_at_resume", lo=0.0, hi=1.0e6)

        cm = _quiet()
        try:
            cfg = mc.MPSConfig(observables=_observables(tagset), optimize_qubit_ordering=optimize, autosave_dt=autosave_dt)
        finally:
            cm.__exit__(None, None, None)
        if not optimize:
            # without reordering the backend works in register order
            perm = tuple(range(n))

        fs = FS({RESUME_FILE: complete("snap0")})
        patch = Patch()
        try:
            saved = {}
            counter = [0]

            def version_of(obj):
                counter[0] += 1
                tok = f"snap{counter[0]}"
                saved[tok] = obj
                return tok

            pk = FakePickle(fs, version_of, lambda tok: saved[tok])
            for m in (mi, mb):
                patch.set(m, "os", FakeOS(fs))
                patch.set(m, "open", fs.open)
                patch.set(m, "pickle", pk)
            patch.set(mb, "init_logging", lambda *a, **k: NullLogger())

            # --- uninterrupted run from the same implementation state -------------------
            impl_ref = _make_impl(
                env, cls_name, cfg, fs, REF_FILE, n, ids, perm, k_done, j_left, tagset, bitkey, as_lists, t_resume0,
                mutate_last=env.mutant("reference_differs_in_last_step"),
            )
            frozen = _FrozenClock(t_resume0)
            patch.set(mi, "time", frozen)
            patch.set(mb, "time", frozen)
            patch.set(mb, "create_impl", lambda data, config: impl_ref)
            ref = mb.MPSBackend._run_from_sequence_data(object(), cfg)
            if env.mutant("reference_without_unpermute"):
                ref = _make_impl(env, cls_name, cfg, fs, REF_FILE, n, ids, perm, k_done + j_left, 0, tagset, bitkey, as_lists, t_resume0).results
            env.check(not fs.exists(REF_FILE), "uninterrupted run: no autosave file is left behind")
            # absolute reading of "atom order" for the reference: register order, values follow their atoms
            env.check(tuple(ref.atom_order) == tuple(ids), "uninterrupted run: results are reported in register order")
            if "occupation" in tagset:
                internal_ids = tuple(ids[p] for p in perm)
                last = _as_tensor(T, ref.get_tagged_results()["occupation"][-1])
                raw = env.tensor_real(f"occ_t{k_done + j_left}", (n,))
                by_atom = {internal_ids[i]: raw[i] for i in range(n)}
                env.check_eq(last, T.stack([by_atom[a] for a in ref.atom_order]), "uninterrupted run: occupation follows the reported atom order")

            # --- resumed run ---------------------------------------------------------------
            # the snapshot remembers the path it was written to; the user may have moved/renamed the file since
            moved = env.boolean("autosave file moved before resuming")
            stored_name = MOVED_FROM if moved else RESUME_FILE
            impl_res = _make_impl(env, cls_name, cfg, fs, stored_name, n, ids, perm, k_done, j_left, tagset, bitkey, as_lists, None)
            saved["snap0"] = impl_res
            clock = FakeTime(env, t_resume0)
            patch.set(mi, "time", clock)
            patch.set(mb, "time", clock)
            got = mb.MPSBackend.resume(FakePath(fs, RESUME_FILE))
            env.check(isinstance(got, type(ref)), "resume returns a Results object")
            _compare(env, got, ref, tagset, "resumed vs uninterrupted run")
            gone = not fs.exists(RESUME_FILE)
            if env.mutant("file_must_remain"):
                gone = not gone
            env.check(gone, "the autosave file is removed when the resumed run finishes")
            env.check(
                not fs.exists(MOVED_FROM) and not fs.exists(FakePath(fs, MOVED_FROM).with_suffix(".new")),
                "the resumed run writes nothing at the location the snapshot was originally saved to",
            )
            env.check(
                not fs.exists(FakePath(fs, RESUME_FILE).with_suffix(".bak")) and not fs.exists(FakePath(fs, RESUME_FILE).with_suffix(".new")),
                "no .bak/.new side files are left behind by the resumed run",
            )
            env.check(impl_res._timestep_index == impl_res.timestep_count, "the resumed run performs exactly the remaining steps")
        finally:
            patch.restore()

    return fn


# ---------------------------------------------------------------------------
# __getstate__ / __setstate__ field bookkeeping
# ---------------------------------------------------------------------------
def _sequence_data(env, lindblad):
    T = env.torch
    eb = env.mod("emu_base")
    n, steps = 2, 2
    U = T.tensor([[0.0, 1.5], [1.5, 0.0]], dtype=T.float64)
    ops = [T.tensor([[0.0, 0.3], [0.0, 0.0]], dtype=T.complex128)] if lindblad else []
    return eb.SequenceData(
        # atom-dependent drives: whether they sit in register or in site order matters
        omega=T.tensor([[1.0, 2.0], [3.0, 4.0]], dtype=T.complex128),
        delta=T.tensor([[0.5, -0.5], [0.25, 0.75]], dtype=T.complex128),
        phi=T.tensor([[0.0, 0.125], [0.375, 0.0]], dtype=T.complex128),
        interaction_matrix=lambda t: U,
        qubit_ids=("q0", "q1"),
        bad_atoms=(False, False),
        lindblad_ops=ops,
        state_prep_error=0.0,
        target_times=[0.0, 10.0, 20.0],
        eigenstates=["r", "g"],
        hamiltonian_type=eb.HamiltonianType.Rydberg,
    )


PROGRESS_FIELDS = ["current_time", "target_time", "_timestep_index", "_sweep_index", "_swipe_direction", "last_save_time", "timestep_count", "qubit_count"]


def pickled_fields(env):
    T = env.torch
    mi = env.mod("emu_mps.mps_backend_impl")
    mc = env.mod("emu_mps.mps_config")
    cci = env.mod("emu_mps.custom_callback_implementations")
    import pulser.backend as pb

    cls_name = env.choice("implementation", ["MPSBackendImpl", "NoisyMPSBackendImpl", "DMRGBackendImpl"])
    progressed = env.boolean("some progress made before the autosave")
    precision = env.real("precision", lo=1.0e-10, hi=1.0e-2)
    extra = env.real("extra_krylov_tolerance", lo=1.0e-6, hi=1.0)
    autosave_dt = env.real("autosave_dt", lo=10.0, hi=1000.0)
    env.assume(autosave_dt > 10.0, "autosave_dt > 10 s (enforced by MPSConfig)")
    tagset = ("bitstrings", "occupation", "correlation_matrix", "energy")
    # with reordering on the solver's Results live in SITE order (here the swap of the two atoms): the restored
    # solver must keep that order, permute_results maps it back at the very end of the (resumed) run
    reorder = env.boolean("optimize_qubit_ordering (site order = swapped register order)")
    cm = _quiet()
    old_stats = mi.Statistics
    mi.Statistics = _FakeStatistics  # cannot be constructed with pulser-core 1.9.1 (see C33); logging collaborator
    old_minbw = mi.optimat.minimize_bandwidth
    mi.optimat.minimize_bandwidth = lambda m, *a, **k: T.tensor([1, 0])  # (the optimiser itself is C32's subject)
    try:
        cfg = mc.MPSConfig(
            observables=_observables(tagset),
            optimize_qubit_ordering=reorder,
            precision=precision,
            extra_krylov_tolerance=extra,
            autosave_dt=autosave_dt,
            solver="dmrg" if cls_name == "DMRGBackendImpl" else "tdvp",
        )
        data = _sequence_data(env, cls_name == "NoisyMPSBackendImpl")
        impl = mi.create_impl(data, cfg)
        env.check(type(impl).__name__ == cls_name, "create_impl builds the requested implementation")
        impl.init_dark_qubits()  # (as init() does before the first autosave can happen: the dark-atom mask exists)
        impl.state = types.SimpleNamespace(factors=[], config=cfg)
        if progressed:
            impl.current_time = env.real("current_time", lo=0.0, hi=20.0)
            impl.target_time = env.real("target_time", lo=0.0, hi=20.0)
            impl._timestep_index = 1
            impl._sweep_index = 1
            impl._swipe_direction = mi.SwipeDirection.RIGHT_TO_LEFT
            impl.last_save_time = env.real("last_save_time", lo=0.0, hi=1.0e6)
        _store_step(env, impl, 0, 2, 2, tagset, "10", False)
        if progressed:
            _store_step(env, impl, 1, 2, 2, tagset, "10", False)
        keys_before = set(impl.__dict__)
        cfg_before, results_before = impl.config, impl.results
        d = impl.__getstate__()
        # (no clause on WHAT is pickled: an implementation may drop derivable attributes and rebuild them on
        # load; what resume needs is that the restored solver has every attribute with the same value - below)
        env.check(
            impl.config is cfg_before and impl.results is results_before and set(impl.__dict__) == keys_before,
            "__getstate__ leaves the running implementation's own attributes in place",
        )
        new = object.__new__(type(impl))
        new.__setstate__(dict(d))
        drop = "_timestep_index" if env.mutant("forget_timestep_index") else None
        for name in PROGRESS_FIELDS:
            want = getattr(impl, name)
            have = getattr(new, name) if name != drop else 0
            if isinstance(want, (int, str, bool)) or want is None or hasattr(want, "name"):
                env.check(have == want, f"restored implementation has the same {name}")
            else:
                env.check_eq(have, want, f"restored implementation has the same {name}")
        # every attribute of the running solver comes back, tensors with the same values (the per-atom drives
        # are held in SITE order: a restore that rebuilds them must permute them again)
        missing = sorted(k for k in keys_before if k not in new.__dict__)
        env.check(not missing, f"the restored solver has every attribute of the running one (missing: {missing})")
        for name in sorted(keys_before - {"config", "results", "state", "statistics"} - set(PROGRESS_FIELDS)):
            want = impl.__dict__[name]
            have = new.__dict__.get(name, ABSENT)
            if have is ABSENT:
                continue
            if hasattr(want, "shape") and hasattr(want, "dtype"):
                env.check_eq(have, want, f"restored solver: tensor attribute `{name}` has the same values")
            elif isinstance(want, (int, float, str, bool, tuple)) or want is None:
                env.check(have == want, f"restored solver: attribute `{name}` has the same value")
        env.check(isinstance(new.results, pb.Results), "restored results are a Results object")
        want_order = ("q1", "q0") if reorder else ("q0", "q1")
        env.check(tuple(str(a) for a in new.results.atom_order) == want_order, "restored results keep the solver's site order (un-permuted only at the end of the run)")
        _compare(env, new.results, impl.results, tagset, "restored vs saved results")
        nc = new.config
        env.check(type(nc) is type(cfg) and nc is not cfg, "restored config is a fresh MPSConfig")
        for opt in ("dt", "max_bond_dim", "max_krylov_dim", "optimize_qubit_ordering", "interaction_cutoff", "autosave_prefix", "solver", "num_gpus_to_use"):
            env.check(getattr(nc, opt) == getattr(cfg, opt), f"restored config has the same {opt}")
        env.check_eq(nc.precision, cfg.precision, "restored config has the same precision")
        env.check_eq(nc.autosave_dt, cfg.autosave_dt, "restored config has the same autosave_dt")
        env.check_eq(
            nc.extra_krylov_tolerance,
            cfg.extra_krylov_tolerance,
            "restored config has the same effective extra_krylov_tolerance (safeguard is idempotent)",
        )
        env.check(
            [o.tag for o in nc.observables] == [o.tag for o in cfg.observables]
            and [o.uuid for o in nc.observables] == [o.uuid for o in cfg.observables],
            "restored config has the same observables (tags, uuids, order)",
        )
        impl_of = {
            "occupation": cci.qubit_occupation_mps_impl,
            "correlation_matrix": cci.correlation_matrix_mps_impl,
            "energy": cci.energy_mps_impl,
        }
        env.check(
            all(getattr(o.apply, "__func__", None) is impl_of[o.tag] for o in nc.observables if o.tag in impl_of),
            "restored observables are bound to the emu-mps implementations again",
        )
        env.check(
            all(getattr(o.apply, "__func__", None) is impl_of[o.tag] for o in cfg.observables if o.tag in impl_of),
            "the running configuration's observables stay bound to the emu-mps implementations",
        )
    finally:
        mi.Statistics = old_stats
        mi.optimat.minimize_bandwidth = old_minbw
        cm.__exit__(None, None, None)


# ---------------------------------------------------------------------------
# every snapshot that save_simulation can write is a state from which progress()
# continues exactly like the uninterrupted run
# ---------------------------------------------------------------------------
COVERS_SWEEP = [
    ("emu_mps/mps_backend_impl.py", "MPSBackendImpl.progress"),
    ("emu_mps/mps_backend_impl.py", "MPSBackendImpl._left_to_right_update_tdvp"),
    ("emu_mps/mps_backend_impl.py", "MPSBackendImpl._right_to_left_update_tdvp"),
    ("emu_mps/mps_backend_impl.py", "MPSBackendImpl.sweep_complete"),
    ("emu_mps/mps_backend_impl.py", "MPSBackendImpl.timestep_complete"),
    ("emu_mps/mps_backend_impl.py", "MPSBackendImpl.save_simulation"),
    ("emu_mps/mps_backend_impl.py", "DMRGBackendImpl.progress"),
    ("emu_mps/mps_backend_impl.py", "DMRGBackendImpl._left_to_right_update"),
    ("emu_mps/mps_backend_impl.py", "DMRGBackendImpl._right_to_left_update"),
    ("emu_mps/mps_backend_impl.py", "DMRGBackendImpl.sweep_complete"),
]


class _Tok:
    """stands for a tensor the sweep logic only moves around."""

    device = "cpu"

    def __init__(self, name):
        self.name = name

    def to(self, *a, **k):
        return self

    def __repr__(self):
        return self.name


class _SweepState:
    def __init__(self, n, trace):
        self.factors = [_Tok(f"A{i}") for i in range(n)]
        self.orthogonality_center = 0
        self.trace = trace

    def orthogonalize(self, k):
        self.trace.append(("orthogonalize", k))
        self.orthogonality_center = k
        return k


def _attach(env, impl, trace, clock_mod):
    """numerical leaves of the sweep become trace entries; everything that decides *what* is
    evolved next (progress, the sweep updates, sweep/timestep completion, save_simulation) is real."""
    T = env.torch
    n = impl.qubit_count

    def evolve(*indices, dt, orth_center_right=None):
        trace.append(("evolve", tuple(indices), round(float(dt), 9), orth_center_right, len(impl.left_baths), len(impl.right_baths), impl._timestep_index))
        if len(indices) == 2:
            impl.state.orthogonality_center = indices[1] if orth_center_right else indices[0]

    def fill_results():
        trace.append(("fill_results", impl._timestep_index, round(float(impl.current_time), 9)))

    def update_H():
        trace.append(("update_H", impl._timestep_index, round(float(impl.target_time), 9)))

    def init_baths():
        trace.append(("init_baths", impl._timestep_index))
        impl.left_baths = [_Tok("L0")]
        impl.right_baths = [_Tok(f"R{i}") for i in range(n - 1)]

    impl._evolve = evolve
    impl.fill_results = fill_results
    impl.update_H = update_H
    impl.init_baths = init_baths
    impl._get_interaction_matrix = lambda: T.zeros(n, n, dtype=T.float64)
    impl.statistics = _CallableStats()
    impl.state.trace = trace


class _CallableStats:
    def __init__(self):
        self.data = []

    def __call__(self, *a, **k):
        return None


def _fresh_sweep_impl(env, mi, cls_name, n, steps, autosave_dt, fs, trace):
    T = env.torch
    impl = object.__new__(getattr(mi, cls_name))
    from harness.mpscommon import mps_config

    impl.config = mps_config(autosave_dt=autosave_dt)
    impl.qubit_count = n
    impl.timestep_count = steps
    impl.target_times = [10.0 * k for k in range(steps + 1)]
    impl.current_time, impl.target_time = 0.0, 10.0
    impl._timestep_index = 0
    impl._sweep_index = 0
    impl._swipe_direction = mi.SwipeDirection.LEFT_TO_RIGHT
    impl.has_lindblad_noise = False
    impl.hamiltonian_type, impl.dim, impl.resolved_num_gpus = None, 2, 0
    impl.current_interaction_matrix = T.zeros(n, n, dtype=T.float64)
    impl.hamiltonian = types.SimpleNamespace(factors=[_Tok(f"W{i}") for i in range(n)])
    impl.state = _SweepState(n, trace)
    impl.left_baths = [_Tok("L0")]
    impl.right_baths = [_Tok(f"R{i}") for i in range(n - 1)]
    impl.autosave_file = FakePath(fs, RESUME_FILE)
    impl.last_save_time = 0.0
    impl.time = 0.0
    impl.results = None
    if cls_name == "DMRGBackendImpl":
        impl.previous_energy = None
        impl.current_energy = None
        impl.sweep_count = 0
        impl.energy_tolerance = 1e-5
        impl.max_sweeps = 10
    return impl


def _snapshot(impl, trace):
    d = dict(impl.__dict__)
    d["left_baths"] = list(impl.left_baths)
    d["right_baths"] = list(impl.right_baths)
    st = _SweepState(impl.qubit_count, None)
    st.factors = list(impl.state.factors)
    st.orthogonality_center = impl.state.orthogonality_center
    d["state"] = st
    return d, len(trace)


def snapshot_consistency(n, steps, cls_name):
    def fn(env):
        T = env.torch
        mi = env.mod("emu_mps.mps_backend_impl")
        autosave_dt = env.real("autosave_dt", lo=10.0, hi=1000.0)
        env.assume(autosave_dt > 10.0, "autosave_dt > 10 s (enforced by MPSConfig)")
        fs = FS({})
        patch = Patch()
        snaps = []
        trace = []
        impl = _fresh_sweep_impl(env, mi, cls_name, n, steps, autosave_dt, fs, trace)

        class Pk:
            @staticmethod
            def dump(obj, fh, *a, **k):
                snaps.append(_snapshot(obj, trace))
                fh.put(f"snap{len(snaps)}")

        def min_pair(state_factors, ham_factors, baths, orth_center_right, config, residual_tolerance):
            owner = cur[0]
            owner._trace.append(("minimize", owner._sweep_index, orth_center_right, len(owner.left_baths), len(owner.right_baths), owner._timestep_index))
            # energies: a sweep converges once it repeats the previous sweep's energy
            e = 5.0 if owner.sweep_count >= 1 else 7.0
            return _Tok("newL"), _Tok("newR"), e

        cur = [impl]
        impl._trace = trace
        try:
            clock = FakeTime(env, 0.0, max_step=400.0)
            patch.set(mi, "time", clock)
            patch.set(mi, "os", FakeOS(fs))
            patch.set(mi, "open", fs.open)
            patch.set(mi, "pickle", Pk)
            patch.set(mi, "logging", types.SimpleNamespace(getLogger=lambda *a: NullLogger()))
            patch.set(mi, "new_left_bath", lambda *a, **k: _Tok("L+"))
            patch.set(mi, "new_right_bath", lambda *a, **k: _Tok("R+"))
            patch.set(mi, "deallocate_tensor", lambda *a, **k: None)
            patch.set(mi, "minimize_energy_pair", min_pair)
            _attach(env, impl, trace, clock)
            guard = 0
            while not impl.is_finished():
                impl.progress()
                guard += 1
                if guard > 200:
                    env.fail("uninterrupted run terminates")
                    break
            fills = [e for e in trace if e[0] == "fill_results"]
            env.check([e[1] for e in fills] == list(range(steps)), "uninterrupted run: every time step is completed once, in order")
            # a crash can leave any of the snapshots written so far as the file on disk
            frozen = _FrozenClock(0.0)
            patch.set(mi, "time", frozen)
            for k, (d, pos) in enumerate(snaps):
                t2 = []
                impl2 = object.__new__(type(impl))
                impl2.__dict__.update(d)
                impl2.last_save_time = 1.0e9  # no further autosaves in the resumed run
                impl2._trace = t2
                cur[0] = impl2
                _attach(env, impl2, t2, frozen)
                guard = 0
                while not impl2.is_finished():
                    impl2.progress()
                    guard += 1
                    if guard > 200:
                        break
                rest = trace[pos:]
                if env.mutant("resume_redoes_a_step"):
                    rest = rest[1:]
                env.check(t2 == rest, f"snapshot #{k + 1}: the resumed run performs exactly the evolution steps the uninterrupted run performed after that save")
        finally:
            patch.restore()

    return fn


META = {
    "explanation": (
        "Two stub implementations (object.__new__ of MPSBackendImpl / NoisyMPSBackendImpl / DMRGBackendImpl) are built in the "
        "same state: k completed steps, j remaining, a qubit_permutation chosen by the explorer over all permutations of n <= 3 "
        "atoms, a real pulser Results holding symbolic per-site occupation vectors, correlation matrices, energies and bitstring "
        "counters in internal order, a real MPSConfig with optimize_qubit_ordering on/off. progress() is replaced by 'store the "
        "next symbolic results, advance, call the real save_simulation'. One copy is run through the real "
        "MPSBackend._run_from_sequence_data (create_impl stubbed to return it): the uninterrupted run. The other is 'in the "
        "autosave file': the real MPSBackend.resume is run with is_file/open/pickle.load/os.remove/time stubbed (pickle.load "
        "returns the very object). z3 decides entry-wise equality of all returned values; the explorer covers permutation, "
        "flag, class, observable set, remaining steps and which of the autosaves of the resumed run are due (symbolic clock and "
        "autosave_dt). VCs: same atom order, tags, times and values; autosave file (and side files) absent afterwards. A second "
        "case runs the real __init__, __getstate__ and __setstate__ and checks that every instance attribute is saved, that the "
        "attributes progress() reads come back with the same (symbolic) values or are never-assigned class defaults, that "
        "Results and the re-created MPSConfig agree with the saved ones (including idempotence of the Krylov-tolerance "
        "safeguard on symbolic precision/tolerance) and that the live object is not disturbed. A third family runs the real "
        "progress() state machine (TDVP and DMRG sweeps, sweep_complete, timestep_complete, save_simulation) with the tensor "
        "kernels replaced by trace entries and a symbolic clock deciding which save_simulation calls are due: for every "
        "feasible schedule and every snapshot written, progress() restarted from the snapshot's fields must emit exactly the "
        "trace suffix of the uninterrupted run (no step skipped, repeated or evolved with other bath depths / time steps)."
    ),
    "outside": [
        "byte-level pickle fidelity of the torch-backed MPS/MPO/baths (C serialisation); pickle.load is modelled as returning the saved object",
        "equality of distributions for noisy (Monte-Carlo) runs: the RNG state is not part of the autosave model",
        "the numerical evolution itself (progress is a stub that stores fresh symbolic results); n > 3 atoms, more than 1 (quick) / 3 (thorough) remaining steps",
    ],
    "assumptions": ["the evolution from a given implementation state is deterministic (noiseless run)", "POSIX file system as in C27"],
}


def cases(tier):
    quick = tier == "quick"
    out = []
    all_cls = ["MPSBackendImpl", "NoisyMPSBackendImpl", "DMRGBackendImpl"]
    if quick:
        grid = [(2, all_cls, 1, False, TAGSETS[:2]), (3, ["MPSBackendImpl"], 1, False, TAGSETS[:1])]
    else:
        grid = [(2, all_cls, 3, True, TAGSETS), (3, all_cls, 2, True, TAGSETS)]
    for n, classes, j_max, lists, tagsets in grid:
        out.append(
            Case(
                f"resume_equals_uninterrupted_n{n}",
                resume_equals_uninterrupted(n, classes, j_max, lists, tagsets),
                covers=COVERS,
                bounds={
                    "atoms": n,
                    "qubit_permutation": f"all {len(list(itertools.permutations(range(n))))} permutations",
                    "optimize_qubit_ordering": "True/False",
                    "implementation": classes,
                    "remaining_steps": f"0..{j_max}",
                    "observables": [list(t) for t in tagsets],
                    "vector results as lists": lists,
                },
                canaries=["reference_without_unpermute", "file_must_remain", "reference_differs_in_last_step"],
                conc_samples=4,
                weight=10 * n,
                max_paths=100000,
                deadline_s=800,
            )
        )
    sweeps = [(3, 2, "MPSBackendImpl"), (3, 1, "DMRGBackendImpl")] if quick else [(3, 3, "MPSBackendImpl"), (4, 2, "MPSBackendImpl"), (5, 1, "MPSBackendImpl"), (3, 1, "DMRGBackendImpl"), (4, 1, "DMRGBackendImpl")]
    for n, steps, cls in sweeps:
        out.append(
            Case(
                f"snapshot_consistency_{cls}_n{n}_steps{steps}",
                snapshot_consistency(n, steps, cls),
                covers=COVERS_SWEEP,
                bounds={"atoms": n, "time_steps": steps, "implementation": cls, "autosave schedule": "every subset of save_simulation calls being due (symbolic clock)"},
                canaries=["resume_redoes_a_step"],
                conc_samples=4,
                weight=4**n,
                max_paths=100000,
                deadline_s=1500,
            )
        )
    out.append(
        Case(
            "pickled_fields_roundtrip",
            pickled_fields,
            covers=COVERS_STATE,
            bounds={"implementation": all_cls, "precision": "[1e-10,1e-2]", "extra_krylov_tolerance": "[1e-6,1]", "atoms": 2},
            canaries=["forget_timestep_index"],
            conc_samples=3,
            weight=5,
        )
    )
    return out
