"""C20 — PCHIP interpolation is exact at knots, C1 and shape-preserving."""

from symex.api import Case
from symex.env import b_and, b_or, b_not, b_implies, scalar

PROPERTY = "C20"

COVERS = [
    ("emu_base/math/pchip_torch.py", "PCHIP1D.__init__"),
    ("emu_base/math/pchip_torch.py", "PCHIP1D._validate_xy"),
    ("emu_base/math/pchip_torch.py", "PCHIP1D._interval_index"),
    ("emu_base/math/pchip_torch.py", "PCHIP1D.__call__"),
    ("emu_base/math/pchip_torch.py", "_pchip_derivatives"),
    ("emu_base/math/pchip_torch.py", "_weighted_harmonic_mean"),
    ("emu_base/math/pchip_torch.py", "_endpoint_slope"),
    ("emu_base/math/pchip_torch.py", "_limit_endpoint"),
    ("emu_base/math/pchip_torch.py", "_polynomial_coeffs"),
]


def knots(env, n, uniform):
    """strictly increasing knots x (python scalars) and values y."""
    if uniform:
        xs = [float(k) for k in range(n)]
    else:
        xs = [0.0]
        for k in range(1, n):
            h = env.real(f"h{k}", lo=0.125, hi=4.0)
            xs.append(xs[-1] + h)
    ys = [env.real(f"y{k}") for k in range(n)]
    return xs, ys


def build(env, xs, ys):
    T = env.torch
    pm = env.mod("emu_base.math.pchip_torch")
    x = T.tensor(xs, dtype=T.float64)
    y = T.tensor(ys, dtype=T.float64)
    return pm.PCHIP1D(x, y), x, y


def sign3(T, v):
    one = T.ones_like(v)
    return T.where(v > 0, one, T.where(v < 0, -one, T.zeros_like(v)))


def ref_slopes(env, xs, ys):
    """Fritsch-Carlson / Moler pchip slopes with the standard three-point end
    formula and limiter (as in scipy.interpolate.PchipInterpolator)."""
    T = env.torch
    n = len(xs)
    x = T.tensor(xs, dtype=T.float64)
    y = T.tensor(ys, dtype=T.float64)
    h = x[1:] - x[:-1]
    m = (y[1:] - y[:-1]) / h
    if n == 2:
        return T.stack([m[0], m[0]]), h, m
    ds = []

    def edge(h0, h1, m0, m1):
        d = ((2.0 * h0 + h1) * m0 - h0 * m1) / (h0 + h1)
        if env.mutant("no_end_limiter"):
            return d
        d = T.where(sign3(T, d) != sign3(T, m0), T.zeros_like(d), d)
        cap = (sign3(T, m0) != sign3(T, m1)) & (T.abs(d) > 3.0 * T.abs(m0))
        return T.where(cap, 3.0 * m0, d)

    ds.append(edge(h[0], h[1], m[0], m[1]))
    for k in range(1, n - 1):
        w1 = 2.0 * h[k] + h[k - 1]
        w2 = h[k] + 2.0 * h[k - 1]
        whm = (w1 + w2) / (w1 / m[k - 1] + w2 / m[k])
        same = (m[k - 1] * m[k]) > 0
        ds.append(T.where(same, whm, T.zeros_like(whm)))
    ds.append(edge(h[n - 2], h[n - 3], m[n - 2], m[n - 3]))
    return T.stack(ds), h, m


def at_knots(n, uniform):
    def fn(env):
        T = env.torch
        xs, ys = knots(env, n, uniform)
        p, x, y = build(env, xs, ys)
        got = p(x)
        env.check_eq(got, y, f"P(x_k) = y_k for all knots (n={n})")
        c = p._coeffs  # (n-1, 4)
        h = x[1:] - x[:-1]
        # right end value of each piece
        right = c[:, 0] + h * (c[:, 1] + h * (c[:, 2] + h * c[:, 3]))
        env.check_eq(right, y[1:], "P_k(h_k) = y_{k+1}")
        # C1: derivative at the right end of piece k equals slope of piece k+1
        dright = c[:, 1] + h * (2.0 * c[:, 2] + 3.0 * h * c[:, 3])
        if n > 2:
            env.check_eq(dright[:-1], c[1:, 1], "P_k'(h_k) = P_{k+1}'(0)  (C1)")

    return fn


def shape_lemma(n, uniform):
    """Lemma A (Fritsch-Carlson region) on the slopes the code produced; with
    the Hermite form this implies monotone and in-range on every interval."""

    def fn(env):
        T = env.torch
        xs, ys = knots(env, n, uniform)
        p, x, y = build(env, xs, ys)
        c = p._coeffs
        h = x[1:] - x[:-1]
        d_left = c[:, 1]
        d_right = c[:, 1] + h * (2.0 * c[:, 2] + 3.0 * h * c[:, 3])
        for k in range(n - 1):
            dk = scalar(d_left[k])
            dk1 = scalar(d_right[k])
            hk = scalar(h[k])
            sec = (ys[k + 1] - ys[k]) / hk
            flat = sec == 0
            lim = 3.0 if not env.mutant("tight_region") else 0.5
            ok_flat = b_and(env.eqv(dk, 0.0), env.eqv(dk1, 0.0))
            ok_mono = b_and(
                env.ge(dk * sec, 0.0),
                env.le(dk * sec, lim * sec * sec),
                env.ge(dk1 * sec, 0.0),
                env.le(dk1 * sec, lim * sec * sec),
            )
            env.check(
                b_and(b_implies(flat, ok_flat), b_implies(b_not(flat), ok_mono)),
                f"slopes of interval {k} lie in the monotonicity region [0, 3*secant]",
            )

    return fn


def equals_reference(n, uniform):
    def fn(env):
        T = env.torch
        xs, ys = knots(env, n, uniform)
        p, x, y = build(env, xs, ys)
        d_ref, h, m = ref_slopes(env, xs, ys)
        c = p._coeffs
        env.check_eq(c[:, 0], y[:-1], "p0 = y_k")
        env.check_eq(c[:, 1], d_ref[:-1], "knot slopes = reference PCHIP slopes")
        p2 = (3.0 * m - 2.0 * d_ref[:-1] - d_ref[1:]) / h
        p3 = (d_ref[:-1] + d_ref[1:] - 2.0 * m) / (h * h)
        env.check_eq(c[:, 2], p2, "p2 = reference")
        env.check_eq(c[:, 3], p3, "p3 = reference")

    return fn


def query_routing(n, uniform):
    """A query point anywhere (inside or outside the range) is evaluated with
    the polynomial of its own interval / the end interval."""

    def fn(env):
        T = env.torch
        xs, ys = knots(env, n, uniform)
        p, x, y = build(env, xs, ys)
        xq = env.real("xq", lo=-3.0, hi=float(4 * n + 3))
        got = p(T.tensor([xq], dtype=T.float64))
        # harness-side interval: largest k <= n-2 with x_k <= xq, else 0
        k = 0
        for j in range(1, n - 1):
            if bool(xs[j] <= xq):
                k = j
        if env.mutant("wrong_interval") and n > 2:
            k = (k + 1) % (n - 1)
        c = p._coeffs
        t = xq - xs[k]
        want = c[k, 0] + t * (c[k, 1] + t * (c[k, 2] + t * c[k, 3]))
        env.check_eq(got[0], want, "P(xq) uses the polynomial of the interval containing xq (end pieces outside)")

    return fn


META = {
    "explanation": (
        "PCHIP1D (constructor, slope computation, limiter, coefficient formulas, interval lookup and evaluation) is "
        "executed on symbolic knot values y_k (and symbolic spacings h_k in the non-uniform cases); divisions and "
        "torch.where become fresh atoms with defining axioms, searchsorted forks on the query interval. z3 decides: "
        "interpolation at the knots, C1 continuity from the code's own coefficients, the Fritsch-Carlson monotonicity "
        "region for the code's slopes (Lemma A; with the Hermite form this gives monotone and in-range pieces, Lemma B, "
        "a textbook fact), equality of all coefficients with a reference PCHIP, and routing of arbitrary query points."
    ),
    "outside": [
        "more than 6 knots (a slope depends on two neighbours only: 6 knots contain every local configuration)",
        "non-finite values; floating-point rounding",
        "Lemma B (Hermite cubic with slopes in [0,3*secant] is monotone) is mathematics, not a query",
    ],
    "assumptions": ["knots strictly increasing (validated by the constructor)", "spacings in [1/8, 4] in the non-uniform cases"],
}


def cases(tier):
    out = []
    if tier == "quick":
        grid = [(2, True), (3, True), (4, True), (5, True), (3, False)]
    else:
        grid = [(2, True), (3, True), (4, True), (5, True), (6, True), (7, True), (2, False), (3, False), (4, False), (5, False)]
    for n, uni in grid:
        tag = f"n{n}_{'uniform' if uni else 'nonuniform'}"
        b = {"knots": n, "grid": "uniform" if uni else "symbolic spacings in [1/8,4]"}
        out.append(Case(f"knots_c1_{tag}", at_knots(n, uni), covers=COVERS, bounds=b, weight=n, timeout_ms=60000))
        if n >= 3:
            out.append(
                Case(f"shape_{tag}", shape_lemma(n, uni), covers=COVERS, bounds=b, canaries=["tight_region"], weight=2 * n, timeout_ms=60000)
            )
            out.append(
                Case(
                    f"reference_{tag}",
                    equals_reference(n, uni),
                    covers=COVERS,
                    bounds=b,
                    canaries=["no_end_limiter"],
                    weight=2 * n,
                    timeout_ms=60000,
                )
            )
        out.append(
            Case(f"query_{tag}", query_routing(n, uni), covers=COVERS, bounds=b, canaries=["wrong_interval"] if n > 2 else [], weight=n, timeout_ms=60000)
        )
    return out
