"""C33 — configuration safeguards are always applied.

Engine M: the real MPSConfig.__init__ (through Pulser's real
EmulationConfig.__init__), check_permutable_observables,
monkeypatch_observables, DMRGBackendImpl.__init__ and create_impl run on
symbolic precision / extra_krylov_tolerance / autosave_dt and on symbolic sets
of observables, solvers and noise models.
"""

import itertools
import warnings

from symex.api import Case

PROPERTY = "C33"

COVERS_CFG = [
    ("emu_mps/mps_config.py", "MPSConfig.__init__"),
    ("emu_mps/mps_config.py", "MPSConfig.monkeypatch_observables"),
    ("emu_mps/mps_config.py", "MPSConfig.check_permutable_observables"),
]
COVERS_OBS = COVERS_CFG + [
    ("emu_mps/mps_backend_impl.py", "MPSBackendImpl.permute_results"),
    ("emu_mps/mps_backend_impl.py", "permute_bitstrings"),
    ("emu_mps/mps_backend_impl.py", "permute_occupations_and_correlations"),
    ("emu_mps/mps_backend_impl.py", "permute_atom_order"),
]
COVERS_IMPL = [
    ("emu_mps/mps_backend_impl.py", "DMRGBackendImpl.__init__"),
    ("emu_mps/mps_backend_impl.py", "create_impl"),
    ("emu_mps/mps_backend_impl.py", "MPSBackendImpl.__init__"),
    ("emu_mps/mps_backend_impl.py", "NoisyMPSBackendImpl.__init__"),
    ("emu_mps/mps_config.py", "MPSConfig.__init__"),
]

MIN_TOL = 1.0e-12
MIN_DT = 10


def _quiet():
    cm = warnings.catch_warnings()
    cm.__enter__()
    warnings.simplefilter("ignore")
    return cm


def _ge(env, a, b):
    """a >= b: exact over the reals in sym mode; on floats with a RELATIVE slack of 1e-9 (the
    quantities are of order 1e-12, env.ge's absolute slack would make the check vacuous)."""
    if env.mode == "sym":
        return a >= b
    return a >= b - 1e-9 * abs(b)


def _eq(env, a, b):
    if env.mode == "sym":
        return a == b
    return abs(a - b) <= 1e-9 * max(abs(a), abs(b))


# ---------------------------------------------------------------------------
# 1. Krylov tolerance floor and autosave interval
# ---------------------------------------------------------------------------
def krylov_and_autosave(env):
    T = env.torch
    mc = env.mod("emu_mps.mps_config")
    su = env.mod("emu_mps.solver_utils")
    import pulser.backend as pb

    precision = env.real("precision", lo=1.0e-16, hi=1.0)
    extra = env.real("extra_krylov_tolerance", lo=0.0, hi=10.0)
    env.assume(extra > 0, "extra_krylov_tolerance > 0")
    autosave_dt = env.real("autosave_dt", lo=-100.0, hi=10000.0)
    # the safeguards hold for every configuration: also for the non-default solver, however it is spelled
    Solver = env.mod("emu_mps.solver").Solver
    solver = env.choice("solver", ["default", "tdvp", "dmrg", "Solver.TDVP", "Solver.DMRG"])
    solver_kw = {} if solver == "default" else {"solver": getattr(Solver, solver.split(".")[1]) if "." in solver else solver}
    cm = _quiet()
    try:
        raised = False
        try:
            cfg = mc.MPSConfig(
                precision=precision,
                extra_krylov_tolerance=extra,
                autosave_dt=autosave_dt,
                observables=[pb.BitStrings(evaluation_times=[1.0])],
                **solver_kw,
            )
        except AssertionError:
            raised = True
        dt_min = 20 if env.mutant("dt_threshold_20") else MIN_DT
        if raised:
            env.check(autosave_dt <= dt_min, "a configuration is rejected only if autosave_dt <= 10 s")
            return
        env.check(autosave_dt > dt_min, "autosave_dt <= 10 s is rejected (AssertionError)")
        env.check_eq(cfg.autosave_dt, autosave_dt, "stored autosave_dt is the requested one")
        env.check_eq(cfg.precision, precision, "stored precision is the requested one")
        eff_extra = cfg.extra_krylov_tolerance
        floor = 1.0e-11 if env.mutant("floor_1e-11") else MIN_TOL
        env.check(_ge(env, precision * eff_extra, floor), "effective Krylov tolerance precision*extra' >= 1e-12")
        # extra' = max(extra, 1e-12/precision): never lowered, unchanged when already large enough
        env.check(_ge(env, eff_extra, extra), "extra_krylov_tolerance is never lowered")
        if bool(precision * extra >= MIN_TOL):
            env.check_eq(eff_extra, extra, "extra_krylov_tolerance unchanged when precision*extra >= 1e-12")
        else:
            env.check(_eq(env, precision * eff_extra, MIN_TOL), "adjusted tolerance is exactly the floor 1e-12")
        # F-abs reading of the same computation in float64 (standard model: every operation is followed by
        # *(1+e), |e| <= 2^-53; valid here, no under/overflow for precision in [1e-16,1]): the product
        # fl(precision * fl(1e-12/precision)) can miss the floor by at most one ulp.
        u = 2.0**-53
        e1 = env.real("rounding_e1", lo=-u, hi=u)
        e2 = env.real("rounding_e2", lo=-u, hi=u)
        fl_prod = precision * ((MIN_TOL / precision) * (1 + e1)) * (1 + e2)
        slack = (1 - 2.0**-51) if not env.mutant("fabs_no_ulp") else 1.0
        env.check(_ge(env, fl_prod, MIN_TOL * slack), "F-abs: fl(precision*fl(1e-12/precision)) >= 1e-12*(1-2^-51)")
        # the value that reaches the Lanczos routine (consumer side)
        seen = {}

        def fake_krylov_exp(op, v, **kw):
            seen.update(kw)
            return v

        old = su.krylov_exp
        su.krylov_exp = fake_krylov_exp
        try:
            su.evolve_single(
                state_factor=T.ones(1, 2, 1, dtype=T.complex128),
                baths=(T.ones(1, 1, 1, dtype=T.complex128), T.ones(1, 1, 1, dtype=T.complex128)),
                ham_factor=T.zeros(1, 2, 2, 1, dtype=T.complex128),
                dt=1.0,
                is_hermitian=True,
                config=cfg,
            )
        finally:
            su.krylov_exp = old
        env.check(_ge(env, seen["exp_tolerance"], floor), "exp_tolerance handed to krylov_exp >= 1e-12")
        env.check(_ge(env, seen["norm_tolerance"], floor), "norm_tolerance handed to krylov_exp >= 1e-12")
        # ... and the Lanczos ground-state search the DMRG solver uses
        seen2 = {}

        class _Stop(Exception):
            pass

        def fake_minimization(op, v, **kw):
            seen2.update(kw)
            raise _Stop()

        old2, old3 = su.krylov_energy_minimization, su.deallocate_tensor
        su.krylov_energy_minimization = fake_minimization
        su.deallocate_tensor = lambda t: None  # memory management only
        try:
            su.minimize_energy_pair(
                state_factors=[T.ones(1, 2, 1, dtype=T.complex128), T.ones(1, 2, 1, dtype=T.complex128)],
                baths=(T.ones(1, 1, 1, dtype=T.complex128), T.ones(1, 1, 1, dtype=T.complex128)),
                ham_factors=[T.zeros(1, 2, 2, 1, dtype=T.complex128), T.zeros(1, 2, 2, 1, dtype=T.complex128)],
                orth_center_right=True,
                config=cfg,
                residual_tolerance=cfg.precision,
            )
        except _Stop:
            pass
        finally:
            su.krylov_energy_minimization, su.deallocate_tensor = old2, old3
        env.check(_ge(env, seen2["norm_tolerance"], floor), "norm_tolerance handed to krylov_energy_minimization >= 1e-12")
    finally:
        cm.__exit__(None, None, None)


# ---------------------------------------------------------------------------
# 2. qubit reordering vs. requested observables
# ---------------------------------------------------------------------------
# harness-side knowledge about what an observable's value is
KIND = {
    "bitstrings": "bitstrings",  # Counter of strings, one character per atom
    "occupation": "site_vector",
    "correlation_matrix": "site_matrix",
    "energy": "invariant",  # H is permuted together with the state
    "energy_variance": "invariant",
    "energy_second_moment": "invariant",
    "fidelity": "order_dependent",  # overlap with a user state given in the user's atom order
    "expectation": "order_dependent",  # user operator in the user's atom order
    "state": "order_dependent",  # the MPS itself, in internal order
    "entanglement_entropy": "order_dependent",  # depends on the bipartition of the chain
    "custom": "order_dependent",  # unknown to the backend: cannot be un-permuted
}

OBS_NAMES = [
    "bitstrings",
    "occupation",
    "correlation_matrix",
    "energy",
    "energy_variance",
    "energy_second_moment",
    "fidelity",
    "expectation",
    "state",
    "entanglement_entropy",
    "custom",
    "occupation+suffix",
    "bitstrings+suffix",
    "correlation_matrix+suffix",
]

PERM = [2, 0, 1]  # internal position i holds atom ids[PERM[i]]
IDS = ("qa", "qb", "qc")
N = 3


def _make_observable(env, name):
    import pulser.backend as pb
    from pulser.backend.observable import Observable

    et = [1.0]
    base, _, suf = name.partition("+")
    suffix = "x" if suf else None
    if base == "bitstrings":
        return pb.BitStrings(evaluation_times=et, tag_suffix=suffix)
    if base == "occupation":
        return pb.Occupation(evaluation_times=et, tag_suffix=suffix)
    if base == "correlation_matrix":
        return pb.CorrelationMatrix(evaluation_times=et, tag_suffix=suffix)
    if base == "energy":
        return pb.Energy(evaluation_times=et)
    if base == "energy_variance":
        return pb.EnergyVariance(evaluation_times=et)
    if base == "energy_second_moment":
        return pb.EnergySecondMoment(evaluation_times=et)
    if base == "state":
        return pb.StateResult(evaluation_times=et)
    if base == "fidelity":
        mps = env.mod("emu_mps.mps")
        return pb.Fidelity(mps.MPS.make(N, num_gpus_to_use=0), evaluation_times=et)
    if base == "expectation":
        mpo = env.mod("emu_mps.mpo")
        T = env.torch
        op = mpo.MPO([T.eye(2, dtype=T.complex128).reshape(1, 2, 2, 1) for _ in range(N)], num_gpus_to_use=0)
        return pb.Expectation(op, evaluation_times=et)
    if base == "entanglement_entropy":
        cls = env.mod("emu_mps.observables").EntanglementEntropy
        try:
            return cls(1, evaluation_times=et)
        except TypeError:
            # pulser-core 1.9.1: Observable.__init__ requires default_aggregation_method, which
            # EntanglementEntropy.__init__ does not pass (the class cannot be constructed at all with
            # this pulser; reported as a side finding).  Build the instance field by field instead.
            o = object.__new__(cls)
            Observable.__init__(o, evaluation_times=et, default_aggregation_method=pb.Occupation().default_aggregation_method)
            o.mps_site = 1
            return o
    if base == "custom":

        class MyObservable(Observable):
            def __init__(self, evaluation_times=None):
                super().__init__(evaluation_times=evaluation_times, default_aggregation_method=pb.Occupation().default_aggregation_method)

            @property
            def _base_tag(self):
                return "my_custom_observable"

            def apply(self, **kw):
                return 0.0

        return MyObservable(evaluation_times=et)
    raise KeyError(name)


def _choose_subset(env, max_size):
    chosen = []
    start = 0
    for k in range(max_size):
        opts = [None] + list(range(start, len(OBS_NAMES)))
        pick = env.choice(f"observable #{k}", opts)
        if pick is None:
            break
        chosen.append(OBS_NAMES[pick])
        start = pick + 1
        if start >= len(OBS_NAMES):
            break
    return chosen


def reordering_vs_observables(max_size):
    def fn(env):
        T = env.torch
        mc = env.mod("emu_mps.mps_config")
        mi = env.mod("emu_mps.mps_backend_impl")
        cci = env.mod("emu_mps.custom_callback_implementations")
        import pulser.backend as pb
        from collections import Counter

        names = _choose_subset(env, max_size)
        requested = env.boolean("optimize_qubit_ordering requested")
        cm = _quiet()
        try:
            observables = [_make_observable(env, nm) for nm in names]
            tags_before = [o.tag for o in observables]
            applies_before = [o.apply for o in observables]
            cfg = mc.MPSConfig(observables=observables, optimize_qubit_ordering=requested)
        finally:
            cm.__exit__(None, None, None)
        flag = cfg.optimize_qubit_ordering
        env.check(isinstance(flag, bool) and (requested or not flag), "reordering is never switched on by the configuration")
        kinds = [KIND[nm.partition("+")[0]] for nm in names]
        if env.mutant("entropy_is_fine"):
            kinds = ["invariant" if nm == "entanglement_entropy" else k for nm, k in zip(names, kinds)]
        # documented behaviour: the built-in whitelisted observables keep reordering on
        if requested and all(k != "order_dependent" for k in kinds) and not env.mutant("expect_off"):
            env.check(flag is True, "reordering stays on when only permutable / invariant observables are requested")
        if requested and env.mutant("expect_off"):
            env.check(flag is False, "canary: reordering always off")
        # monkeypatching keeps the observables (same tags, ids, order) and does not touch the user's objects
        got = list(cfg.observables)
        env.check(
            [o.tag for o in got] == tags_before and [o.uuid for o in got] == [o.uuid for o in observables],
            "configured observables = requested observables (tags, uuids, order)",
        )
        env.check(
            all(o.apply == a for o, a in zip(observables, applies_before)) and all(g is not o for g, o in zip(got, observables)),
            "the user's observable objects are not modified (copies are patched)",
        )
        impl_of = {
            pb.Occupation: cci.qubit_occupation_mps_impl,
            pb.CorrelationMatrix: cci.correlation_matrix_mps_impl,
            pb.Energy: cci.energy_mps_impl,
            pb.EnergyVariance: cci.energy_variance_mps_impl,
            pb.EnergySecondMoment: cci.energy_second_moment_mps_impl,
        }
        ok = True
        for o in got:
            want = impl_of.get(type(o))
            if want is not None:
                ok = ok and getattr(o.apply, "__func__", None) is want
            else:
                ok = ok and getattr(o.apply, "__func__", None) is type(o).apply
        env.check(ok, "each observable is bound to its emu-mps implementation (others keep their own apply)")
        if not flag:
            return
        # reordering is on: every requested observable must come back in the user's atom order.
        # Store a value of the right kind under the observable's tag, as the backend does, in INTERNAL order,
        # and run the real permute_results.
        perm = T.tensor(PERM)
        impl = object.__new__(mi.MPSBackendImpl)
        impl.qubit_permutation = perm
        internal_ids = tuple(IDS[PERM[i]] for i in range(N))
        res = pb.Results(atom_order=internal_ids, total_duration=100)
        truth = {}
        for nm, o, kind in zip(names, got, kinds):
            if kind == "site_vector":
                v = env.tensor_real(f"{o.tag}_v", (N,))
                truth[o.tag] = {internal_ids[i]: v[i] for i in range(N)}
                res._store(observable=o, time=1.0, value=v)
            elif kind == "site_matrix":
                m = env.tensor_real(f"{o.tag}_m", (N, N))
                truth[o.tag] = {(internal_ids[i], internal_ids[j]): m[i, j] for i in range(N) for j in range(N)}
                res._store(observable=o, time=1.0, value=m)
            elif kind == "bitstrings":
                bits = env.choice(f"{o.tag} sample", ["100", "010", "001"])  # traces every position
                truth[o.tag] = {internal_ids[i]: bits[i] for i in range(N)}
                res._store(observable=o, time=1.0, value=Counter({bits: 7}))
            elif kind == "invariant":
                e = env.real(f"{o.tag}_e")
                truth[o.tag] = e
                res._store(observable=o, time=1.0, value=T.tensor(e, dtype=T.float64))
            else:
                env.check(False, f"reordering stays on although an observable that cannot be un-permuted was requested")
                return
        out = impl.permute_results(res, flag)
        env.check(tuple(out.atom_order) == IDS, "atom_order of the returned results is the register order")
        order = tuple(out.atom_order)
        for nm, o, kind in zip(names, got, kinds):
            val = out.get_result(o.tag, 1.0)
            lab = f"with reordering on, the '{kind}' result of a whitelisted observable is returned in the reported atom order"
            if kind == "site_vector":
                val = val if hasattr(val, "shape") else T.tensor(val)
                env.check_eq(val, T.stack([truth[o.tag][a] for a in order]), lab)
            elif kind == "site_matrix":
                val = val if hasattr(val, "shape") else T.tensor(val)
                env.check_eq(val, T.stack([T.stack([truth[o.tag][(a, b)] for b in order]) for a in order]), lab)
            elif kind == "bitstrings":
                want = "".join(truth[o.tag][a] for a in order)
                env.check(dict(val) == {want: 7}, lab)
            elif kind == "invariant":
                env.check_eq(val, truth[o.tag], lab)

    return fn


# ---------------------------------------------------------------------------
# 3. DMRG refuses noise; create_impl dispatch
# ---------------------------------------------------------------------------
NOISES = {
    "none": {},
    "relaxation": dict(relaxation_rate=0.1),
    "dephasing": dict(dephasing_rate=0.1, hyperfine_dephasing_rate=0.0),
    "depolarizing": dict(depolarizing_rate=0.1),
    "eff_noise": "eff",
    "SPAM:p_false_pos": dict(p_false_pos=0.1),
    "SPAM:p_false_neg": dict(p_false_neg=0.1),
    "SPAM:state_prep_error": dict(state_prep_error=0.1),
    "doppler": dict(temperature=50.0),
    "amplitude": dict(amp_sigma=0.1),
    "detuning": dict(detuning_sigma=0.1),
    "relaxation+dephasing": dict(relaxation_rate=0.1, dephasing_rate=0.2, hyperfine_dephasing_rate=0.0),
    "relaxation+SPAM": dict(relaxation_rate=0.1, p_false_pos=0.1),
}


def _noise_model(name):
    import numpy as np
    from pulser.noise_model import NoiseModel

    kw = NOISES[name]
    if kw == "eff":
        kw = dict(eff_noise_rates=(0.1,), eff_noise_opers=(np.array([[0.0, 1.0], [0.0, 0.0]]),))
    return NoiseModel(**kw)


def _sequence_data(env, noise_model, with_lindblad):
    T = env.torch
    eb = env.mod("emu_base")
    pa = env.mod("emu_base.pulser_adapter")
    n, steps = 2, 2
    U = T.tensor([[0.0, 1.5], [1.5, 0.0]], dtype=T.float64)
    lind = pa._get_all_lindblad_noise_operators(noise_model, dim=2, interact_type="ising") if with_lindblad else []
    return eb.SequenceData(
        omega=T.zeros(steps, n, dtype=T.complex128),
        delta=T.zeros(steps, n, dtype=T.complex128),
        phi=T.zeros(steps, n, dtype=T.complex128),
        interaction_matrix=lambda t: U,
        qubit_ids=("q0", "q1"),
        bad_atoms=(False, False),
        lindblad_ops=lind,
        state_prep_error=noise_model.state_prep_error,
        target_times=[0.0, 10.0, 20.0],
        eigenstates=["r", "g"],
        hamiltonian_type=eb.HamiltonianType.Rydberg,
    )


class _FakeStatistics:
    def __init__(self, evaluation_times=None, data=None, timestep_count=0):
        self.evaluation_times, self.data, self.timestep_count = evaluation_times, data, timestep_count


def solver_vs_noise(noise_names):
    def fn(env):
        mc = env.mod("emu_mps.mps_config")
        mi = env.mod("emu_mps.mps_backend_impl")
        Solver = env.mod("emu_mps.solver").Solver
        import pulser.backend as pb

        noise = env.choice("noise model", noise_names)
        solver = env.choice("solver", ["tdvp", "dmrg"])
        solver_as_enum = env.boolean("solver given as enum")
        nm = _noise_model(noise)
        cm = _quiet()
        # pulser-core 1.9.1 cannot construct the repo's Statistics observable (its __init__ does not pass the now
        # mandatory default_aggregation_method); it is a logging collaborator here and is stubbed.
        old_stats = mi.Statistics
        mi.Statistics = _FakeStatistics
        try:
            cfg = mc.MPSConfig(
                observables=[pb.BitStrings(evaluation_times=[1.0])],
                noise_model=nm,
                solver=(Solver(solver) if solver_as_enum else solver),
                optimize_qubit_ordering=False,  # minimize_bandwidth (RNG) is C32's subject
            )
            data = _sequence_data(env, nm, True)
            has_noise = nm.noise_types != ()
            if env.mutant("spam_is_no_noise") and noise.startswith("SPAM"):
                has_noise = False
            has_lindblad = len(data.lindblad_ops) > 0
            # direct construction of the DMRG implementation
            try:
                d = mi.DMRGBackendImpl(cfg, data)
                dm = "built"
            except NotImplementedError:
                dm = "refused"
            env.check(dm == ("refused" if has_noise else "built"), "DMRGBackendImpl refuses exactly the noise models with noise")
            # dispatch
            try:
                impl = mi.create_impl(data, cfg)
                kind = type(impl).__name__
            except NotImplementedError:
                kind = "refused"
            if solver == "dmrg":
                want = "refused" if has_noise else "DMRGBackendImpl"
                if env.mutant("dmrg_never_refuses"):
                    want = "DMRGBackendImpl"
                env.check(kind == want, "solver=DMRG: create_impl returns the DMRG implementation, or refuses a noise model with noise")
            else:
                want = "NoisyMPSBackendImpl" if has_lindblad else "MPSBackendImpl"
                env.check(kind == want, "solver=TDVP: create_impl returns the noisy implementation iff there are Lindblad operators")
        finally:
            mi.Statistics = old_stats
            cm.__exit__(None, None, None)

    return fn


META = {
    "explanation": (
        "The real MPSConfig.__init__ is executed through Pulser's real EmulationConfig.__init__ (symbolic scalars survive its "
        "validation) with symbolic reals precision in [1e-16,1], extra_krylov_tolerance in (0,10], autosave_dt in [-100,1e4]; the "
        "explorer forks on the assertion and on prod_tol < 1e-12, the division 1e-12/precision becomes an atom q with "
        "q*precision = 1e-12, and z3 decides: rejected iff autosave_dt <= 10; precision*extra' >= 1e-12 (also for the value that "
        "evolve_single hands to krylov_exp, recorded by a stub in emu_mps.solver_utils); extra' = max(extra, 1e-12/precision). "
        "READING of 'at least 1e-12': exact over the reals. The code computes extra' = 1e-12/precision, so precision*extra' is "
        "exactly 1e-12 over the reals; in float64 the product can round one ulp below 1e-12 (>= 1e-12*(1-2^-51)); the check does "
        "not alarm on that ulp (concrete runs use a relative slack of 1e-9). "
        "Observable sets: the explorer enumerates subsets (size bound per tier) of the exported observable classes, a custom "
        "observable and tag-suffixed variants; for each, the real constructor decides optimize_qubit_ordering; when it stays True "
        "a value of the observable's kind (symbolic per-site vector / matrix, symbolic bitstring, scalar) is stored under the "
        "observable's own tag in internal order and the real MPSBackendImpl.permute_results must return it in the reported atom "
        "order (z3 decides the entry-wise equalities) - so the whitelist is compared with what permute_results really un-permutes. "
        "Solver/noise: the explorer enumerates solver x noise model (each Pulser noise type of the 2-level model, and mixtures); "
        "the real DMRGBackendImpl.__init__ and create_impl run on a real SequenceData whose lindblad_ops come from the real "
        "_get_all_lindblad_noise_operators."
    ),
    "outside": [
        "float64 rounding of precision*(1e-12/precision) (one ulp, stated above); precision <= 0 or non-finite inputs",
        "observable subsets larger than the tier's size bound (the decision is a set difference: per-observable)",
        "leakage / register / dmm noise types (need 3-level operators or a trap/DMM device description); noise parameters other than the sample values",
        "whether energy-type observables are numerically invariant under the reordering (physics: H is permuted with the state; decided under C32/C23)",
    ],
    "assumptions": [
        "precision > 0, extra_krylov_tolerance > 0",
        "an observable kind unknown to the backend (custom tag), Fidelity, Expectation, StateResult and EntanglementEntropy cannot be un-permuted by permute_results",
    ],
}


def cases(tier):
    quick = tier == "quick"
    out = [
        Case(
            "krylov_floor_and_autosave_dt",
            krylov_and_autosave,
            covers=COVERS_CFG + [("emu_mps/solver_utils.py", "evolve_single")],
            bounds={"precision": "[1e-16, 1]", "extra_krylov_tolerance": "(0, 10]", "autosave_dt": "[-100, 1e4]"},
            canaries=["dt_threshold_20", "floor_1e-11", "fabs_no_ulp"],
            conc_samples=4,
        )
    ]
    size = 2 if quick else 3
    out.append(
        Case(
            f"reordering_vs_observables_upto{size}",
            reordering_vs_observables(size),
            covers=COVERS_OBS,
            bounds={
                "observables": f"every subset of size <= {size} of {OBS_NAMES}",
                "optimize_qubit_ordering": "True/False",
                "permute_results": "3 atoms, internal order (2,0,1), symbolic per-site values and bitstrings",
            },
            canaries=["entropy_is_fine", "expect_off"],
            conc_samples=6,
            weight=10,
            max_paths=200000,
            deadline_s=800,
        )
    )
    groups = [list(NOISES)] if quick else [list(NOISES)]
    for g in groups:
        out.append(
            Case(
                "dmrg_refuses_noise_and_create_impl",
                solver_vs_noise(g),
                covers=COVERS_IMPL,
                bounds={"noise": list(g), "solver": "tdvp/dmrg as string or enum", "qubits": 2},
                canaries=["spam_is_no_noise", "dmrg_never_refuses"],
                conc_samples=6,
                weight=5,
            )
        )
    return out
