"""C13 — every reported observable equals its definition on the current state
(decidable part: emu-sv observables on state vectors and density matrices, MPS
energy, normalisation and dark-atom padding before the callbacks)."""

import itertools
import uuid
from types import SimpleNamespace

from symex.api import Case
from symex import refs
from symex.env import b_and, b_or, b_not, b_implies, scalar
from harness.c06 import hermitian, _params

PROPERTY = "C13"

COVERS_SV = [
    ("emu_sv/custom_callback_implementations.py", "qubit_occupation_sv_impl"),
    ("emu_sv/custom_callback_implementations.py", "qubit_occupation_sv_den_mat_impl"),
    ("emu_sv/custom_callback_implementations.py", "correlation_matrix_sv_impl"),
    ("emu_sv/custom_callback_implementations.py", "correlation_matrix_sv_den_mat_impl"),
    ("emu_sv/custom_callback_implementations.py", "energy_variance_sv_impl"),
    ("emu_sv/custom_callback_implementations.py", "energy_variance_sv_den_mat_impl"),
    ("emu_sv/custom_callback_implementations.py", "energy_second_moment_sv_impl"),
    ("emu_sv/custom_callback_implementations.py", "energy_second_moment_den_mat_impl"),
    ("emu_sv/utils.py", "choose"),
    ("emu_sv/hamiltonian.py", "RydbergHamiltonian.expect"),
    ("emu_sv/lindblad_operator.py", "RydbergLindbladian.expect"),
    ("emu_sv/lindblad_operator.py", "RydbergLindbladian.h_eff"),
]
COVERS_MPS = [
    ("emu_mps/custom_callback_implementations.py", "energy_mps_impl"),
    ("emu_mps/mpo.py", "MPO.expect"),
    ("emu_mps/mps_backend_impl.py", "MPSBackendImpl.fill_results"),
    ("emu_mps/utils.py", "extended_mps_factors"),
    ("emu_mps/utils.py", "extended_mpo_factors"),
    ("emu_mps/utils.py", "get_extended_site_index"),
]


def sv_observables(n, normalised):
    def fn(env):
        T = env.torch
        cb = env.mod("emu_sv.custom_callback_implementations")
        hs = env.mod("emu_sv.hamiltonian")
        svs = env.mod("emu_sv.state_vector")
        util = env.mod("emu_sv.utils")
        psi = env.tensor_cplx("psi", (2**n,))
        if normalised:
            env.assume(env.eqv(scalar(T.vdot(psi, psi).real), 1.0), "state vector normalised")
        st = svs.StateVector(psi, gpu=False)
        before = psi.clone()
        omega, delta, phi, U = _params(env, n, True)
        ham = hs.RydbergHamiltonian(omegas=omega, deltas=delta, phis=phi, interaction_matrix=U, device="cpu")
        H = refs.dense_rydberg(T, omega, delta, phi, U, n)
        nn = refs.n_op(T)
        kw = dict(config=None, state=st, hamiltonian=ham)
        occ = util.choose(cb.qubit_occupation_sv_impl, cb.qubit_occupation_sv_den_mat_impl)(None, **kw)
        corr = util.choose(cb.correlation_matrix_sv_impl, cb.correlation_matrix_sv_den_mat_impl)(None, **kw)
        var = util.choose(cb.energy_variance_sv_impl, cb.energy_variance_sv_den_mat_impl)(None, **kw)
        m2 = util.choose(cb.energy_second_moment_sv_impl, cb.energy_second_moment_den_mat_impl)(None, **kw)
        shift = 1 if env.mutant("shifted_site") else 0
        for i in range(n):
            ni = refs.embed(T, nn, (i + shift) % n, n)
            env.check_eq(occ[i], T.vdot(psi, ni @ psi).real, f"occupation[{i}] = <psi|n_{i}|psi>")
            for j in range(n):
                nij = ni @ refs.embed(T, nn, j, n)
                env.check_eq(corr[i, j], T.vdot(psi, nij @ psi).real, f"correlation[{i},{j}] = <psi|n_{i} n_{j}|psi>")
            if normalised:
                o = scalar(occ[i])
                env.check(b_and(o >= 0.0, o <= 1.0), f"occupation[{i}] in [0,1] for a normalised state")
                for j in range(n):
                    c = scalar(corr[i, j])
                    env.check(b_and(c >= 0.0, c <= 1.0), f"correlation[{i},{j}] in [0,1] for a normalised state")
        Hpsi = H @ psi
        e = T.vdot(psi, Hpsi).real
        e2 = T.vdot(Hpsi, Hpsi).real
        env.check_eq(m2, e2, "energy second moment = <psi|H^2|psi>")
        env.check_eq(var, e2 - e * e, "energy variance = <H^2> - <H>^2")
        env.check_eq(st.data, before, "observables leave the state unchanged")

    return fn


def dm_observables(n, n_ops):
    def fn(env):
        T = env.torch
        cb = env.mod("emu_sv.custom_callback_implementations")
        lm = env.mod("emu_sv.lindblad_operator")
        dms = env.mod("emu_sv.density_matrix_state")
        util = env.mod("emu_sv.utils")
        rho = hermitian(env, "rho", 2**n)
        st = dms.DensityMatrix(rho, gpu=False)
        before = rho.clone()
        omega, delta, phi, U = _params(env, n, True)
        Ls = [env.tensor_cplx(f"L{k}", (2, 2)) for k in range(n_ops)]
        lind = lm.RydbergLindbladian(omegas=omega, deltas=delta, phis=phi, pulser_lindblads=Ls, interaction_matrix=U, device="cpu")
        H = refs.dense_rydberg(T, omega, delta, phi, U, n)
        nn = refs.n_op(T)
        kw = dict(config=None, state=st, hamiltonian=lind)
        occ = util.choose(cb.qubit_occupation_sv_impl, cb.qubit_occupation_sv_den_mat_impl)(None, **kw)
        corr = util.choose(cb.correlation_matrix_sv_impl, cb.correlation_matrix_sv_den_mat_impl)(None, **kw)
        shift = 1 if env.mutant("shifted_site") else 0
        for i in range(n):
            ni = refs.embed(T, nn, (i + shift) % n, n)
            env.check_eq(occ[i], (rho @ ni).trace().real, f"occupation[{i}] = tr(rho n_{i})")
            for j in range(n):
                nij = ni @ refs.embed(T, nn, j, n)
                env.check_eq(corr[i, j], (rho @ nij).trace().real, f"correlation[{i},{j}] = tr(rho n_{i} n_{j})")
        try:
            var = util.choose(cb.energy_variance_sv_impl, cb.energy_variance_sv_den_mat_impl)(None, **kw)
            m2 = util.choose(cb.energy_second_moment_sv_impl, cb.energy_second_moment_den_mat_impl)(None, **kw)
        except AssertionError:
            var = m2 = None  # the code's own sanity assertion on a real expectation value
        if m2 is not None:
            e = (H @ rho).trace().real
            e2 = (H @ H @ rho).trace().real
            env.check_eq(m2, e2, "energy second moment = tr(rho H^2)")
            env.check_eq(var, e2 - e * e, "energy variance = tr(rho H^2) - tr(rho H)^2")
        env.check_eq(st.data, before, "observables leave the state unchanged")
        # diagonal of a PSD trace-one matrix: occupations in range
        d = [scalar(rho[k, k].real) for k in range(2**n)]
        psd_diag = b_and(*[x >= 0.0 for x in d])
        tr1 = env.eqv(sum(d[1:], d[0]), 1.0)
        for i in range(n):
            o = scalar(occ[i])
            env.check(b_implies(b_and(psd_diag, tr1), b_and(o >= 0.0, o <= 1.0)), f"occupation[{i}] in [0,1] for a trace-one matrix with non-negative diagonal")

    return fn


class FakeConfig:
    # every other MPSConfig / SVConfig option, so that code reading one of them does not trip over the stub
    dt = 7.0
    precision = 1e-5
    max_bond_dim = 1024
    max_krylov_dim = 100
    extra_krylov_tolerance = 1e-3
    krylov_tolerance = 1e-8
    num_gpus_to_use = 0
    gpu = False
    optimize_qubit_ordering = False
    interaction_cutoff = 0.0
    log_level = 20
    log_file = None
    autosave_prefix = "verif_"
    autosave_dt = float("inf")
    solver = "tdvp"
    initial_state = None
    with_modulation = False
    n_trajectories = 1
    interaction_matrix = None
    prefer_device_noise_model = False
    def __init__(self, observables, default_times):
        self.observables = observables
        self.default_evaluation_times = default_times

    @staticmethod
    def is_time_in_evaluation_times(t, evaluation_times, tol=1e-6):
        return bool(b_and(t >= 0.0, t <= 1.0, b_or(*[abs(e - t) <= tol for e in evaluation_times])))

    def is_evaluation_time(self, t, tol=1e-6):
        return self.is_time_in_evaluation_times(t, self.default_evaluation_times, tol=tol)


def probe_observable():
    import pulser.backend.observable as po

    seen = {}

    class Probe(po.Observable):
        @property
        def _base_tag(self):
            return "probe"

        def apply(self, *, config, state, hamiltonian, **kw):
            seen["state"] = state
            seen["hamiltonian"] = hamiltonian
            return 0

    o = object.__new__(Probe)
    o._uuid = uuid.uuid4()
    o.evaluation_times = None
    o._tag_suffix = None
    o._default_aggregation_method = None
    return o, seen


def placement(T, where, d, dark_config):
    """isometry (d^N_total x d^N_good): good sites identity, dark site k in level dark_config[k]."""
    mats = []
    it = iter(dark_config)
    for good in where:
        if good:
            mats.append(refs.ident(T, d))
        else:
            lvl = next(it)
            col = [[0.0] for _ in range(d)]
            col[lvl][0] = 1.0
            mats.append(refs.mat(T, col))
    return refs.kron_all(T, mats)


def mps_fill_results(n_total, d, chi):
    """normalisation + dark-atom padding of the state and Hamiltonian handed to callbacks."""

    def fn(env):
        T = env.torch
        mm = env.mod("emu_mps.mps_backend_impl")
        mps_mod = env.mod("emu_mps.mps")
        hm = env.mod("emu_mps.hamiltonian")
        HT = env.mod("emu_base").HamiltonianType
        where = [env.boolean(f"good_{k}") for k in range(n_total)]
        n = sum(where)
        env.assume(n >= 2, "at least two well-prepared atoms (fewer is decided under C25)")
        dims = [1] + [chi] * (n - 1) + [1]
        factors = [env.tensor_cplx(f"A{k}", (dims[k], d, dims[k + 1])) for k in range(n)]
        center = env.choice("center", list(range(n)))
        env.assume(scalar(T.linalg.vector_norm(factors[center])) > 0.001, "the centre tensor is not (numerically) zero")
        eig = ["r", "g"] if d == 2 else ["g", "r", "x"]
        state = mps_mod.MPS([f.clone() for f in factors], orthogonality_center=center, num_gpus_to_use=0, eigenstates=eig)
        U = env.sym_matrix("U", n)
        om = env.tensor_real("omega", (n,), dtype=T.complex128)
        z = T.zeros(n, dtype=T.complex128)
        H = hm.make_H(interaction_matrix=U, hamiltonian_type=HT.Rydberg, dim=d, num_gpus_to_use=0)
        hm.update_H(H, om, z, z, T.zeros(d, d, dtype=T.complex128))
        obs, seen = probe_observable()
        impl = object.__new__(mm.MPSBackendImpl)
        impl.state = state
        impl.hamiltonian = H
        impl.config = FakeConfig([obs], [0.5])
        impl.current_time = 10.0
        impl.target_times = [0.0, 10.0, 20.0]
        impl.results = SimpleNamespace(total_duration=20, _store=lambda **kw: None)
        all_good = all(where)
        impl.well_prepared_qubits_filter = None if all_good else T.tensor(where)
        impl.fill_results()
        env.check("state" in seen, "the callback due at this time was called")
        st, hh = seen["state"], seen["hamiltonian"]
        psi = refs.contract_mps(T, factors)
        nrm = T.linalg.vector_norm(factors[center])
        dark = [k for k, g in enumerate(where) if not g]
        V = placement(T, where, d, [0] * len(dark)) if not env.mutant("dark_excited") else placement(T, where, d, [1] * len(dark))
        inv = 1 / nrm  # the same reciprocal the code forms: `1 / self.state.norm()`
        want_psi = inv * (V @ psi.reshape(-1, 1)).reshape(-1)
        env.check(len(st.factors) == n_total, "state handed to callbacks has one factor per register atom")
        env.check(all(f.shape[1] == d for f in st.factors), "padding has the physical dimension of the state")
        env.check_eq(refs.contract_mps(T, st.factors), want_psi, "state handed to callbacks = (psi/norm) with dark atoms in |g>")
        Hd = refs.contract_mpo(T, H.factors)
        want_H = T.zeros(d**n_total, d**n_total, dtype=T.complex128)
        for cfgd in itertools.product(range(d), repeat=len(dark)):
            Vb = placement(T, where, d, list(cfgd))
            want_H = want_H + Vb @ Hd @ Vb.mT
        env.check_eq(refs.contract_mpo(T, hh.factors), want_H, "Hamiltonian handed to callbacks = H on the good atoms x identity on dark atoms")
        good_idx = [k for k, g in enumerate(where) if g]
        env.check(st.orthogonality_center == good_idx[center], "orthogonality centre mapped to the same physical atom")
        # energy observable on the padded pair = energy on the reduced pair
        cbm = env.mod("emu_mps.custom_callback_implementations")
        try:
            e = cbm.energy_mps_impl(None, config=None, state=st, hamiltonian=hh)
        except AssertionError:
            e = None
        if e is not None:
            env.check_eq(e, (inv * inv * T.vdot(psi, Hd @ psi)).real, "energy = <psi|H|psi>/norm^2")

    return fn


def exact_zip_right(T):
    """zip_right (MPO @ MPO through QR sweeps and an eigh/SVD truncation: LAPACK) replaced by the exact,
    uncompressed product of the factors.  Contract assumed of the real one: it returns factors of the
    product operator (within the truncation precision)."""

    def zip_right(top_factors, bottom_factors, precision=None, max_bond_dim=None):
        out = []
        for A, B in zip(top_factors, bottom_factors):
            C = T.tensordot(A, B, dims=([2], [1]))  # (a, o, b, e, i, f)
            C = C.permute(0, 3, 1, 4, 2, 5)
            out.append(C.reshape(A.shape[0] * B.shape[0], A.shape[1], B.shape[2], A.shape[3] * B.shape[3]))
        return out

    return zip_right


def mps_energy_moments_sequence(n, d, chi):
    """energy variance / second moment of the MPS backend over a *sequence*: the same MPO object is
    updated in place between two evaluations (what update_H does every time step) and every
    evaluation must use H^2 of the Hamiltonian of its own time."""

    def fn(env):
        T = env.torch
        mpo_mod = env.mod("emu_mps.mpo")
        mps_mod = env.mod("emu_mps.mps")
        hm = env.mod("emu_mps.hamiltonian")
        cbm = env.mod("emu_mps.custom_callback_implementations")
        HT = env.mod("emu_base").HamiltonianType
        dims = [1] + [chi] * (n - 1) + [1]
        factors = [env.tensor_cplx(f"A{k}", (dims[k], d, dims[k + 1])) for k in range(n)]
        eig = ["r", "g"] if d == 2 else ["g", "r", "x"]
        state = mps_mod.MPS([f.clone() for f in factors], orthogonality_center=0, num_gpus_to_use=0, eigenstates=eig)
        psi = refs.contract_mps(T, factors)
        U = env.sym_matrix("U", n)
        H = hm.make_H(interaction_matrix=U, hamiltonian_type=HT.Rydberg, dim=d, num_gpus_to_use=0)
        noise = T.zeros(d, d, dtype=T.complex128)
        saved = mpo_mod.zip_right
        mpo_mod.zip_right = exact_zip_right(T)
        try:
            for step in range(2):
                om = env.tensor_real(f"omega{step}", (n,), dtype=T.complex128)
                de = env.tensor_real(f"delta{step}", (n,), dtype=T.complex128)
                ph = T.zeros(n, dtype=T.complex128)
                hm.update_H(H, om, de, ph, noise)
                ref_step = 0 if env.mutant("stale_hamiltonian") else step
                om_r = env.tensor_real(f"omega{ref_step}", (n,), dtype=T.complex128) if ref_step != step else om
                de_r = env.tensor_real(f"delta{ref_step}", (n,), dtype=T.complex128) if ref_step != step else de
                Hd = refs.dense_rydberg(T, om_r, de_r, ph, U, n, d)
                e1 = T.vdot(psi, Hd @ psi)
                e2 = T.vdot(psi, Hd @ (Hd @ psi))
                m = cbm.energy_second_moment_mps_impl(None, config=None, state=state, hamiltonian=H)
                v = cbm.energy_variance_mps_impl(None, config=None, state=state, hamiltonian=H)
                e = cbm.energy_mps_impl(None, config=None, state=state, hamiltonian=H)
                env.check_eq(e, e1.real, f"evaluation {step}: energy = <psi|H(t_{step})|psi>")
                env.check_eq(m, e2.real, f"evaluation {step}: energy second moment = <psi|H(t_{step})^2|psi>")
                env.check_eq(v, (e2 - e1 * e1).real, f"evaluation {step}: energy variance = <H^2> - <H>^2 at t_{step}")
        finally:
            mpo_mod.zip_right = saved

    return fn



def rot(T, c, s):
    """real rotation [[c,-s],[s,c]] as a complex tensor"""
    return T.stack([T.stack([c, -s]), T.stack([s, c])]).to(T.complex128)


def install_known_qr(env, known):
    """torch.linalg.qr stub for a canonical-form walk whose matrices the harness built as Q0 @ R0
    with Q0 an isometry and R0 upper triangular with non-zero diagonal.  A reduced QR of a full
    column-rank matrix is unique up to a diagonal unitary D, so *every* valid LAPACK answer is
    (Q0 D, D^* R0): D carries fresh symbolic phases.  One-column matrices get the exact column QR.
    The stub verifies (as VCs) that each matrix it is given really is the announced Q0 @ R0.
    Only installed under symtorch; the real torch runs LAPACK."""
    T = env.torch
    if env.mode == "real":
        return
    cnt = [0]
    pending = list(known)

    def phases(n):
        ds = []
        for _ in range(n):
            k = cnt[0]
            cnt[0] += 1
            th = T.tensor(env.real(f"qr{k}.theta", lo=-3.0, hi=3.0), dtype=T.float64)
            ds.append(T.cos(th) + 1j * T.sin(th))
        return T.stack(ds)

    def qr(a, mode="reduced"):
        if a.shape[1] == 1:
            p = (a.conj() * a).real.sum()
            nrm = T.sqrt(p)
            env.assume(scalar(nrm) > 0.001, "QR is applied to non-zero columns")
            u = 1.0 / nrm
            if env.symbolic:
                lemma = env.eqv(scalar(u * u * p), 1.0)
                env.check(lemma, "lemma: (1/|a|)^2 |a|^2 = 1")
                env.assume(lemma, "lemma (proved): (1/|a|)^2 |a|^2 = 1")
            ph = phases(1)[0]
            return a * (ph.conj() * u), (ph * nrm).reshape(1, 1)
        if not pending:
            from symex.core import Inconclusive

            raise Inconclusive("multi-column QR reached without an announced factorisation")
        Q0, R0 = pending.pop(0)
        if env.symbolic:  # (no record in the concrete runs: the real torch runs LAPACK and has none either)
            env.check_eq(a, Q0 @ R0, "the matrix handed to QR is the announced Q0 @ R0")
        D = phases(a.shape[1])
        return Q0 * D.reshape(1, -1), D.conj().reshape(-1, 1) * R0

    T.STUBS["linalg.qr"] = qr


def mps_expect_batch_entangled(side):
    """expect_batch / occupation on a 3-site canonical MPS with one bond of dimension 2 next to
    the centre (site 1): the walk away from the centre crosses that bond with a genuine QR."""

    def fn(env):
        T = env.torch
        mps_mod = env.mod("emu_mps.mps")
        cbm = env.mod("emu_mps.custom_callback_implementations")
        d = 2

        def angle(name):
            th = T.tensor(env.real(name, lo=-3.2, hi=3.2), dtype=T.float64)  # covers [-pi, pi]
            return T.cos(th), T.sin(th)

        ca, sa = angle("alpha")
        cb, sb = angle("beta")
        cg, sg = angle("gamma")
        r00 = env.real("r00", lo=0.125, hi=4.0)
        r11 = env.real("r11", lo=0.125, hi=4.0)
        r01 = env.cplx("r01")
        R0 = T.tensor([[r00, r01], [0.0, r11]], dtype=T.complex128)
        Q0 = rot(T, cg, sg)
        U = rot(T, ca, sa)  # the isometry on the far side of the chi=2 bond
        unit = T.stack([cb, sb]).to(T.complex128)  # a normalised single-site tensor
        if side == "left":
            # bonds (2, 1): site 0 left-orthonormal (1,2,2), centre (2,2,1) with centre.view(2,2).mT = Q0 R0, site 2 unit
            A0 = U.reshape(1, 2, 2)
            A1 = (Q0 @ R0).mT.contiguous().reshape(2, 2, 1)
            A2 = unit.reshape(1, 2, 1)
        else:
            # bonds (1, 2): site 0 unit, centre (1,2,2) with centre.view(2,2) = Q0 R0, site 2 right-orthonormal (2,2,1)
            A0 = unit.reshape(1, 2, 1)
            A1 = (Q0 @ R0).reshape(1, 2, 2)
            A2 = U.reshape(2, 2, 1)
        factors = [A0, A1, A2]
        before = [f.clone() for f in factors]
        psi = refs.contract_mps(T, before)
        install_known_qr(env, [(Q0, R0)])
        state = mps_mod.MPS([f.clone() for f in factors], orthogonality_center=1, num_gpus_to_use=0, eigenstates=["r", "g"])
        ops = env.tensor_cplx("op", (1, d, d))
        got = state.expect_batch(ops)
        for q in range(3):
            site = q if not env.mutant("mirror_sites") else 2 - q
            O = refs.embed(T, ops[0], site, 3, d)
            env.check_eq(got[q, 0], T.vdot(psi, O @ psi), f"expect_batch[{q}] = <psi|O({q})|psi> across a chi=2 bond ({side} of the centre)")
        install_known_qr(env, [(Q0, R0)])
        occ = cbm.qubit_occupation_mps_impl(None, config=None, state=state, hamiltonian=None)
        nn = refs.n_op(T)
        for q in range(3):
            env.check_eq(occ[q], T.vdot(psi, refs.embed(T, nn, q, 3, d) @ psi).real, f"occupation[{q}] = <psi|n_{q}|psi> ({side})")
        for f, b in zip(state.factors, before):
            env.check_eq(f, b, "expect_batch leaves the factors unchanged")

    return fn


META = {
    "explanation": (
        "All eight emu-sv observable implementations (through `choose`) are executed on symbolic complex state vectors and symbolic "
        "Hermitian matrices with a real RydbergHamiltonian / RydbergLindbladian built from symbolic parameters; z3 decides equality with "
        "<n_i>, <n_i n_j>, <H^2>, <H^2>-<H>^2 and the [0,1] ranges under normalisation. For emu-mps, the real fill_results, "
        "extended_mps_factors, extended_mpo_factors, get_extended_site_index, MPO.expect/energy_mps_impl are executed on symbolic "
        "(non-canonical) MPS factors, a real MPO from make_H/update_H and a forked dark-atom mask: the state and Hamiltonian handed "
        "to callbacks are the normalised state with dark atoms in |g> and H x identity."
    ),
    "outside": [
        "MPS occupation/correlation through multi-column QR beyond the chi=2 known-factorisation cases; the zip-up compression inside MPO@MPO (QR/eigh): MPS variance/second moment are decided with zip_right replaced by the exact uncompressed product; entanglement entropy (SVD), fidelity/expectation (Pulser code)",
        "variance >= 0 (Cauchy-Schwarz; z3 unknown beyond one qubit)",
        "N > 3 (state vector) / 2 (density matrix) / 4 register atoms (MPS padding)",
        "MPS.norm() is the norm of the declared centre tensor; that it equals the state norm needs canonical form (C10, outside)",
    ],
    "assumptions": ["density matrices are Hermitian", "at least two well-prepared atoms"],
}


def cases(tier):
    out = []
    q = tier == "quick"
    for n, nz in ([(1, False), (2, True), (3, False)] if q else [(1, True), (2, False), (2, True), (3, False), (3, True)]):
        out.append(
            Case(
                f"sv_obs_n{n}{'_normalised' if nz else ''}",
                sv_observables(n, nz),
                covers=COVERS_SV,
                bounds={"qubits": n, "normalised": nz},
                canaries=["shifted_site"] if n > 1 else [],
                weight=8**n,
                timeout_ms=60000,
            )
        )
    for n, k in ([(1, 1), (2, 1)] if q else [(1, 2), (2, 0), (2, 2)]):
        out.append(
            Case(f"dm_obs_n{n}_ops{k}", dm_observables(n, k), covers=COVERS_SV, bounds={"qubits": n, "jump_ops": k}, canaries=["shifted_site"] if n > 1 else [], weight=16**n, timeout_ms=60000)
        )
    for n, d, chi in ([(2, 2, 1)] if q else [(2, 2, 2), (3, 2, 1), (2, 3, 1)]):
        out.append(
            Case(
                f"mps_energy_moments_sequence_n{n}_d{d}_chi{chi}",
                mps_energy_moments_sequence(n, d, chi),
                covers=[
                    ("emu_mps/custom_callback_implementations.py", "energy_variance_mps_impl"),
                    ("emu_mps/custom_callback_implementations.py", "energy_second_moment_mps_impl"),
                    ("emu_mps/custom_callback_implementations.py", "energy_mps_impl"),
                    ("emu_mps/mpo.py", "MPO.__matmul__"),
                    ("emu_mps/mpo.py", "MPO.expect"),
                    ("emu_mps/hamiltonian.py", "update_H"),
                ],
                bounds={"atoms": n, "dim": d, "chi": chi, "evaluations": 2, "between evaluations": "update_H in place with fresh symbolic drives", "zip_right": "stub: exact uncompressed product"},
                canaries=["stale_hamiltonian"],
                weight=(d**n) ** 2 * 4,
                timeout_ms=60000,
            )
        )
    for side in ("left", "right"):
        out.append(
            Case(
                f"mps_expect_batch_entangled_{side}",
                mps_expect_batch_entangled(side),
                covers=[("emu_mps/mps.py", "MPS.expect_batch"), ("emu_mps/custom_callback_implementations.py", "qubit_occupation_mps_impl")],
                bounds={"sites": 3, "bond_dims": [2, 1] if side == "left" else [1, 2], "centre": 1, "family": "Q0 = rotation(gamma), R0 upper triangular symbolic, neighbours rotation(alpha)/unit(beta)"},
                canaries=["mirror_sites"],
                weight=200,
                timeout_ms=60000,
                modes=("real", "shim", "sym"),
            )
        )
    for nt, d, chi in ([(3, 2, 2), (2, 3, 1)] if q else [(2, 2, 2), (3, 2, 2), (4, 2, 2), (2, 3, 2), (3, 3, 1)]):
        out.append(
            Case(
                f"mps_fill_results_N{nt}_d{d}_chi{chi}",
                mps_fill_results(nt, d, chi),
                covers=COVERS_MPS,
                bounds={"register_atoms": nt, "dim": d, "bond_dim": chi, "dark_masks": "all with >= 2 good atoms"},
                canaries=["dark_excited"] if nt > 2 else [],
                weight=(d**nt) ** 2,
                deadline_s=1500,
                timeout_ms=60000,
            )
        )
    return out
