"""C05 — the MPO Hamiltonian equals the dense neutral-atom Hamiltonian."""

from symex.api import Case
from symex import refs

PROPERTY = "C05"

COVERS = [
    ("emu_mps/hamiltonian.py", "make_H"),
    ("emu_mps/hamiltonian.py", "update_H"),
    ("emu_mps/hamiltonian.py", "HamiltonianMPOFactors"),
    ("emu_mps/hamiltonian.py", "RydbergHamiltonianMPOFactors"),
    ("emu_mps/hamiltonian.py", "XYHamiltonianMPOFactors"),
    ("emu_mps/mpo.py", "MPO.__init__"),
]


def drive(env, n, tag=""):
    T = env.torch
    omega = env.tensor_real("omega" + tag, (n,), dtype=T.complex128)
    delta = env.tensor_real("delta" + tag, (n,), dtype=T.complex128)
    phi = env.tensor_real("phi" + tag, (n,), dtype=T.complex128)
    return omega, delta, phi


def mpo_equals_dense(n, d, kind, with_noise, phase=True):
    def fn(env):
        T = env.torch
        hm = env.mod("emu_mps.hamiltonian")
        HT = env.mod("emu_base").HamiltonianType
        U = env.sym_matrix("U", n)
        U_before = U.clone()
        htype = HT.Rydberg if kind == "rydberg" else HT.XY
        H = hm.make_H(interaction_matrix=U, hamiltonian_type=htype, dim=d, num_gpus_to_use=0)
        env.check_eq(U, U_before, "make_H leaves the interaction matrix unchanged")
        omega, delta, phi = drive(env, n)
        if not phase:
            phi = T.zeros(n, dtype=T.complex128)
        noise = env.tensor_cplx("noise", (d, d)) if with_noise else T.zeros(d, d, dtype=T.complex128)
        noise_before = noise.clone()
        hm.update_H(H, omega, delta, phi, noise)
        env.check_eq(noise, noise_before, "update_H leaves the noise term unchanged")
        fs = H.factors
        env.check(len(fs) == n, "one factor per site")
        env.check(fs[0].shape[0] == 1 and fs[-1].shape[-1] == 1, "outer bonds have dimension 1")
        env.check(
            all(fs[i].shape[-1] == fs[i + 1].shape[0] for i in range(n - 1)),
            "bond dimensions of adjacent factors match",
        )
        env.check(all(f.shape[1] == d and f.shape[2] == d for f in fs), "physical dimension")
        dense = refs.contract_mpo(T, fs)
        Uref = U
        if env.mutant("double_coupling"):
            Uref = U.clone()
            Uref[0, n - 1] = 2 * U[0, n - 1]
            Uref[n - 1, 0] = 2 * U[0, n - 1]
        dref = -delta if env.mutant("detuning_sign") else delta
        mk = refs.dense_rydberg if kind == "rydberg" else refs.dense_xy
        ref = mk(T, omega, dref, phi, Uref, n, d, noise=noise)
        env.check_eq(dense, ref, f"contract(MPO) = dense {kind} H (n={n}, d={d})")
        if not with_noise:
            env.check_eq(dense, dense.mH, "Hermitian for a zero noise term")
        # in-place update with fresh drive values leaves no residue
        omega2, delta2, phi2 = drive(env, n, "'")
        hm.update_H(H, omega2, delta2, phi2, noise)
        dense2 = refs.contract_mpo(T, H.factors)
        ref2 = mk(T, omega2, delta2, phi2, U, n, d, noise=noise)
        env.check_eq(dense2, ref2, "after a second update_H the MPO equals the dense H of the new drive")

    return fn


META = {
    "explanation": (
        "make_H and update_H (all of RydbergHamiltonianMPOFactors / XYHamiltonianMPOFactors) are executed on a symbolic "
        "symmetric interaction matrix, symbolic Omega, Delta, phi per atom and a symbolic complex dxd noise term; the "
        "factor code branches on `.any()` of sub-blocks and the executor forks on exactly those predicates, so every "
        "sparsity pattern the control flow can distinguish is one path while the surviving couplings stay symbolic "
        "(of either sign, possibly zero). On every path the contracted d^N x d^N matrix is compared entry-wise, as a "
        "polynomial identity decided by z3, with the dense Rydberg / XY Hamiltonian in Pulser's convention, before and "
        "after a second in-place update_H."
    ),
    "outside": [
        "N = 7 of the property's quantifier (thorough: N <= 6 for d = 2 without the noise term, N <= 5 with it, N <= 4 for d = 3)",
        "floating-point rounding",
        "the dense reference is written from Pulser's documented convention (pulser-simulation is not installed)",
    ],
    "assumptions": [
        "interaction matrix is symmetric (Pulser's contract); its diagonal is ignored by the code",
        "cos/sin abstracted by (c,s) with c^2+s^2=1 and phi=0 => (c,s)=(1,0)",
    ],
}


def cases(tier):
    out = []
    if tier == "quick":
        grid = [
            (2, 2, "rydberg", True),
            (3, 2, "rydberg", True),
            (4, 2, "rydberg", False),
            (2, 2, "xy", True),
            (3, 2, "xy", True),
            (4, 2, "xy", False),
            (2, 3, "rydberg", True),
            (3, 3, "xy", True),
        ]
    else:
        grid = [
            (n, 2, k, nz)
            for n in (2, 3, 4, 5)
            for k in ("rydberg", "xy")
            for nz in (True,)
        ] + [(n, 3, k, True) for n in (2, 3, 4) for k in ("rydberg", "xy")] + [(6, 2, "rydberg", False), (6, 2, "xy", False)]
    for n, d, kind, nz in grid:
        out.append(
            Case(
                name=f"mpo_{kind}_n{n}_d{d}{'_noise' if nz else ''}",
                fn=mpo_equals_dense(n, d, kind, nz),
                covers=COVERS,
                bounds={"n_atoms": n, "dim": d, "type": kind, "noise": nz, "sparsity": "all patterns (forked)"},
                canaries=["double_coupling", "detuning_sign"],
                weight=(d**n) ** 2 * (2 if kind == "xy" else 1),
                deadline_s=1500.0,
            )
        )
    return out
