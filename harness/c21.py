"""C21 — the simulation time grid covers the sequence and every evaluation time.

Engine F-abs: `_get_target_times` is executed on `RR` scalars (symex/fpabs.py):
every floating-point operation is its exact real result times (1+e), |e|<=2^-53,
with e universally quantified, so `unsat` proves the claim for every double in
the stated range.  `range(n_steps+1)` is replaced by one or two *universal*
elements (an arbitrary index i, resp. i<j), so per-element and pairwise claims
hold for every index.
"""

import builtins
import math as _math
from types import SimpleNamespace

from symex.api import Case
from symex.env import b_and, b_or, b_not, b_implies

PROPERTY = "C21"

COVERS = [
    ("emu_base/pulser_adapter.py", "_get_target_times"),
    ("emu_base/pulser_adapter.py", "_unique_observable_times"),
]

D_MAX = 10000
DT_MIN = 0.1


def setup(env, n_eval, n_idx, use_default):
    """Returns (ts, D, dt, evals, idx) with ts the list returned by the real
    function; values are RR in symbolic mode and floats otherwise."""
    pa = env.mod("emu_base.pulser_adapter")
    sym = env.mode == "sym"
    if sym:
        import z3
        from symex.fpabs import RR, IntRR
        from symex.poly import SymBool

    D = env.real("D", lo=1, hi=D_MAX)
    dt = env.real("dt", lo=DT_MIN, hi=D_MAX)
    if sym:
        Dv, dtv = IntRR(D), RR(dt)
        # integrality is not needed for the proofs (dropping it over-approximates) but a
        # counterexample is only replayable with an integer duration and integer indices
        env.ctx.soft.append(z3.IsInt(D.re.z3()))
    else:
        D = float(round(D))
        Dv, dtv = int(D), float(dt)
    evals = []
    for k in range(n_eval):
        kind = env.choice(f"e{k}_kind", ["interior", "zero", "one"])
        if kind == "interior":
            e = env.real(f"e{k}", lo=1e-6, hi=1.0 - 1e-6)
        else:
            e = 0.0 if kind == "zero" else 1.0
            if sym:
                from symex.poly import Sc

                e = Sc.const(e)
        for p in evals:
            env.assume(e - p >= 1e-6, "distinct evaluation times (and 0, 1) are at least 1e-6 apart, ascending")
        evals.append(e)
    ev = [RR(e) for e in evals] if sym else list(evals)

    idx_raw = [env.real(f"i{k}", lo=0, hi=D_MAX / DT_MIN + 1) for k in range(n_idx)]
    state = {}

    def fake_range(stop):
        # universal elements of range(n_steps + 1)
        n = stop - 1
        out = []
        prev = None
        for k, r in enumerate(idx_raw):
            if sym:
                env.assume(r <= n.v, "grid index within range(n_steps+1)")
                env.ctx.soft.append(z3.IsInt(r.re.z3()))
                if prev is not None:
                    env.assume(r >= prev + 1, "second index larger than the first")
                prev = r
                out.append(IntRR(r))
            else:
                i = int(round(r))
                lo_i = 0 if prev is None else prev + 1
                if lo_i > n:
                    continue
                i = max(lo_i, min(i, int(n)))
                prev = i
                out.append(i)
        state["idx"] = list(out)
        state["n"] = n
        # range(n_steps + 1) always contains 0; n_steps itself is covered by the universal index
        return [0] + out

    class FakeMath:
        @staticmethod
        def floor(x):
            return x.floor() if sym else _math.floor(x)

    seq = SimpleNamespace(get_duration=lambda include_fall_time=False: Dv)
    if use_default == "mixed":
        # one observable with its own times next to one that relies on the config default:
        # both sets of times must be on the grid
        k = len(ev) // 2
        obs = [SimpleNamespace(evaluation_times=list(ev[:k])), SimpleNamespace(evaluation_times=None)]
        default = SimpleNamespace(tolist=lambda: list(ev[k:]))
    elif use_default:
        obs = [SimpleNamespace(evaluation_times=None)]
        default = SimpleNamespace(tolist=lambda: list(ev))
    else:
        obs = [SimpleNamespace(evaluation_times=list(ev))]
        default = SimpleNamespace(tolist=lambda: [1.0])
    cfg = SimpleNamespace(with_modulation=False, observables=obs, default_evaluation_times=default)
    saved = {k: pa.__dict__.get(k, None) for k in ("range", "math", "float")}
    pa.range = fake_range
    pa.math = FakeMath
    pa.float = (lambda x: x if isinstance(x, RR) else builtins.float(x)) if sym else builtins.float
    try:
        ts = pa._get_target_times(seq, cfg, dtv)
    finally:
        for k, v in saved.items():
            if v is None:
                pa.__dict__.pop(k, None)
            else:
                setattr(pa, k, v)
    return ts, D, dt, evals, state


def val(env, x):
    """exact real value of a (possibly RR) number"""
    return x.v if env.mode == "sym" and hasattr(x, "v") else x


def grid_props(n_eval, n_idx, use_default=False):
    def fn(env):
        ts, D, dt, evals, st = setup(env, n_eval, n_idx, use_default)
        tv = [val(env, t) for t in ts]
        n = len(tv)
        env.check(n >= 2, "at least start and end")
        env.check(env.eqv(tv[0], 0.0), "grid starts at 0")
        end = D if not env.mutant("end_short") else D - 1e-6
        env.check(env.eqv(tv[-1], end), "grid ends exactly at the sequence duration")
        for k in range(n):
            env.check(b_and(env.ge(tv[k], 0.0), env.le(tv[k], D)), f"time #{k} of {n} lies in [0, duration]")
        gap = 5e-10 if not env.mutant("huge_gap") else 0.05
        for k in range(n - 1):
            env.check(tv[k + 1] - tv[k] > gap * D, f"times #{k},#{k+1} of {n} strictly increasing, more than 5e-10*duration apart")
        # every multiple of dt up to the duration is on the grid (within the merge tolerance)
        for i in st.get("idx", []):
            iv = val(env, i)
            target = iv * dt
            near = b_or(*[abs(t - target) <= 2e-9 * D for t in tv])
            env.check(near, f"the multiple i*dt is a grid time (up to 2e-9*duration), {n} times")
        # every evaluation time is on the grid so that the backends' matching (|t/D - e| <= 1e-10) finds it, exactly once
        for a, e in enumerate(evals):
            hits = [abs(t - e * D) <= 1e-10 * D for t in tv]
            tight = [abs(t - e * D) <= 5e-11 * D for t in tv]
            env.check(b_or(*tight), f"evaluation time e{a} is a grid time ({n} times)")
            for p in range(n):
                for q in range(p + 1, n):
                    env.check(b_not(b_and(hits[p], hits[q])), f"evaluation time e{a} matches at most one grid time (#{p},#{q} of {n})")

    return fn


META = {
    "explanation": (
        "_get_target_times and _unique_observable_times are executed on F-abs scalars: each double operation is the exact real "
        "result times (1+e), |e| <= 2^-53, with e universally quantified (sound over-approximation of IEEE rounding in the normal "
        "range); math.floor is an integer n <= x < n+1; range(n_steps+1) is replaced by one or two universal indices. set/sorted "
        "fork on every comparison. z3 decides: first time 0, last time exactly the duration, every time in [0,duration], "
        "consecutive times more than 5e-10*duration apart, every multiple of dt and every requested evaluation time is a grid "
        "time, and an evaluation time is matched (|t/D-e|<=1e-10) by exactly one grid time."
    ),
    "outside": [
        "durations above 10000 ns, dt below 0.1 ns; more than 3 evaluation times (quick: 2); evaluation times closer than 1e-6",
        "n_trajectories / repetition count (C34)",
        "a `sat` in the over-approximation is only a candidate: it is reported as a violation only if it replays on real doubles",
        "overflow/underflow/subnormals (impossible in the stated ranges)",
    ],
    "assumptions": [
        "standard model of floating-point arithmetic: fl(a op b) = (a op b)(1+e), |e| <= 2^-53",
        "duration is an integer number of ns in [1,10000]; 0.1 <= dt <= 10000; evaluation times in [0,1], ascending, >= 1e-6 apart",
    ],
}


def cases(tier):
    out = []
    grid = [(0, 1, False), (1, 1, False), (1, 1, True), (0, 2, False), (2, 1, "mixed")]
    if tier != "quick":
        grid += [(2, 1, False), (1, 2, False), (2, 1, True), (1, 1, "mixed"), (3, 1, "mixed"), (2, 2, False)]
    for ne, ni, dflt in grid:
        out.append(
            Case(
                f"grid_evals{ne}_idx{ni}{'_mixed' if dflt == 'mixed' else '_default' if dflt else ''}",
                grid_props(ne, ni, dflt),
                covers=COVERS,
                bounds={"evaluation_times": ne, "times given by": "one observable with own times + one using the config default" if dflt == "mixed" else "the config default" if dflt else "the observable", "universal_grid_indices": ni, "duration": "1..10000 (integer)", "dt": "0.1..10000"},
                canaries=["end_short", "huge_gap"],
                timeout_ms=60000,
                deadline_s=1500,
                conc_samples=3,
                weight=(ne + 1) * ni * 10,
            )
        )
    return out
