"""C01 — emu-sv noiseless runs reproduce the Pulser Hamiltonian dynamics
(decidable part: the operator exponentiated at every step)."""

from types import SimpleNamespace

from symex.api import Case
from harness.svcommon import make_data, build_sv_impl, with_krylov_stub, h_ref_step, sv_stub_config

PROPERTY = "C01"

COVERS = [
    ("emu_sv/sv_backend_impl.py", "SVBackendImpl.__init__"),
    ("emu_sv/sv_backend_impl.py", "SVBackendImpl.init_dark_qubits"),
    ("emu_sv/sv_backend_impl.py", "SVBackendImpl._run"),
    ("emu_sv/sv_backend_impl.py", "SVBackendImpl.step"),
    ("emu_sv/sv_backend_impl.py", "SVBackendImpl._compute_dt"),
    ("emu_sv/sv_backend_impl.py", "SVBackendImpl._evolve_step"),
    ("emu_sv/time_evolution.py", "EvolveStateVector.forward"),
    ("emu_sv/time_evolution.py", "EvolveStateVector.evolve"),
    ("emu_sv/hamiltonian.py", "RydbergHamiltonian.__mul__"),
    ("emu_base/pulser_adapter.py", "_InteractionMatrixCallable.__call__"),
]


def sv_steps(n, steps, slm, with_init, phase=True):
    def fn(env):
        T = env.torch
        data, sym = make_data(env, n, steps, slm=slm, last_time=40, phase=phase)
        init = None
        if with_init:
            svs = env.mod("emu_sv.state_vector")
            init = svs.StateVector(env.tensor_cplx("psi0", (2**n,)), gpu=False)
            init_before = init.data.clone()
        cfg = sv_stub_config(initial_state=init)

        def run(rec):
            impl = build_sv_impl(env, data, cfg)
            impl._run()
            return impl

        impl, rec = with_krylov_stub(env, "vec", run)
        env.check(len(rec.calls) == steps, "exactly one exponential per target-time interval")
        for k, c in enumerate(rec.calls):
            t0, t1 = sym.ts[k], sym.ts[k + 1]
            U = sym.masked if (slm and bool(t0 < sym.slm_end)) else sym.full
            H = h_ref_step(env, sym, k if not env.mutant("step_off_by_one") else (k + 1) % steps, U, n)
            unit = 0.001 if not env.mutant("wrong_unit") else 1.0
            want = (-1.0j) * ((t1 - t0) * unit) * H
            env.check_eq(c.M, want, f"step {k}: exponentiated operator = -i*dt*1e-3*H_Pulser(step {k}) (n={n})")
            if k == 0:
                if with_init:
                    env.check_eq(c.v, init_before, "step 0 starts from the configured initial state")
                else:
                    g = T.zeros(2**n, dtype=T.complex128)
                    g[0] = 1.0
                    env.check_eq(c.v, g, "step 0 starts from |g...g>")
            else:
                env.check_eq(c.v, rec.calls[k - 1].out, f"step {k} starts from the state returned by step {k-1}")
            env.check(c.kw.get("is_hermitian") is True, "Lanczos (Hermitian) exponentiation requested")
        env.check_eq(impl.state.data, rec.calls[-1].out, "the final state is the one returned by the last step")
        if with_init:
            env.check_eq(init.data, init_before, "the user's initial state is not modified")

    return fn


def sv_callbacks(n, steps):
    """What the callbacks receive: at t=0 the initial state and the Hamiltonian of the first
    step; after step k the state returned by that step and that step's Hamiltonian."""

    def fn(env):
        T = env.torch
        from harness.c13 import FakeConfig, probe_observable

        data, sym = make_data(env, n, steps, last_time=40)
        seen_all = []
        obs, seen = probe_observable()
        obs.evaluation_times = None
        orig_apply = type(obs).apply

        def apply(self, *, config, state, hamiltonian, **kw):
            # the backend mutates `state.data` in place of the object: keep the tensor of this moment
            seen_all.append((SimpleNamespace(data=state.data.clone()), hamiltonian))  # (a copy: the next exponentiation destroys its input tensor)
            return 0

        type(obs).apply = apply
        cfg = FakeConfig([obs], [t / 40.0 for t in sym.ts])
        cfg.gpu = False
        cfg.initial_state = None
        cfg.krylov_tolerance = 1e-8

        def run(rec):
            impl = build_sv_impl(env, data, cfg)
            impl.results.total_duration = 40
            impl._run()
            return impl

        try:
            impl, rec = with_krylov_stub(env, "vec", run)
        finally:
            type(obs).apply = orig_apply
        env.check(len(seen_all) == steps + 1, "the observable is evaluated at t=0 and after every step")
        v = env.tensor_cplx("w", (2**n,))
        for k, (st, ham) in enumerate(seen_all):
            step = 0 if k == 0 else k - 1
            if env.mutant("next_step_hamiltonian") and 0 < k < steps:
                step = k
            H = h_ref_step(env, sym, step, sym.full, n)
            env.check_eq(ham * v.clone(), H @ v, f"callback #{k} receives the Hamiltonian of step {step}")
            if k == 0:
                g = T.zeros(2**n, dtype=T.complex128)
                g[0] = 1.0
                env.check_eq(st.data, g, "callback #0 receives the initial state")
            else:
                env.check_eq(st.data, rec.calls[k - 1].out, f"callback #{k} receives the state returned by step {k-1}")

    return fn


META = {
    "explanation": (
        "The real SVBackendImpl (constructor, _run, step, _evolve_step), EvolveStateVector.forward/evolve and the matrix-free "
        "RydbergHamiltonian are executed on a SequenceData with symbolic per-step, per-atom Omega, Delta, phi, symbolic full and "
        "SLM-masked interaction matrices, a symbolic SLM end and a symbolic strictly increasing time grid. krylov_exp is replaced "
        "by a recording stub that turns the closure it receives into a dense matrix and returns a fresh symbolic state. z3 decides "
        "that there is exactly one exponential per interval, that the k-th exponentiated operator equals "
        "-i*(t_{k+1}-t_k)*1e-3*H_Pulser(step k) with the interaction matrix C23 prescribes, and that states are chained."
    ),
    "outside": [
        "that krylov_exp returns exp(M)v to tolerance (C07, not applicable); agreement with Pulser's QutipEmulator (not installed)",
        "N > 5 atoms, > 5 steps (thorough; quick: N <= 3, 2 steps); floating-point rounding; observables (C13/C14)",
    ],
    "assumptions": ["target times strictly increasing from 0", "interaction matrices symmetric with zero diagonal (C23)"],
}


def cases(tier):
    out = []
    grid = [(1, 2, False, False), (2, 2, True, False), (2, 1, False, True), (3, 1, False, False)]
    if tier != "quick":
        grid += [(2, 3, True, True), (3, 2, True, False), (3, 3, False, False), (1, 3, False, True), (4, 2, True, False), (4, 1, False, True), (2, 5, False, False), (5, 1, False, False)]
    for n, k, slm, init in grid:
        out.append(
            Case(
                f"sv_n{n}_steps{k}{'_slm' if slm else ''}{'_init' if init else ''}",
                sv_steps(n, k, slm, init),
                covers=COVERS,
                bounds={"atoms": n, "steps": k, "slm_mask": slm, "initial_state": init},
                canaries=["wrong_unit"] + (["step_off_by_one"] if k > 1 else []),
                weight=4**n * k,
                deadline_s=1200,
            )
        )
    for n, k in ([(2, 2)] if tier == "quick" else [(1, 3), (2, 2), (3, 2), (4, 2)]):
        out.append(
            Case(
                f"sv_callbacks_n{n}_steps{k}",
                sv_callbacks(n, k),
                covers=COVERS + [("emu_sv/sv_backend_impl.py", "SVBackendImpl._apply_observables")],
                bounds={"atoms": n, "steps": k},
                canaries=["next_step_hamiltonian"] if k > 1 else [],
                weight=4**n * k,
            )
        )
    return out
