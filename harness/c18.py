"""C18 — quantum-jump stepping completes every time step once, in order, and terminates.

No tensors: the real NoisyMPSBackendImpl / MPSBackendImpl stepping methods and the real
BrentsRootFinder run on symbolic Python scalars; everything tensor-valued is a recording
stub (module-namespace stubs are restored in a finally block).  The deciding step is ONE
progress() (= one _evolve + sweep_complete) from an ARBITRARY state satisfying Inv with an
arbitrary new squared norm; a bounded unrolling from the real init() is the reachability
witness.
"""

import math as _math

from symex.api import Case
from symex.env import b_and, b_or, b_not, b_implies
from harness.c19 import vc, binv, strictly_between, weakly_between, pos, nonneg, guarded_next, _Stop

PROPERTY = "C18"

IMPL = "emu_mps/mps_backend_impl.py"
BRENT = "emu_base/math/brents_root_finding.py"
COVERS = [
    (IMPL, "NoisyMPSBackendImpl.sweep_complete"),
    (IMPL, "NoisyMPSBackendImpl.set_jump_threshold"),
    (IMPL, "NoisyMPSBackendImpl.do_random_quantum_jump"),
    (IMPL, "NoisyMPSBackendImpl.timestep_complete"),
    (IMPL, "NoisyMPSBackendImpl.init"),
    (IMPL, "MPSBackendImpl.progress"),
    (IMPL, "MPSBackendImpl.timestep_complete"),
    (IMPL, "MPSBackendImpl.fill_results"),
    (IMPL, "MPSBackendImpl.is_finished"),
    (IMPL, "MPSBackendImpl.init"),
    (IMPL, "MPSBackendImpl.update_H"),
    (IMPL, "MPSBackendImpl.update_H_no_noise"),
    (IMPL, "MPSBackendImpl.save_simulation"),
    (BRENT, "BrentsRootFinder.__init__"),
    (BRENT, "BrentsRootFinder.get_next_abscissa"),
    (BRENT, "BrentsRootFinder.provide_ordinate"),
    (BRENT, "BrentsRootFinder.is_converged"),
]


# ---------------------------------------------------------------------------
# stubs
# ---------------------------------------------------------------------------
def sqrt(v):
    return v**0.5  # Sc: sqrt atom with the rewrite sqrt(s)^2 -> s ; float: math


class NormVal:
    """what state.norm() returns: `.item()`, and `1 / norm`."""

    def __init__(self, v, world):
        self.v, self.w = v, world

    def item(self):
        return self.v

    def __rtruediv__(self, o):
        return Scale(o / self.v, self.w)


class Scale:
    def __init__(self, s, world):
        self.s, self.w = s, world

    def __mul__(self, state):  # `1 / norm * state`: only fill_results does this
        self.w.ev("fill", self.w.impl.current_time)
        return NormalizedState(state, self.s)


class NormalizedState:
    def __init__(self, state, s):
        self.of, self.s = state, s


class Weights:
    def __init__(self, n):
        self.n = n

    @property
    def real(self):
        return self

    def view(self, *a):
        return self

    def tolist(self):
        return [1.0] * self.n


class StubState:
    num_sites = 2

    def __init__(self, world):
        self.w = world
        self.n = 1.0  # current norm (not squared)

    def norm(self):
        return NormVal(self.n, self.w)

    def expect_batch(self, ops):
        self.w.ev("expect_batch", ops)
        return Weights(self.num_sites * len(self.w.impl.lindblad_ops))

    def apply(self, qubit, op):
        w = self.w
        w.ev("jump", w.impl.current_time, qubit, op)
        # a jump operator changes the norm arbitrarily (but not to zero)
        self.n = pos(w.env, f"norm_after_jump{w.count('jump')}")

    def orthogonalize(self, i):
        self.w.ev("orthogonalize", i)

    def __imul__(self, scale):
        self.w.ev("rescale")
        self.n = self.n * scale.s
        return self


class Indexable:
    def __init__(self, name):
        self.name = name

    def __getitem__(self, ix):
        return (self.name, ix[0])


class Obs:
    def __init__(self, world, name, times):
        self.w, self.name, self.evaluation_times = world, name, times

    def __call__(self, config, t, state, hamiltonian, results):
        self.w.ev("obs", self.name, t, isinstance(state, NormalizedState))


class StubConfig:
    autosave_dt = 1000.0
    initial_state = None
    # nominal solver step of the config; the target-time grid of the harness is symbolic and
    # deliberately unrelated to it (evaluation times make real grids non-uniform)
    dt = 10.0
    precision = 1e-5
    max_bond_dim = 1024
    extra_krylov_tolerance = 1e-3
    max_krylov_dim = 100
    num_gpus_to_use = 0
    optimize_qubit_ordering = False
    interaction_cutoff = 0.0
    log_level = 20
    log_file = None
    autosave_prefix = "verif_"
    solver = "tdvp"
    with_modulation = False
    n_trajectories = 1
    interaction_matrix = None
    prefer_device_noise_model = False

    def __init__(self, world):
        self.w = world
        self.observables = [Obs(world, "A", None), Obs(world, "B", [0.5])]


class StatStub:
    def __init__(self, world):
        self.w = world
        self.data = []

    def __call__(self, config, t, state, hamiltonian, results):
        self.w.ev("stat", t)


class FakeTime:
    @staticmethod
    def time():
        return 0.0


class FakeMath:
    """math with isclose lifted to symbolic scalars (exact real semantics)."""

    def __getattr__(self, name):
        return getattr(_math, name)

    @staticmethod
    def isclose(a, b, *, rel_tol=1e-09, abs_tol=0.0):
        if isinstance(a, (int, float)) and isinstance(b, (int, float)):
            return _math.isclose(a, b, rel_tol=rel_tol, abs_tol=abs_tol)
        d = abs(a - b)
        return b_or(d <= abs_tol, d <= rel_tol * abs(a), d <= rel_tol * abs(b))


class FakeRandom:
    def __init__(self, world):
        self.w = world

    def uniform(self, lo, hi):
        w = self.w
        j = w.count("uniform")
        w.ev("uniform", lo, hi)
        frac = w.env.real(f"u{j}", lo=0.0, hi=1.0)
        w.env.assume(b_and(frac > 0, frac < 1), "random.uniform draws from the open interval")
        return lo + frac * (hi - lo)

    def choices(self, population, weights=None, k=1):
        self.w.ev("choices", len(population), len(weights))
        return [population[0]]


class World:
    """the stubbed environment of one NoisyMPSBackendImpl + its event trace."""

    def __init__(self, env, adversarial_due=True):
        self.env = env
        self.trace = []
        self.due = {}
        self.probes = []
        self.adversarial_due = adversarial_due
        self.saved = {}
        self.impl = None
        self.n_evolve = 0
        self.matrix_changes = False

    def ev(self, *e):
        self.trace.append(e)

    def count(self, kind):
        return sum(1 for e in self.trace if e[0] == kind)

    def events(self, *kinds):
        return [e for e in self.trace if e[0] in kinds]

    # -- module namespace ---------------------------------------------------
    def install(self, m, bm):
        env = self.env
        for name in ("random", "math", "time", "update_H", "make_H", "BrentsRootFinder"):
            self.saved[name] = getattr(m, name)
        m.random = FakeRandom(self)
        m.math = FakeMath()
        m.time = FakeTime()
        world = self

        def update_H(*, hamiltonian, omega, delta, phi, noise):
            world.ev("update_H", omega[1], noise is world.impl.lindblad_noise, (omega[0], delta[0], phi[0]))

        def make_H(**kw):
            world.ev("make_H", sorted(kw))
            return "H'"

        m.update_H = update_H
        m.make_H = make_H
        Real = self.saved["BrentsRootFinder"]

        class Guarded(Real):  # the real finder + divisor / bracket VCs in front of every query
            def get_next_abscissa(self):
                vc(env, binv(self), "finder state before a query satisfies the C19 invariant BInv")
                a, b = self.a, self.b
                x = guarded_next(env, self, lambda: Real.get_next_abscissa(self))
                vc(env, strictly_between(x, a, b), "the finder's next abscissa is strictly inside its bracket")
                return x

        m.BrentsRootFinder = Guarded
        self.Finder = Guarded

    def restore(self, m):
        for name, v in self.saved.items():
            setattr(m, name, v)

    # -- the object under test ------------------------------------------------
    def make_impl(self, m, target_times, K, k):
        env, T = self.env, self.env.torch
        impl = object.__new__(m.NoisyMPSBackendImpl)
        self.impl = impl
        impl.config = StubConfig(self)
        impl.target_times = target_times
        impl.qubit_count = 2
        impl.timestep_count = K
        impl._timestep_index = k
        impl.state = StubState(self)
        impl.hamiltonian = "H"
        impl.results = "results"
        impl.well_prepared_qubits_filter = None
        impl.omega, impl.delta, impl.phi = Indexable("omega"), Indexable("delta"), Indexable("phi")
        impl.lindblad_noise = ("noise",)
        impl.dim = 2
        impl.statistics = StatStub(self)
        impl.time = 0.0
        impl.last_save_time = 0.0
        impl.current_interaction_matrix = T.zeros(2, 2, dtype=T.float64)
        impl.hamiltonian_type = "HT"
        impl.resolved_num_gpus = 0
        impl.lindblad_ops = ["L"]
        impl.aggregated_lindblad_ops = "agg"
        impl.root_finder = None
        world = self

        def _evolve(*indices, dt, orth_center_right=None):
            j = world.n_evolve
            world.n_evolve += 1
            world.ev("evolve", dt, indices, orth_center_right)
            # "however the state norm evolves": a fresh squared norm in (0, 1]
            s = env.real(f"sqnorm{j}", lo=0.0, hi=1.0)
            env.assume(s > 0, "squared norm in (0, 1]")
            env.assume(s != impl.jump_threshold, "the norm gap is never exactly 0 at an evaluated time")
            impl.state.n = sqrt(s)

        def init_baths():
            world.ev("init_baths")

        def _get_interaction_matrix():
            world.ev("interaction_matrix", impl.current_time, impl.target_time)
            mat = T.zeros(2, 2, dtype=T.float64)
            if world.matrix_changes:
                mat = mat + float(impl._timestep_index)
            return mat

        def _is_evaluation_time(observable, t, tolerance=1e-10):
            # which observable is due when is C14's subject: here due-ness is adversarial,
            # one flag per (observable, fill_results call)
            n = world.count("fill") - 1
            world.probes.append((n, t))
            key = (observable.name, n)
            if key not in world.due:
                world.due[key] = env.boolean(f"{observable.name} due at fill #{n}") if world.adversarial_due else True
            return world.due[key]

        impl._is_evaluation_time = _is_evaluation_time
        impl._evolve = _evolve
        impl.init_baths = init_baths
        impl._get_interaction_matrix = _get_interaction_matrix
        for nm in ("init_lindblad_noise", "init_dark_qubits", "init_noiseless_hamiltonian"):
            setattr(impl, nm, (lambda nm=nm: world.ev(nm)))
        impl.init_initial_state = lambda st=None: world.ev("init_initial_state")
        return impl


class Times:
    """target_times with symbolic entries at the indices the step can touch."""

    def __init__(self, entries, last):
        self.entries, self.last = entries, last

    def __getitem__(self, i):
        if i == -1:
            return self.last
        return self.entries[i]


# ---------------------------------------------------------------------------
# invariant
# ---------------------------------------------------------------------------
def in_gap_range(f, thr):
    """f = s - thr for a squared norm s in (0, 1]."""
    return b_and(-thr < f, f <= 1 - thr)


def inv(impl, tk, tk1, k, K):
    """Inv of a noisy run between two progress() calls, inside step k."""
    thr = impl.jump_threshold
    common = b_and(impl._timestep_index == k, 0 <= k, k < K, 0 < thr, thr < 1, tk < tk1)
    rf = impl.root_finder
    ct, g = impl.current_time, impl.norm_gap_before_jump
    if rf is None:
        return b_and(common, impl.target_time == tk1, tk <= ct, ct < tk1, g > 0, in_gap_range(g, thr))
    a, b, x = rf.a, rf.b, rf.next_abscissa
    core = b_and(a != b, rf.fa * rf.fb < 0, abs(rf.fb) <= abs(rf.fa))
    queued = b_and(rf.c == b, rf.fc == rf.fb, b_not(strictly_between(rf.d, a, b)), strictly_between(x, a, b))
    placed = b_and(tk <= a, a <= tk1, tk <= b, b <= tk1)
    vals = b_and(in_gap_range(rf.fa, thr), in_gap_range(rf.fb, thr))
    here = b_or(b_and(ct == a, g == rf.fa), b_and(ct == b, g == rf.fb))
    return b_and(common, core, queued, placed, vals, here, impl.target_time == x, rf.epsilon == 1)


# ---------------------------------------------------------------------------
# case: one inductive step
# ---------------------------------------------------------------------------
def step_inputs(env, last):
    tk = nonneg(env, "t_k")
    dt = pos(env, "dt")
    tk1 = tk + dt
    k = 3
    if last:
        K, tk2, t_end = k + 1, None, tk1
        entries = {k: tk, k + 1: tk1}
    else:
        K = k + 3
        tk2 = tk1 + pos(env, "dt_next")
        t_end = tk2 + nonneg(env, "rest")
        entries = {k: tk, k + 1: tk1, k + 2: tk2}
    return tk, tk1, tk2, t_end, k, K, Times(entries, t_end)


def inductive_step(search, last):
    def fn(env):
        m = env.mod("emu_mps.mps_backend_impl")
        bm = env.mod("emu_base.math.brents_root_finding")
        w = World(env)
        w.install(m, bm)
        try:
            try:
                run(env, m, w)
            except _Stop:
                return
        finally:
            w.restore(m)

    def run(env, m, w):
        tk, tk1, tk2, t_end, k, K, times = step_inputs(env, last)
        impl = w.make_impl(m, times, K, k)
        thr = env.real("thr", lo=0.0, hi=1.0)
        env.assume(b_and(thr > 0, thr < 1), "jump threshold in (0, 1)")
        impl.jump_threshold = thr
        if not search:
            ct = tk + nonneg(env, "ct-t_k", sample=0.5)
            env.assume(ct < tk1, "current_time < t_{k+1}")
            g_prev = pos(env, "gap_prev", sample=0.4)
            env.assume(g_prev <= 1 - thr, "previous gap = s - thr with s <= 1")
            impl.current_time, impl.target_time, impl.norm_gap_before_jump = ct, tk1, g_prev
            impl.state.n = sqrt(g_prev + thr)
            rf = old_a = old_b = None
        else:
            rf = object.__new__(w.Finder)
            rf.epsilon = 1
            lo = tk + nonneg(env, "bracket_lo-t_k", sample=0.5)
            hi = tk1 - nonneg(env, "t_k1-bracket_hi", sample=0.5)
            env.assume(lo < hi, "bracket inside the step")
            a, b = env.choice("orientation (a, b)", [(hi, lo), (lo, hi)])
            sgn = env.choice("sign(fa)", [1, -1])
            mfb = pos(env, "|fb|", sample=0.3)
            mfa = mfb + nonneg(env, "|fa|-|fb|", sample=0.3)
            fa, fb = sgn * mfa, -sgn * mfb
            env.assume(b_and(in_gap_range(fa, thr), in_gap_range(fb, thr)), "gaps are s - thr with s in (0, 1]")
            x = lo + pos(env, "x-bracket_lo", sample=1.0)
            env.assume(x < hi, "queued abscissa strictly inside the bracket")
            d = env.real("d", default_range=(-4.0, 12.0))
            env.assume(b_not(strictly_between(d, a, b)), "d is not strictly inside the bracket")
            rf.a, rf.b, rf.fa, rf.fb = a, b, fa, fb
            rf.c, rf.fc, rf.d = b, fb, d
            rf.bisection = env.boolean("bisection")
            rf.current_guess = b
            rf.next_abscissa = x
            at_a = env.boolean("current_time is a")
            ct, g_prev = (a, fa) if at_a else (b, fb)
            impl.root_finder = rf
            impl.current_time, impl.target_time, impl.norm_gap_before_jump = ct, x, g_prev
            impl.state.n = sqrt(g_prev + thr)
            old_a, old_b = a, b
        vc(env, inv(impl, tk, tk1, k, K), "constructed pre-state satisfies Inv")
        # T1 regime of C19 for this step: [t_k, t_{k+1}] with t_k > 0 and t_{k+1} - t_k < 2*eps*t_k, eps = 1
        regime = (tk1 - tk < 2 * tk) if not env.mutant("regime_any_step") else True
        pre = None
        if search:
            pre = (rf.bisection, rf.next_abscissa == (rf.a + rf.b) / 2, abs(rf.b - rf.a))
        if not search:
            w.matrix_changes = env.boolean("interaction matrix changes")
        target_pre = impl.target_time
        # ------------------------------------------------------------------ one unit of work
        impl.progress()
        # ------------------------------------------------------------------
        tr = w.trace
        ev0 = tr[0]
        vc(env, b_and(ev0[0] == "evolve", ev0[2] == (0, 1), ev0[3] is False), "progress() evolves the two sites once")
        vc(env, ev0[1] == target_pre - ct, "the evolution spans target_time - current_time")
        vc(env, w.count("evolve") == 1, "exactly one evolution per progress()")
        n_step, n_jump = w.count("stat"), w.count("jump")
        vc(env, n_step + n_jump <= 1, "at most one event (step completion or jump) per sweep")
        if n_step:
            post_step(env, w, impl, tk, tk1, tk2, t_end, k, K, last, rf, target_pre)
        elif n_jump:
            post_jump(env, w, impl, tk, tk1, k, K, rf, target_pre, old_a, old_b)
        else:
            post_quiet(env, w, impl, tk, tk1, k, K, rf, target_pre, ct, g_prev, regime, pre)

    def post_step(env, w, impl, tk, tk1, tk2, t_end, k, K, last, rf, target_pre):
        vc(env, rf is None, "a step completes only when no jump search is active")
        vc(env, b_and(impl.current_time == tk1, target_pre == tk1), "a step completes only at current_time = t_{k+1}")
        vc(env, impl.root_finder is None, "no search after a completed step")
        idx = k + 1 if not env.mutant("index_not_advanced") else k
        vc(env, impl._timestep_index == idx, "the step index advances by exactly one")
        vc(env, impl.norm_gap_before_jump >= 0, "a step completes only with a non-negative norm gap")
        frac = tk1 / t_end
        fills = w.events("fill")
        want_fill = 1 if not env.mutant("fill_twice") else 2
        vc(env, len(fills) == want_fill, "fill_results runs exactly once per completed step")
        vc(env, fills[0][1] == tk1, "fill_results runs at current_time = t_{k+1}")
        vc(env, all(n == 0 and t == frac for n, t in w.probes), "due-ness is asked for the time t_{k+1}/T")
        names = [e[0] for e in w.trace if e[0] in ("obs", "stat", "update_H", "init_baths", "make_H", "interaction_matrix")]
        want_obs = [nm for nm in ("A", "B") if w.due[(nm, 0)]]
        got_obs = [e[1] for e in w.events("obs")]
        vc(env, got_obs == want_obs, "each due observable is recorded exactly once")
        vc(env, all(e[2] == frac and e[3] for e in w.events("obs")), "observables see the normalised state at t_{k+1}/T")
        tail = ["interaction_matrix"] + ["make_H"] * w.matrix_changes + ([] if last else ["update_H", "init_baths"]) + ["stat"]
        vc(env, impl.hamiltonian == ("H'" if w.matrix_changes else "H"), "the Hamiltonian is rebuilt iff the interaction matrix changed")
        want_names = ["update_H"] + ["obs"] * len(want_obs) + tail
        vc(env, names == want_names, "order: noiseless H of step k, observables, interaction matrix, H of step k+1, baths, statistics")
        ups = w.events("update_H")
        vc(env, ups[0][1] == k and ups[0][2] is False, "update_H_no_noise uses the drive of step k")
        if not last:
            vc(env, ups[1][1] == k + 1 and ups[1][2] is True, "update_H uses the drive of step k+1 with the noise term")
            vc(env, impl.target_time == tk2, "the next target is t_{k+2}")
            vc(env, not impl.is_finished(), "not finished before the last step")
            vc(env, inv(impl, tk1, tk2, k + 1, K), "Inv holds again (step k+1)")
        else:
            vc(env, impl.is_finished(), "finished after the last step")
        vc(env, w.events("stat")[0][1] == frac, "statistics are recorded at t_{k+1}/T")
        vc(env, impl.statistics.data == [0.0], "one timing entry per step")

    def post_jump(env, w, impl, tk, tk1, k, K, rf, target_pre, old_a, old_b):
        vc(env, rf is not None, "a jump happens only at the end of a search")
        a, b = rf.a, rf.b
        tau = w.events("jump")[0][1]
        vc(env, b_and(tau == target_pre, impl.current_time == tau), "the jump is applied at the queried time")
        near = abs(b - a) < 1
        if env.mutant("tolerance_half"):
            near = abs(b - a) * 2 < 1
        vc(env, near, "a jump happens only when the bracket is shorter than the 1 ns tolerance")
        at_end = b_or(tau == a, tau == b)
        if env.mutant("jump_at_best_guess"):
            at_end = tau == b
        vc(env, at_end, "the jump time is an end of the final bracket")
        vc(env, rf.fa * rf.fb < 0, "the norm gap changes sign across the final bracket")
        vc(
            env,
            b_and(weakly_between(a, old_a, old_b), weakly_between(b, old_a, old_b), tk <= a, a <= tk1, tk <= b, b <= tk1),
            "the final bracket lies inside the previous bracket inside the current step",
        )
        vc(env, b_and(tk < tau, tau < tk1), "the jump time is strictly inside the current step")
        vc(env, impl.root_finder is None, "the search is cleared after a jump")
        vc(env, impl.target_time == tk1, "after a jump the target is the end of the step")
        vc(env, impl._timestep_index == k, "a jump does not advance the step index")
        vc(env, w.count("fill") + w.count("obs") + w.count("update_H") == 0, "a jump records nothing")
        names = [e[0] for e in w.trace[1:]]
        vc(
            env,
            names == ["expect_batch", "choices", "jump", "orthogonalize", "rescale", "init_baths", "uniform"],
            "jump sequence: weights, choice, apply, orthogonalise, normalise, baths, new threshold",
        )
        vc(env, impl.state.n == 1, "the state is normalised after the jump")
        thr2 = impl.jump_threshold
        vc(env, b_and(0 < thr2, thr2 < 1, impl.norm_gap_before_jump == 1 - thr2), "new threshold in (0,1), gap = 1 - threshold")
        vc(env, inv(impl, tk, tk1, k, K), "Inv holds again (after the jump)")

    def post_quiet(env, w, impl, tk, tk1, k, K, rf, target_pre, ct, g_prev, regime, pre):
        vc(env, len(w.trace) == 1, "no event: nothing is recorded, no jump")
        vc(env, impl._timestep_index == k, "the step index is unchanged")
        nrf = impl.root_finder
        vc(env, nrf is not None, "without an event a search is active")
        if rf is None:
            vc(env, impl.norm_gap_before_jump < 0, "a search starts only on a negative norm gap")
            vc(
                env,
                b_or(
                    b_and(nrf.a == ct, nrf.b == tk1, nrf.fa == g_prev, nrf.fb == impl.norm_gap_before_jump),
                    b_and(nrf.b == ct, nrf.a == tk1, nrf.fb == g_prev, nrf.fa == impl.norm_gap_before_jump),
                ),
                "the new search brackets [previous time, t_{k+1}] with the two gaps",
            )
            vc(env, nrf.epsilon == 1, "the solver's epsilon is 1")
            vc(
                env,
                b_implies(regime, b_and(nrf.bisection, nrf.next_abscissa == (nrf.a + nrf.b) / 2)),
                "progress (T1 regime): a new search starts with a bisection and the flag set",
            )
        else:
            vc(env, nrf is rf, "the same finder continues")
            vc(env, abs(rf.b - rf.a) >= 1, "the search continues only while the bracket is at least 1 ns long")
            flag, mid, width = pre
            vc(
                env,
                b_implies(
                    b_and(regime, flag, mid),
                    b_and(rf.bisection, rf.next_abscissa == (rf.a + rf.b) / 2, abs(rf.b - rf.a) * 2 == width),
                ),
                "progress (T1 regime): a bisecting search keeps bisecting and the bracket halves every sweep",
            )
        vc(env, impl.current_time == target_pre, "current_time is the queried time")
        vc(env, inv(impl, tk, tk1, k, K), "Inv holds again (search active)")

    return fn


# ---------------------------------------------------------------------------
# case: bounded unrolling from the real init()
# ---------------------------------------------------------------------------
def unrolling(max_sweeps, max_jumps=1, dt_options=None):
    K = 2

    def fn(env):
        m = env.mod("emu_mps.mps_backend_impl")
        bm = env.mod("emu_base.math.brents_root_finding")
        w = World(env, adversarial_due=False)
        w.install(m, bm)
        try:
            try:
                run(env, m, w)
            except _Stop:
                return
        finally:
            w.restore(m)

    def run(env, m, w):
        dt = pos(env, "dt", hi=4.0) if dt_options is None else env.choice("dt", dt_options)
        times = [0.0, dt, 2 * dt]
        t_end = times[-1]
        impl = w.make_impl(m, times, K, 0)
        impl.target_time = times[1]  # as set by MPSBackendImpl.__init__
        vc(env, impl.current_time == 0.0 and not impl.is_finished(), "fresh implementation starts at t = 0")
        impl.init()
        names = [e[0] for e in w.trace]
        vc(
            env,
            names
            == ["init_lindblad_noise", "init_dark_qubits", "init_initial_state", "init_noiseless_hamiltonian",
                "fill", "obs", "obs", "update_H", "init_baths", "uniform"],
            "init(): noise, dark qubits, state, Hamiltonian, results at t = 0, H of step 0, baths, threshold",
        )
        vc(env, inv(impl, times[0], times[1], 0, K), "Inv holds after init()")
        sweeps = 0
        while not impl.is_finished():
            if sweeps == max_sweeps:
                raise _Stop()  # bound of the unrolling: nothing is claimed beyond it
            k = impl._timestep_index
            n_before = len(w.trace)
            impl.progress()
            sweeps += 1
            new = [e[0] for e in w.trace[n_before:]]
            vc(env, new.count("stat") + new.count("jump") <= 1, f"sweep {sweeps}: at most one event")
            if impl.root_finder is not None and w.count("jump") >= max_jumps:
                raise _Stop()  # more jumps than the bound
            k2 = impl._timestep_index
            vc(env, k2 == k + new.count("stat"), f"sweep {sweeps}: the step index advances exactly on a step completion")
            if not impl.is_finished():
                vc(env, inv(impl, times[k2], times[k2 + 1], k2, K), f"sweep {sweeps}: Inv holds on the reached state")
        # ------------------------------------------------------------------ finished
        vc(env, impl._timestep_index == K and impl.current_time == times[K], "finished exactly at the last target time")
        fills = [e[1] for e in w.events("fill")]
        want = list(times) if not env.mutant("skip_first_record") else list(times[1:])
        vc(env, len(fills) == len(want) and all(f == t for f, t in zip(fills, want)), "results are filled once at t_0, t_1, t_2, in order")
        obs = w.events("obs")
        vc(
            env,
            [e[1] for e in obs] == ["A", "B"] * (K + 1) and all(e[2] == times[i // 2] / t_end for i, e in enumerate(obs)),
            "every observable is recorded exactly once per due time",
        )
        stats = [e[1] for e in w.events("stat")]
        vc(env, len(stats) == K and all(s == times[i + 1] / t_end for i, s in enumerate(stats)), "statistics once per step, in order")
        ups = [(e[1], e[2]) for e in w.events("update_H")]
        vc(env, ups == [(0, True), (0, False), (1, True), (1, False)], "Hamiltonian updates: step 0 (noisy), 0 (noiseless), 1 (noisy), 1 (noiseless)")
        # every jump lies strictly inside the step in which it happened
        step = 0
        ok = True
        for e in w.trace:
            if e[0] == "stat":
                step += 1
            elif e[0] == "jump":
                ok = b_and(ok, times[step] < e[1], e[1] < times[step + 1])
        vc(env, ok, "every jump time lies strictly inside the step that was being evolved")
        vc(env, w.count("jump") <= max_jumps, "jump bound respected")

    return fn


META = {
    "explanation": (
        "The real NoisyMPSBackendImpl.sweep_complete / set_jump_threshold / do_random_quantum_jump / timestep_complete / init, "
        "MPSBackendImpl.progress / timestep_complete / fill_results / update_H / update_H_no_noise / save_simulation / is_finished "
        "and the real BrentsRootFinder run on symbolic Python scalars; the object is created with object.__new__ and only the "
        "fields those methods read. Everything tensor-valued is a recording stub that emits trace events: state.norm() returns "
        "the square root of a fresh adversarial squared norm in (0,1] chosen by the _evolve stub, random.uniform returns a fresh "
        "real of the open interval, random.choices the first element, math.isclose is lifted to exact reals, update_H / make_H / "
        "init_baths / statistics / observables / _get_interaction_matrix record their arguments; which observable is due at "
        "which time is adversarial (that is C14's subject). qubit_count = 2, so one progress() is one _evolve plus one "
        "sweep_complete(). "
        "step_*: ONE progress() from an ARBITRARY pre-state satisfying Inv (0 <= k < K; t_k <= current_time < t_{k+1}; threshold "
        "in (0,1); either no search, target_time = t_{k+1} and a positive previous gap, or a finder with the C19 invariant after "
        "a query was queued: bracket inside [t_k, t_{k+1}], opposite gap signs at its ends, |fb| <= |fa|, target_time = "
        "next_abscissa strictly inside the bracket, current_time an end of the bracket) with an arbitrary new squared norm. "
        "z3 decides on every path: Inv holds again; at most one event; a step completes only with current_time = t_{k+1} and no "
        "search, advances k by one, calls fill_results exactly once at t_{k+1} with the normalised state, every due observable "
        "once, in the order noiseless H(k) -> results -> interaction matrix -> H(k+1) -> baths -> statistics; a jump happens only "
        "when |b-a| < 1, at the queried time, which is an end of the final bracket, strictly inside the current step, with a sign "
        "change of the norm gap across that bracket; after a jump the search is cleared, the state normalised, the threshold "
        "redrawn in (0,1) and target_time = t_{k+1}; otherwise a search is active on a smaller bracket. The divisors of the "
        "secant step are VCs in front of every get_next_abscissa (a subclass of the real finder adds them). "
        "Progress: in every step with t_{k+1}-t_k < 2 t_k (C19's lemma T1 with the solver's epsilon = 1: all steps but the first "
        "of a uniform grid) a search starts by bisection and every further sweep halves the bracket, so a search takes at most "
        "ceil(log2(dt)) + 2 sweeps. unroll_*: the real init() followed by progress() until is_finished(), K = 2 steps, at most "
        "one jump, bounded number of sweeps: reached states satisfy Inv, and a finished run has filled results exactly once at "
        "t_0, t_1, t_2 in order, statistics once per step, Hamiltonian updates in order, every jump strictly inside its step."
    ),
    "outside": [
        "'terminates' is relative to finitely many jumps: an adversarial norm can request a new jump after every jump, "
        "infinitely often in finite time; the claim is: K step completions, and per jump one search of at most "
        "ceil(log2(dt))+2 sweeps in the T1 regime (t_{k+1}-t_k < 2 t_k)",
        "search length in the first step of a grid (t_0 = 0) and in steps with t_{k+1}-t_k >= 2 t_k: only the bounded unrolling",
        "unrolling bound: K = 2, <= 1 jump; quick: dt = 0.5 with <= 4 sweeps and dt = 3 with <= 3 sweeps; thorough: <= 5 sweeps "
        "for dt in {0.5, 3} and <= 4 sweeps for symbolic dt in (0,4]",
        "more than 2 qubits (progress() then runs several partial sweeps before sweep_complete(); the sweep logic is C02's)",
        "floating-point rounding (exact reals); math.isclose is read over the reals",
        "the numerical evolution, the jump operator choice, baths and Hamiltonian construction (stubbed)",
    ],
    "assumptions": [
        "squared norms returned by the evolution lie in (0, 1]",
        "the norm gap (squared norm - threshold) is never exactly 0 at an evaluated time (probability zero; an exact zero at "
        "a step end followed by a negative gap makes BrentsRootFinder's constructor assert fail)",
        "random.uniform(0, b) returns a value of the open interval (0, b)",
        "the step index k enters the code only through target_times[k+1] and k >= K: the inductive step uses k = 3",
    ],
}


def cases(tier):
    out = []
    for search in (False, True):
        for last in (False, True):
            if search and last and tier == "quick":
                continue  # a sweep of an active search does not depend on whether the step is the last one
            out.append(
                Case(
                    name=f"step_{'search' if search else 'idle'}_{'last' if last else 'inner'}",
                    fn=inductive_step(search, last),
                    covers=COVERS,
                    bounds={"pre-state": "arbitrary, satisfying Inv", "search active": search, "last step": last, "sweeps": 1},
                    canaries=["tolerance_half", "jump_at_best_guess", "regime_any_step"] if search else ["index_not_advanced", "fill_twice", "regime_any_step"],
                )
            )
    quick = tier == "quick"
    for ms, dts in ([(4, [0.5]), (3, [3.0])] if quick else [(5, [0.5]), (5, [3.0]), (4, None)]):
        out.append(
            Case(
                name=f"unroll_K2_sweeps{ms}_{'dtsym' if dts is None else 'dt' + str(dts[0])}",
                fn=unrolling(ms, 1, dts),
                covers=COVERS,
                bounds={"steps K": 2, "dt": dts or "(0, 4]", "sweeps": ms, "jumps": "<= 1"},
                canaries=["skip_first_record"],
                weight=5.0,
                deadline_s=800.0,
            )
        )
    return out
