"""Shared scaffolding for the emu-mps backend harnesses (C02, C03, C25)."""

import itertools
from types import SimpleNamespace

from symex import refs
from harness.svcommon import Recorder


class OptimatProxy:
    """emu_mps.optimatrix with minimize_bandwidth replaced by an arbitrary
    permutation chosen by the explorer (SciPy's RCM is an opaque candidate
    generator: any permutation of range(n) is a possible outcome)."""

    def __init__(self, real, perm_tensor, log):
        self._real = real
        self._perm = perm_tensor
        self._log = log

    def minimize_bandwidth(self, matrix, *a, **k):
        self._log.append(matrix)
        return self._perm

    def __getattr__(self, name):
        return getattr(self._real, name)


def mps_config(**kw):
    """duck-typed MPSConfig carrying every option the real one has (a change that starts reading another
    option must not trip over the stub).  `dt` is deliberately unrelated to the symbolic time grids."""
    base = dict(
        dt=7.0,
        optimize_qubit_ordering=True,
        autosave_prefix="verif_",
        autosave_dt=float("inf"),
        num_gpus_to_use=0,
        precision=1e-5,
        max_bond_dim=1024,
        max_krylov_dim=100,
        extra_krylov_tolerance=1e-3,
        interaction_cutoff=0.0,
        log_level=20,
        log_file=None,
        initial_state=None,
        observables=[],
        solver="tdvp",
        with_modulation=False,
        noise_model=SimpleNamespace(noise_types=()),
        n_trajectories=1,
        interaction_matrix=None,
        prefer_device_noise_model=False,
    )
    base.update(kw)
    return SimpleNamespace(**base)


def build_mps_impl(env, data, config, perm, cls_name="MPSBackendImpl"):
    """Runs the real MPSBackendImpl.__init__ with pulser's Results/Statistics
    replaced (they cannot be built from symbolic times; Statistics is also
    broken under pulser 1.9.1) and the bandwidth optimiser returning `perm`."""
    T = env.torch
    mm = env.mod("emu_mps.mps_backend_impl")
    log = []
    saved = (mm.Results, mm.Statistics, mm.optimat)
    mm.Results = Recorder
    mm.Statistics = lambda **kw: SimpleNamespace(**kw)
    mm.optimat = OptimatProxy(saved[2], T.tensor(list(perm)), log)
    try:
        impl = getattr(mm, cls_name)(config, data)
    finally:
        mm.Results, mm.Statistics, mm.optimat = saved
    impl._optim_inputs = log
    return impl


def kept_sites(perm, bad):
    """internal sites (in order) that hold a well-prepared atom, as register indices."""
    return [a for a in perm if not bad[a]]


def h_ref_internal(env, omega_row, delta_row, phi_row, U, atoms, kind="rydberg", d=2, noise=None):
    """dense Hamiltonian of the register atoms `atoms` (in that site order)."""
    T = env.torch
    n = len(atoms)
    om = T.stack([omega_row[a] for a in atoms])
    de = T.stack([delta_row[a] for a in atoms])
    ph = T.stack([phi_row[a] for a in atoms])
    Ur = T.zeros(n, n, dtype=U.dtype)
    for i, a in enumerate(atoms):
        for j, b in enumerate(atoms):
            if i != j:
                Ur[i, j] = U[a, b]
    mk = refs.dense_rydberg if kind == "rydberg" else refs.dense_xy
    return mk(T, om, de, ph, Ur, n, d, noise=noise)


def all_perms(n):
    return [list(p) for p in itertools.permutations(range(n))]
