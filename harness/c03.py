"""C03 — results are independent of atom labelling and internal qubit reordering."""

import uuid as _uuid
from collections import Counter
from types import SimpleNamespace

from symex.api import Case
from symex import refs
from harness.svcommon import make_data
from harness.mpscommon import build_mps_impl, mps_config, all_perms
from harness.c02 import drive_update

PROPERTY = "C03"

COVERS = [
    ("emu_mps/mps_backend_impl.py", "MPSBackendImpl.__init__"),
    ("emu_mps/mps_backend_impl.py", "MPSBackendImpl._get_interaction_matrix"),
    ("emu_mps/mps_backend_impl.py", "MPSBackendImpl.init_initial_state"),
    ("emu_mps/mps_backend_impl.py", "MPSBackendImpl.init_noiseless_hamiltonian"),
    ("emu_mps/mps_backend_impl.py", "MPSBackendImpl.permute_results"),
    ("emu_mps/mps_backend_impl.py", "permute_bitstrings"),
    ("emu_mps/mps_backend_impl.py", "permute_occupations_and_correlations"),
    ("emu_mps/mps_backend_impl.py", "permute_atom_order"),
    ("emu_mps/optimatrix/permutations.py", "permute_tensor"),
    ("emu_mps/optimatrix/permutations.py", "permute_string"),
    ("emu_mps/optimatrix/permutations.py", "inv_permutation"),
    ("emu_sv/hamiltonian.py", "RydbergHamiltonian.__mul__"),
    ("emu_sv/custom_callback_implementations.py", "qubit_occupation_sv_impl"),
    ("emu_sv/custom_callback_implementations.py", "correlation_matrix_sv_impl"),
]


class FakeResults:
    """The slice of pulser's Results that permute_results touches."""

    def __init__(self, atom_order):
        self.atom_order = tuple(atom_order)
        self._tagmap = {}
        self._results = {}

    def put(self, tag, values):
        u = _uuid.uuid4()
        self._tagmap[tag] = u
        self._results[u] = values

    def get_result_tags(self):
        return list(self._tagmap)

    def _find_uuid(self, tag):
        return self._tagmap[tag]

    def get(self, tag):
        return self._results[self._tagmap[tag]]


def unpermute_results(n):
    def fn(env):
        T = env.torch
        mm = env.mod("emu_mps.mps_backend_impl")
        perm = env.choice("perm", all_perms(n))
        ids = tuple(f"q{i}" for i in range(n))
        data, sym = make_data(env, n, 1, last_time=40)
        impl = build_mps_impl(env, data, mps_config(optimize_qubit_ordering=True), perm)
        env.check(tuple(impl.results.atom_order) == tuple(ids[perm[i]] for i in range(n)), "during the run results list atoms in internal order: site i is atom perm[i]")
        res = FakeResults(impl.results.atom_order)
        occ_site = [env.tensor_real(f"occ{t}", (n,)) for t in range(2)]
        corr_site = [env.tensor_real("corr", (n, n))]
        bits = ["".join(env.choice(f"b{k}_{i}", ["0", "1"]) for i in range(n)) for k in range(2)]
        if bits[0] == bits[1]:
            bits = bits[:1]
        res.put("occupation", [o.clone() for o in occ_site])
        res.put("correlation_matrix", [c.clone() if env.boolean("corr_as_tensor") else c.tolist() for c in corr_site])
        res.put("bitstrings", [Counter({b: 3 + k for k, b in enumerate(bits)})])
        energy = env.real("energy")
        res.put("energy", [energy])
        out = impl.permute_results(res, True)
        env.check(out is res, "permute_results returns the results object")
        env.check(tuple(res.atom_order) == ids, "after the run results list atoms in register order")
        p = perm if not env.mutant("forward_instead_of_inverse") else [perm.index(i) for i in range(n)]
        for t in range(2):
            got = res.get("occupation")[t]
            for i in range(n):
                env.check_eq(got[p[i]], occ_site[t][i], f"occupation of register atom perm[{i}] is the value measured on site {i}")
        gotc = res.get("correlation_matrix")[0]
        for i in range(n):
            for j in range(n):
                env.check_eq(gotc[p[i], p[j]], corr_site[0][i, j], f"correlation[perm[{i}],perm[{j}]] is the value measured on sites {i},{j}")
        gotb = res.get("bitstrings")[0]
        want = Counter()
        for k, b in enumerate(bits):
            chars = [None] * n
            for i in range(n):
                chars[p[i]] = b[i]
            want["".join(chars)] += 3 + k
        env.check(dict(gotb) == dict(want), "bitstring character of register atom perm[i] is the outcome of site i; counts preserved")
        env.check(res.get("energy")[0] is energy, "permutation-invariant results are untouched")
        # permute=False leaves everything as is
        res2 = FakeResults(impl.results.atom_order)
        res2.put("occupation", [occ_site[0].clone()])
        impl.permute_results(res2, False)
        env.check_eq(res2.get("occupation")[0], occ_site[0], "permute=False leaves results untouched")

    return fn


def relabel_covariance_sv(n):
    """Relabelling the atoms of the inputs conjugates emu-sv's Hamiltonian by the
    permutation operator and permutes occupations / correlations."""

    def fn(env):
        T = env.torch
        hs = env.mod("emu_sv.hamiltonian")
        cb = env.mod("emu_sv.custom_callback_implementations")
        svs = env.mod("emu_sv.state_vector")
        pi = env.choice("pi", all_perms(n))
        om = env.tensor_real("omega", (n,), dtype=T.complex128)
        de = env.tensor_real("delta", (n,), dtype=T.complex128)
        ph = env.tensor_real("phi", (n,), dtype=T.complex128)
        U = env.sym_matrix("U", n)
        v = env.tensor_cplx("v", (2**n,))
        idx = T.tensor(pi)
        H0 = hs.RydbergHamiltonian(omegas=om, deltas=de, phis=ph, interaction_matrix=U, device="cpu")
        H1 = hs.RydbergHamiltonian(omegas=om[idx], deltas=de[idx], phis=ph[idx], interaction_matrix=U[idx][:, idx], device="cpu")
        P = refs.permutation_operator(T, pi)  # (P psi)[s] = psi[t], t[pi[k]] = s[k]: relabelled site k is original atom pi[k]
        if env.mutant("no_conjugation"):
            P = T.eye(2**n, dtype=T.complex128)
        w = P.mT @ v
        env.check_eq(H1 * v.clone(), P @ (H0 * w.clone()), f"H(relabelled inputs) = P H P^T (n={n})")
        e1 = T.vdot(v, H1 * v.clone())
        e0 = T.vdot(w, H0 * w.clone())
        env.check_eq(e1, e0, "energy is invariant under relabelling")
        st1 = svs.StateVector(v.clone(), gpu=False)
        st0 = svs.StateVector(w.clone(), gpu=False)
        o1 = cb.qubit_occupation_sv_impl(None, config=None, state=st1, hamiltonian=None)
        o0 = cb.qubit_occupation_sv_impl(None, config=None, state=st0, hamiltonian=None)
        c1 = cb.correlation_matrix_sv_impl(None, config=None, state=st1, hamiltonian=None)
        c0 = cb.correlation_matrix_sv_impl(None, config=None, state=st0, hamiltonian=None)
        for k in range(n):
            env.check_eq(o1[k], o0[pi[k]], f"occupation of relabelled site {k} = occupation of original atom pi[{k}]")
            for l in range(n):
                env.check_eq(c1[k, l], c0[pi[k], pi[l]], f"correlation of relabelled sites {k},{l} = that of the original atoms")

    return fn


def initial_state_permuted(n):
    """The user's initial state is re-expressed in the internal order with the same permutation."""

    def fn(env):
        T = env.torch
        mm = env.mod("emu_mps.mps_backend_impl")
        perm = env.choice("perm", all_perms(n))
        data, sym = make_data(env, n, 1, last_time=40)
        impl = build_mps_impl(env, data, mps_config(optimize_qubit_ordering=True), perm)
        impl.init_dark_qubits()
        keys = ["".join(env.choice(f"k{j}_{i}", ["r", "g"]) for i in range(n)) for j in range(2)]
        if keys[0] == keys[1]:
            keys = keys[:1]
        amps = {k: env.cplx(f"amp{j}") for j, k in enumerate(keys)}
        seen = {}

        class FakeMPS:
            """records what init_initial_state builds; the numerics (truncate, norm) are stubs"""

            eigenstates = ("r", "g")

            def __init__(self, factors=None, **kw):
                self.factors = factors or []
                self.orthogonality_center = 0

            @classmethod
            def from_state_amplitudes(cls, *, eigenstates, amplitudes):
                seen["amplitudes"] = dict(amplitudes)
                seen["eigenstates"] = eigenstates
                return cls([])

            def _to_abstract_repr(self):
                return {"eigenstates": ("r", "g"), "amplitudes": dict(amps)}

            def truncate(self):
                seen["truncated"] = True

            def norm(self):
                return 1.0

            def __imul__(self, c):
                return self

            def orthogonalize(self, i):
                seen["center"] = i

        saved = mm.MPS
        mm.MPS = FakeMPS
        try:
            impl.init_initial_state(FakeMPS([]))
        finally:
            mm.MPS = saved
        identity = perm == list(range(n))
        if identity:
            env.check("amplitudes" not in seen, "identity ordering: the initial state is used as given")
        else:
            want = {}
            for k, a in amps.items():
                newk = "".join(k[perm[i]] for i in range(n)) if not env.mutant("inverse_perm") else "".join(k[perm.index(i)] for i in range(n))
                want[newk] = a
            env.check(set(seen.get("amplitudes", {})) == set(want), "amplitude keys: character i of the internal state is the level of atom perm[i]")
            for k in want:
                if k in seen.get("amplitudes", {}):
                    env.check_eq(seen["amplitudes"][k], want[k], "amplitudes follow their keys")
        env.check(seen.get("center") == 0 and seen.get("truncated"), "initial state is truncated and centred on site 0")

    return fn


META = {
    "explanation": (
        "(a) the MPO the solver uses equals P H P^dag for every internal permutation the optimiser may return (real __init__, "
        "_get_interaction_matrix, init_noiseless_hamiltonian, update_H; the bandwidth optimiser is an arbitrary permutation); "
        "(b) the real permute_results/permute_bitstrings/permute_occupations_and_correlations/permute_atom_order map symbolic "
        "per-site occupations, correlation matrices (tensor or list form) and bitstrings back so that register atom perm[i] gets "
        "the value of site i, atom order is restored, invariant results untouched; (c) relabelling the inputs of emu-sv conjugates "
        "its matrix-free Hamiltonian by the permutation operator and permutes occupations and correlations, energy invariant; "
        "(d) init_initial_state re-keys the user's amplitudes with the same permutation. All for every permutation of N <= 3/4 atoms."
    ),
    "outside": [
        "'up to the configured precision': truncation/Krylov error of the actual evolution; register sizes ~16",
        "bitstring *distributions* (sampling, C15)",
        "the MPS numerics inside init_initial_state (from_state_amplitudes/truncate use eigh/QR)",
    ],
    "assumptions": ["the bandwidth optimiser returns a permutation of range(N) (C32)"],
}


def cases(tier):
    out = []
    q = tier == "quick"
    for n, kind in ([(3, "rydberg"), (3, "xy")] if q else [(2, "rydberg"), (3, "rydberg"), (3, "xy"), (4, "rydberg")]):
        out.append(
            Case(
                f"mpo_permuted_{kind}_n{n}",
                drive_update(n, 2 if n < 4 else 1, kind, True, False),
                covers=COVERS,
                bounds={"atoms": n, "type": kind, "permutations": "all"},
                canaries=["stale_drive"] if n < 4 else [],
                weight=(2**n) ** 2 * 6,
                deadline_s=1800,
            )
        )
    for n in ([2, 3] if q else [2, 3, 4]):
        out.append(
            Case(f"unpermute_results_n{n}", unpermute_results(n), covers=COVERS, bounds={"atoms": n, "permutations": "all", "bitstrings": "all pairs"}, canaries=["forward_instead_of_inverse"] if n > 2 else [], weight=50 * n, deadline_s=1800)
        )
    for n in ([2, 3] if q else [2, 3]):
        out.append(Case(f"relabel_sv_n{n}", relabel_covariance_sv(n), covers=COVERS, bounds={"atoms": n, "permutations": "all"}, canaries=["no_conjugation"], weight=8**n))
    for n in ([3] if q else [2, 3, 4]):
        out.append(Case(f"initial_state_n{n}", initial_state_permuted(n), covers=COVERS, bounds={"atoms": n, "permutations": "all", "keys": "all pairs of basis strings"}, canaries=["inverse_perm"] if n > 2 else [], weight=30 * n))
    # the bad-atom mask follows the reordering as well (shared with C25)
    from harness.c25 import mps_bad_atoms

    out.append(
        Case(
            "bad_atom_mask_follows_the_ordering_n3",
            mps_bad_atoms(3, 2, True, min_good=2),
            covers=[("emu_mps/mps_backend_impl.py", "MPSBackendImpl.init_dark_qubits"), ("emu_mps/mps_backend_impl.py", "MPSBackendImpl._get_interaction_matrix")],
            bounds={"atoms": 3, "dim": 2, "masks": "all with >= 2 well-prepared atoms", "permutations": "all"},
            canaries=["register_order"],
            weight=400,
            deadline_s=1500,
        )
    )
    # the reordering is only switched on when every requested observable can be mapped back to register order
    # or does not depend on it (a user-order target state, as in Fidelity, cannot) - shared with C33
    from harness.c33 import reordering_vs_observables, COVERS_OBS

    out.append(
        Case(
            "reordering_only_with_order_independent_observables",
            reordering_vs_observables(1 if q else 2),
            covers=COVERS_OBS,
            bounds={"observables": "every subset of size <= %d of the 14 observable options" % (1 if q else 2), "optimize_qubit_ordering": "True/False"},
            canaries=["entropy_is_fine"],
            conc_samples=4,
            weight=10,
            max_paths=200000,
            deadline_s=800,
        )
    )
    return out
