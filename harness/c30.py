"""C30 — emu-sv gradients: the derivative operators used by the custom backward
are the exact partial derivatives of the Hamiltonian (decidable part)."""

from symex.api import Case
from symex import refs
from symex.env import scalar

PROPERTY = "C30"

BATCH = 2

COVERS_OMEGA = [
    ("emu_sv/time_evolution.py", "DHDOmegaSparse.__init__"),
    ("emu_sv/time_evolution.py", "DHDOmegaSparse.__matmul__"),
    ("emu_sv/time_evolution.py", "_apply_omega_real"),
    ("emu_sv/time_evolution.py", "_apply_omega_complex"),
]
COVERS_PHI = [
    ("emu_sv/time_evolution.py", "DHDPhiSparse.__init__"),
    ("emu_sv/time_evolution.py", "DHDPhiSparse.__matmul__"),
    ("emu_sv/time_evolution.py", "_apply_omega_complex"),
]
COVERS_DELTA = [
    ("emu_sv/time_evolution.py", "DHDDeltaSparse.__init__"),
    ("emu_sv/time_evolution.py", "DHDDeltaSparse.__matmul__"),
]
COVERS_U = [
    ("emu_sv/time_evolution.py", "DHDUSparse.__init__"),
    ("emu_sv/time_evolution.py", "DHDUSparse.__matmul__"),
]
COVERS_H = [
    ("emu_sv/hamiltonian.py", "RydbergHamiltonian.__init__"),
    ("emu_sv/hamiltonian.py", "RydbergHamiltonian.__mul__"),
]


def _params(env, n, zero_phase):
    T = env.torch
    omega = env.tensor_real("omega", (n,), dtype=T.complex128)
    delta = env.tensor_real("delta", (n,), dtype=T.complex128)
    if zero_phase:
        phi = T.zeros(n, dtype=T.complex128)
    else:
        phi = env.tensor_real("phi", (n,), dtype=T.complex128)
    U = env.sym_matrix("U", n)
    return omega, delta, phi, U


def _ham(env, omega, delta, phi, U):
    H_mod = env.mod("emu_sv.hamiltonian")
    return H_mod.RydbergHamiltonian(
        omegas=omega, deltas=delta, phis=phi, interaction_matrix=U, device="cpu"
    )


def _apply_rows(env, ham, vecs):
    T = env.torch
    return T.stack([ham * vecs[b] for b in range(vecs.shape[0])])


def _unit(T, n, k, dtype=None):
    e = T.zeros(n, dtype=dtype or T.complex128)
    e[k] = 1.0
    return e


def _rows_of(T, M, vecs):
    """(M v_b)_b for a dense matrix M and a batch of row vectors."""
    return vecs @ M.mT


def d_omega(n, zero_phase):
    def fn(env):
        T = env.torch
        te = env.mod("emu_sv.time_evolution")
        omega, delta, phi, U = _params(env, n, zero_phase)
        vecs = env.tensor_cplx("v", (BATCH, 2**n))
        before = vecs.clone()
        h0 = _apply_rows(env, _ham(env, omega, delta, phi, U), vecs)
        sx, sy = refs.sigma_x(T), refs.sigma_y(T)
        for k in range(n):
            op = te.DHDOmegaSparse(k, "cpu", n, phi[k])
            got = op @ vecs
            env.check(tuple(got.shape) == (BATCH, 2**n), f"dH/dOmega_{k} @ batch keeps the batch shape")
            # finite difference of the (affine) real Hamiltonian
            step = 2.0 if env.mutant("double_step") else 1.0
            h1 = _apply_rows(env, _ham(env, omega + step * _unit(T, n, k), delta, phi, U), vecs)
            env.check_eq(got, h1 - h0, f"dH/dOmega_{k} v = H(Omega_{k}+1) v - H(Omega) v (n={n})")
            # dense textbook form
            c, s = T.cos(phi[k]), T.sin(phi[k])
            if env.mutant("phase_sign"):
                s = -s
            dense = refs.embed(T, 0.5 * (c * sx + s * sy), k, n)
            env.check_eq(got, _rows_of(T, dense, vecs), f"dH/dOmega_{k} = (cos phi sx + sin phi sy)/2 (n={n})")
        env.check_eq(vecs, before, "operand unchanged")

    return fn


def d_phi(n, zero_phase):
    def fn(env):
        T = env.torch
        te = env.mod("emu_sv.time_evolution")
        omega, delta, phi, U = _params(env, n, zero_phase)
        vecs = env.tensor_cplx("v", (BATCH, 2**n))
        before = vecs.clone()
        sx, sy = refs.sigma_x(T), refs.sigma_y(T)
        zeros = T.zeros(n, dtype=T.complex128)
        noU = T.zeros(n, n, dtype=T.float64)
        for k in range(n):
            op = te.DHDPhiSparse(k, "cpu", n, omega[k], phi[k])
            got = op @ vecs
            env.check(tuple(got.shape) == (BATCH, 2**n), f"dH/dphi_{k} @ batch keeps the batch shape")
            c, s = T.cos(phi[k]), T.sin(phi[k])
            if env.mutant("phase_sign"):
                dloc = 0.5 * omega[k] * (s * sx - c * sy)
            elif env.mutant("no_omega"):
                dloc = 0.5 * (-s * sx + c * sy)
            else:
                dloc = 0.5 * omega[k] * (-s * sx + c * sy)
            dense = refs.embed(T, dloc, k, n)
            env.check_eq(got, _rows_of(T, dense, vecs), f"dH/dphi_{k} = Omega/2 (-sin phi sx + cos phi sy) (n={n})")
            # d/dphi (cos, sin)(phi) = (cos, sin)(phi + pi/2): the drive term of the
            # real Hamiltonian at the shifted phase, everything else switched off
            ek = _unit(T, n, k)
            shifted = (phi[k] + T.pi / 2) * ek
            # (at phi_k = -pi/2 the shifted reference would take RydbergHamiltonian's phase-free
            # branch, where the abstraction of cos/sin knows nothing about phi_k: excluded here,
            # the dense reference above has no such restriction)
            env.assume(scalar(phi[k]) + T.pi / 2 != 0, "phi_k != -pi/2 in the shifted-phase cross-check")
            hk = _ham(env, omega[k] * ek, zeros, shifted, noU)
            env.check_eq(
                got,
                _apply_rows(env, hk, vecs),
                f"dH/dphi_{k} v = drive term of the real H at phi_{k}+pi/2 (n={n})",
            )
        env.check_eq(vecs, before, "operand unchanged")

    return fn


def d_delta(n):
    def fn(env):
        T = env.torch
        te = env.mod("emu_sv.time_evolution")
        omega, delta, phi, U = _params(env, n, False)
        vecs = env.tensor_cplx("v", (BATCH, 2**n))
        before = vecs.clone()
        h0 = _apply_rows(env, _ham(env, omega, delta, phi, U), vecs)
        nn = refs.n_op(T)
        for k in range(n):
            got = te.DHDDeltaSparse(k, n) @ vecs
            env.check(tuple(got.shape) == (BATCH, 2**n), f"dH/dDelta_{k} @ batch keeps the batch shape")
            h1 = _apply_rows(env, _ham(env, omega, delta + _unit(T, n, k), phi, U), vecs)
            env.check_eq(got, h1 - h0, f"dH/dDelta_{k} v = H(Delta_{k}+1) v - H(Delta) v (n={n})")
            sign = 1.0 if env.mutant("delta_sign") else -1.0
            env.check_eq(got, _rows_of(T, sign * refs.embed(T, nn, k, n), vecs), f"dH/dDelta_{k} = -n_{k} (n={n})")
        env.check_eq(vecs, before, "operand unchanged by dH/dDelta @ v")

    return fn


def d_u(n):
    def fn(env):
        T = env.torch
        te = env.mod("emu_sv.time_evolution")
        omega, delta, phi, U = _params(env, n, False)
        vecs = env.tensor_cplx("v", (BATCH, 2**n))
        before = vecs.clone()
        h0 = _apply_rows(env, _ham(env, omega, delta, phi, U), vecs)
        nn = refs.n_op(T)
        for i in range(n):
            for j in range(i + 1, n):
                got = te.DHDUSparse(i, j, n) @ vecs
                env.check(tuple(got.shape) == (BATCH, 2**n), f"dH/dU_{i}{j} @ batch keeps the batch shape")
                U1 = U.clone()
                U1[i, j] = U1[i, j] + 1.0
                U1[j, i] = U1[j, i] + 1.0
                h1 = _apply_rows(env, _ham(env, omega, delta, phi, U1), vecs)
                env.check_eq(got, h1 - h0, f"dH/dU_{i}{j} v = H(U_{i}{j}+1) v - H(U) v (n={n})")
                ref = refs.embed2(T, nn, i, nn, j, n)
                if env.mutant("wrong_pair"):
                    ref = refs.embed(T, nn, i, n)  # drops n_j
                env.check_eq(got, _rows_of(T, ref, vecs), f"dH/dU_{i}{j} = n_{i} n_{j} (n={n})")
        env.check_eq(vecs, before, "operand unchanged by dH/dU @ v")

    return fn


COVERS_PCHIP = [
    ("emu_base/math/pchip_torch.py", "PCHIP1D.__init__"),
    ("emu_base/math/pchip_torch.py", "PCHIP1D.__call__"),
    ("emu_base/math/pchip_torch.py", "_pchip_derivatives"),
    ("emu_base/math/pchip_torch.py", "_weighted_harmonic_mean"),
    ("emu_base/math/pchip_torch.py", "_endpoint_slope"),
    ("emu_base/math/pchip_torch.py", "_limit_endpoint"),
    ("emu_base/math/pchip_torch.py", "_polynomial_coeffs"),
]


def pchip_gradient_finite(n_knots):
    """The gradient of the interpolated drive with respect to the samples is finite for every sample
    vector, flat and constant segments included.  PCHIP1D is built from +, -, *, /, sign, abs,
    comparisons and torch.where; reverse-mode differentiation of such a graph yields a non-finite
    gradient exactly when some division has a zero divisor - also when the quotient is afterwards
    discarded by torch.where (the discarded branch receives gradient 0 and 0/0 = nan).  Symbolically:
    every divisor met while the real code runs is recorded and z3 decides `divisor != 0` for all
    sample values.  On the real torch (sample runs and replay of counterexamples) the very gradient is
    computed with autograd and tested with isfinite."""

    def fn(env):
        T = env.torch
        pm = env.mod("emu_base.math.pchip_torch")
        ys = [env.real(f"y{k}", lo=-4.0, hi=4.0) for k in range(n_knots)]
        xs = [float(k) for k in range(n_knots)]
        xq = [k + 0.5 for k in range(n_knots - 1)] + [0.0, float(n_knots - 1)]
        label = f"d(sum of interpolated values)/d(samples) is finite ({n_knots} knots, flat segments included)"
        if env.mutant("flat_forbidden"):
            # vacuity canary: an oracle that outlaws flat segments must be refuted
            from symex.env import b_and

            env.check(b_and(*[ys[k + 1] != ys[k] for k in range(n_knots - 1)]), "canary: no two neighbouring samples are equal")
            return
        if env.mode == "real":
            y = T.tensor(ys, dtype=T.float64, requires_grad=True)
            out = pm.PCHIP1D(T.tensor(xs, dtype=T.float64), y)(T.tensor(xq, dtype=T.float64)).sum()
            out.backward()
            env.check(bool(T.isfinite(y.grad).all()), label)
            return
        from symex import poly
        from symex.env import b_and, b_not

        poly.DIV_LOG = []
        try:
            pm.PCHIP1D(T.tensor(xs, dtype=T.float64), T.tensor(ys, dtype=T.float64))(T.tensor(xq, dtype=T.float64))
        finally:
            log, poly.DIV_LOG = poly.DIV_LOG, None
        if env.mode != "sym":
            # concrete symtorch run (differential validation of the shim only): plain floats, nothing is logged
            env.check(True, label)
            return
        env.check(b_and(len(log) > 0, *[b_not(d == 0) for d in log]), label)

    return fn


def forward_saves_input_state(n):
    """forward() must hand backward() the state the step STARTED from.  krylov_exp documents that its input
    tensor "becomes invalid" (it is normalised in place), so forward may not save that very tensor after the
    call.  Symbolically krylov_exp is a stub honouring exactly that contract (returns an arbitrary vector and
    overwrites its argument with arbitrary values); on the real torch the real krylov_exp runs."""

    def fn(env):
        from types import SimpleNamespace

        T = env.torch
        te = env.mod("emu_sv.time_evolution")
        omega, delta, phi, U = _params(env, n, False)
        psi = env.tensor_cplx("psi", (2**n,))
        env.assume(scalar(T.linalg.vector_norm(psi)) > 0.01, "the input state is not (numerically) zero")
        psi0 = psi.clone()
        saved = {}
        # which inputs require a gradient: backward uses the saved state for EVERY parameter gradient
        # (omega, delta, phi and the interaction matrix), whichever of them is requested
        flags = env.choice("needs_input_grad (omega, delta, phi, U, state)", FLAG_SETS_SMALL)
        ctx = SimpleNamespace(needs_input_grad=(False,) + tuple(flags) + (False, False))
        ctx.save_for_backward = lambda *ts: saved.__setitem__("t", ts)
        old = te.krylov_exp
        if env.mode != "real":

            def fake_krylov_exp(op, v, *a, **k):
                out = env.tensor_cplx("evolved", tuple(v.shape))
                v[:] = env.tensor_cplx("leftover", tuple(v.shape))  # "the input tensor object v becomes invalid"
                return out

            te.krylov_exp = fake_krylov_exp
        try:
            te.EvolveStateVector.forward(ctx, 5.0, omega, delta, phi, U, psi, 1e-10, [])
        finally:
            te.krylov_exp = old
        ts = saved.get("t", ())
        env.check(len(ts) == 5, "forward saves (omegas, deltas, phis, interaction matrix, state) for backward")
        if len(ts) == 5:
            want = psi0 if not env.mutant("expects_scaled_state") else 2.0 * psi0
            if any(flags[:4]):
                env.check_eq(ts[4], want, f"the state saved for the backward pass is the state the step started from (n={n}, any norm)")
            if any(flags):
                # while gradients are tracked the input tensor belongs to the autograd graph (it is the previous
                # step's output; observables at that evaluation time were computed from it): modifying it in
                # place makes every later backward() fail ("modified by an inplace operation")
                env.check_eq(psi, psi0, f"forward leaves its input state tensor untouched while gradients are tracked (n={n})")
            env.check_eq(ts[0], omega, "saved amplitudes are the inputs")
            env.check_eq(ts[1], delta, "saved detunings are the inputs")
            env.check_eq(ts[2], phi, "saved phases are the inputs")

    return fn


def backward_zero_incoming_gradient(n):
    """A loss that is stationary at this step's output hands backward() the zero vector; the gradient of the
    step is then exactly zero and must come back as zeros - not as an exception or nan.  The Lanczos
    routines cannot start from the zero vector (v / |v|): symbolically they are stubs that check exactly
    that precondition, on the real torch the real ones run."""

    def fn(env):
        from types import SimpleNamespace

        T = env.torch
        te = env.mod("emu_sv.time_evolution")
        omega, delta, phi, U = _params(env, n, False)
        dim = 2**n
        state = env.tensor_cplx("psi", (dim,))
        env.assume(scalar(T.linalg.vector_norm(state)) > 0.01, "the input state is not (numerically) zero")
        gout = T.zeros(dim, dtype=T.complex128)
        ctx = SimpleNamespace(saved_tensors=(omega, delta, phi, U, state), dt=5.0, tolerance=1e-8, needs_input_grad=(False, True, True, True, True, True, False, False))
        saved = (te.double_krylov, te.krylov_exp)
        if env.mode != "real":

            def need_nonzero(v, who):
                if not bool(v.any()):
                    raise RecursionError(f"{who}: Lanczos iteration cannot start from the zero vector")

            def fake_double_krylov(op, s, g, tol):
                need_nonzero(s, "double_krylov(state)")
                need_nonzero(g, "double_krylov(grad)")
                return [s.clone()], T.zeros(1, 1, dtype=T.complex128), [g.clone()]

            def fake_krylov_exp(op, v, *a, **k):
                need_nonzero(v, "krylov_exp")
                return v.clone()

            te.double_krylov, te.krylov_exp = fake_double_krylov, fake_krylov_exp
        try:
            try:
                out = te.EvolveStateVector.backward(ctx, gout, None)
                raised = None
            except (RecursionError, RuntimeError, ZeroDivisionError) as e:
                out, raised = None, e
            env.check(raised is None, "backward with a zero incoming gradient returns (it does not raise)")
        finally:
            te.double_krylov, te.krylov_exp = saved
        if out is not None:
            names = ["omega", "delta", "phi", "interaction matrix", "state"]
            if env.mutant("expects_nonzero"):
                env.check_eq(out[1], T.ones_like(omega), "canary: gradient wrt omega is one")
            for name, g, like in zip(names, out[1:6], (omega, delta, phi, U, state)):
                env.check(g is not None, f"zero incoming gradient: a gradient is returned for {name}")
                if g is not None:
                    env.check_eq(g, 0.0 * like, f"zero incoming gradient: the gradient wrt {name} is exactly zero (finite)")

    return fn


def lanczos_annihilated_vector(n):
    """The Lanczos loop of double_krylov on a vector the operator annihilates (H|v> = 0 exactly: a delay acting
    on |g..g>, a free wait with H = 0): the Krylov space is exhausted after one vector and the loop must stop
    there - before dividing by the zero norm of the next one.  The real loop runs (it reaches no LAPACK kernel
    on this input); every divisor it meets is recorded and must be non-zero."""

    def fn(env):
        from symex import poly
        from symex.env import b_and, b_not

        T = env.torch
        dk = env.mod("emu_base.math.double_krylov")
        dim = 2**n
        v = env.tensor_cplx("v", (dim,))
        env.assume(scalar(T.linalg.vector_norm(v)) > 0.01, "the vector is not (numerically) zero")
        v0 = v.clone()

        def op(x):
            return 0.0 * x

        log = None
        if env.mode == "sym":
            poly.DIV_LOG = []
        try:
            try:
                vecs, Tm = dk.lanczos(op, v, 1e-8)
                raised = None
            except (RecursionError, ZeroDivisionError) as e:
                vecs, Tm, raised = None, None, e
        finally:
            if env.mode == "sym":
                log, poly.DIV_LOG = poly.DIV_LOG, None
        env.check(raised is None, "Lanczos on an annihilated vector stops (it does not raise)")
        if log is not None:
            env.check(b_and(True, *[b_not(d == 0) for d in log]), "Lanczos on an annihilated vector never divides by zero")
        else:
            env.check(True, "Lanczos on an annihilated vector never divides by zero")
        if vecs is not None:
            want_len = 1 if not env.mutant("expects_two_vectors") else 2
            env.check(len(vecs) == want_len, "the Krylov space of an annihilated vector has dimension 1")
            if len(vecs) >= 1:
                nrm = T.linalg.vector_norm(v0)
                env.check_eq(vecs[0] * nrm, v0, "the first Lanczos vector is v/|v|")
            env.check_eq(Tm, T.zeros(len(vecs), len(vecs), dtype=T.complex128), "the projected operator is zero")

    return fn


COVERS_BACKWARD = [
    ("emu_sv/time_evolution.py", "EvolveStateVector.backward"),
    ("emu_sv/time_evolution.py", "EvolveStateVector.get_hamiltonian"),
]

FLAG_NAMES = ["omega", "delta", "phi", "interaction_matrix", "state"]
FLAG_SETS_SMALL = [
    (True, True, True, True, True),
    (False, False, False, False, False),
    (True, False, False, False, False),
    (False, True, False, False, False),
    (False, False, True, False, False),
    (False, False, False, True, False),
    (False, False, False, False, True),
    (True, False, True, False, False),
    (False, True, True, False, True),
]


def backward_assembly(n, all_flag_sets):
    """EvolveStateVector.backward with double_krylov / krylov_exp as stubs returning arbitrary
    (symbolic) Krylov data: every requested gradient is assembled from the right derivative operator,
    for every combination of `needs_input_grad` flags."""

    def fn(env):
        from types import SimpleNamespace
        import itertools

        T = env.torch
        te = env.mod("emu_sv.time_evolution")
        omega, delta, phi, U = _params(env, n, False)
        dim = 2**n
        K = 2  # Krylov vectors per basis handed back by the stub
        state = env.tensor_cplx("psi", (dim,))
        gout = env.tensor_cplx("gpsi", (dim,))
        # (a zero incoming gradient is the subject of backward_zero_incoming_gradient; the Krylov stub below
        # returns data unrelated to its arguments, which is only meaningful for a non-zero gradient)
        env.assume(scalar(T.linalg.vector_norm(gout)) > 0.01, "the incoming gradient is not (numerically) zero")
        dt = env.real("dt", lo=0.001, hi=100.0)
        sets = list(itertools.product([False, True], repeat=5)) if all_flag_sets else FLAG_SETS_SMALL
        flags = env.choice("needs_input_grad", sets)
        ctx = SimpleNamespace(saved_tensors=(omega, delta, phi, U, state), dt=dt, tolerance=1e-8, needs_input_grad=(False,) + tuple(flags) + (False, False))
        Vs = [env.tensor_cplx(f"Vs{k}", (dim,)) for k in range(K)]
        Vg = [env.tensor_cplx(f"Vg{k}", (dim,)) for k in range(K)]
        dS = env.tensor_cplx("dS", (K, K))
        gin = env.tensor_cplx("gin", (dim,))
        probe = env.tensor_cplx("x", (dim,))
        Hd = refs.dense_rydberg(T, omega, delta, phi, U, n, 2)
        rec = {"dk": [], "ke": []}

        def fake_double_krylov(op, s, g, tol):
            rec["dk"].append((op, s, g, tol))
            return list(Vs), dS, list(Vg)

        def fake_krylov_exp(op, v, *a, **k):
            rec["ke"].append((op, v.clone()))
            v *= 0  # "the input tensor object v becomes invalid" (the real one normalises it in place)
            return gin

        gout0 = gout.clone()

        saved = (te.double_krylov, te.krylov_exp)
        te.double_krylov, te.krylov_exp = fake_double_krylov, fake_krylov_exp
        try:
            out = te.EvolveStateVector.backward(ctx, gout, None)
        finally:
            te.double_krylov, te.krylov_exp = saved
        env.check(len(out) == 8 and out[0] is None and out[6] is None and out[7] is None, "backward returns one slot per forward input; non-tensor inputs get None")
        need_o, need_d, need_p, need_u, need_s = flags
        for name, need, g in zip(FLAG_NAMES, flags, out[1:6]):
            if need:
                env.check(g is not None, f"a gradient is returned for `{name}` whenever it is requested (requested: {[m for m, f in zip(FLAG_NAMES, flags) if f]})")
        if any(flags[:4]):
            env.check(len(rec["dk"]) == 1, "one double Krylov decomposition per backward call")
            if rec["dk"]:
                op, s, g, tol = rec["dk"][0]
                env.check_eq(s, state, "double_krylov gets the saved input state")
                env.check_eq(g, gout, "double_krylov gets the incoming gradient")
                env.check_eq(op(probe.clone()), (-1j * dt) * (Hd @ probe), "operator handed to double_krylov is -i dt H")
        e_l = dS.mT @ T.stack(Vs)  # rows: the vectors the derivative operators act on
        VgC = T.stack(Vg).conj()
        sign = 1j if env.mutant("grad_sign") else -1j
        sx, sy, nn = refs.sigma_x(T), refs.sigma_y(T), refs.n_op(T)

        def ref_grad(D):
            return (sign * dt * (VgC * _rows_of(T, D, e_l)).sum()).real

        for k in range(n):
            c, s = T.cos(phi[k]), T.sin(phi[k])
            if need_o and out[1] is not None:
                env.check_eq(out[1][k].real, ref_grad(refs.embed(T, 0.5 * (c * sx + s * sy), k, n)), f"grad_omega[{k}] = Re Tr(-i dt dH/dOmega_{k} Vs^T dS Vg^*) (n={n})")
            if need_d and out[2] is not None:
                env.check_eq(out[2][k].real, ref_grad(-1.0 * refs.embed(T, nn, k, n)), f"grad_delta[{k}] = Re Tr(-i dt dH/dDelta_{k} ...) (n={n})")
            if need_p and out[3] is not None:
                env.check_eq(out[3][k].real, ref_grad(refs.embed(T, 0.5 * omega[k] * (-s * sx + c * sy), k, n)), f"grad_phi[{k}] = Re Tr(-i dt dH/dphi_{k} ...) (n={n})")
        if need_u and out[4] is not None:
            for i in range(n):
                for j in range(i + 1, n):
                    env.check_eq(out[4][i, j].real, ref_grad(refs.embed2(T, nn, i, nn, j, n)), f"grad_U[{i},{j}] = Re Tr(-i dt n_{i} n_{j} ...) (n={n})")
        if need_s:
            env.check(len(rec["ke"]) == 1, "the state gradient is propagated with one exponential")
            if rec["ke"]:
                op, v = rec["ke"][0]
                env.check_eq(v, gout0, "the exponential acts on the incoming gradient")
                env.check_eq(op(probe.clone()), (1j * dt) * (Hd @ probe), "the state gradient is propagated with exp(+i dt H)")
                env.check(out[5] is gin, "grad_state_in is the result of that exponential")
            # the incoming gradient is autograd's own buffer (possibly an expanded, stride-0 tensor after .sum()):
            # handing it to a routine that destroys its argument corrupts it or raises
            env.check_eq(gout, gout0, "backward leaves the incoming gradient tensor untouched")

    return fn


META = {
    "explanation": (
        "DHDOmegaSparse, DHDPhiSparse, DHDDeltaSparse and DHDUSparse (with _apply_omega_real/_apply_omega_complex) are "
        "executed on a batch of two symbolic complex vectors with symbolic Omega, Delta, phi, U. Because the real "
        "RydbergHamiltonian is affine in Omega_k, Delta_k and U_ij, its exact partial derivative applied to v is the "
        "unit finite difference H(theta+1)v - H(theta)v of the real matrix-free __mul__; for phi_k the derivative of "
        "(cos, sin) is the same pair at phi_k + pi/2, i.e. the drive term of the real Hamiltonian at the shifted phase, "
        "and independently the dense matrix Omega_k/2 (-sin phi_k sx_k + cos phi_k sy_k). z3 decides every output entry "
        "as a polynomial identity on both branches of `phi.is_nonzero()` (the executor forks on it). "
        "EvolveStateVector.backward is executed with double_krylov and krylov_exp as stubs returning arbitrary symbolic Krylov "
        "data, for every combination of needs_input_grad flags: every requested gradient is returned and equals "
        "Re Tr(-i dt dH/dtheta Vs^T dS Vg^*) with the dense partial derivative of H, the operator handed to double_krylov is "
        "-i dt H and the state gradient is propagated with exp(+i dt H). Finiteness of the gradient through PCHIP1D: the "
        "interpolant is built from +,-,*,/,sign,abs,comparisons and torch.where, whose reverse-mode gradient is non-finite "
        "exactly when a division has a zero divisor (also in a branch torch.where discards: 0/0); every divisor met while the "
        "real code runs on symbolic samples is recorded and z3 decides divisor != 0 for all sample values (flat segments "
        "included); on the real torch the gradient itself is computed with autograd. forward() hands backward() the state the "
        "step started from, for input states of any norm: krylov_exp is a stub honouring its documented contract (arbitrary "
        "result, argument overwritten - the real one normalises it in place), the real krylov_exp runs on the real torch. With "
        "the same stub: forward does not modify its input state tensor while gradients are tracked and backward does not modify "
        "the incoming gradient tensor (both belong to the autograd graph); backward returns exact zeros, without raising, for a "
        "zero incoming gradient (Krylov routines as stubs that refuse the zero vector)."
    ),
    "outside": [
        "N > 3 (N > 4 thorough); batch sizes other than 2",
        "double_krylov itself (that Vs^T dS Vg^* is the Frechet derivative of exp) and krylov_exp accuracy: numerical",
        "the VALUE of the gradient through PCHIP / torch.where (only its finiteness is decided); knots at 0,1,2,.. (Pulser's ns grid)",
        "the statement 'gradient = finite difference of the emulated result' itself (numerical)",
        "floating-point rounding",
    ],
    "assumptions": [
        "cos/sin abstracted by (c,s) with c^2+s^2=1, phi=0 => (c,s)=(1,0); cos/sin at multiples of pi/2 exact",
        "interaction matrix symmetric with zero diagonal",
    ],
}


def d_diag(n):
    fd, fu = d_delta(n), d_u(n)

    def fn(env):
        fd(env)
        if n >= 2:
            fu(env)

    return fn


def cases(tier):
    out = []
    quick = tier == "quick"
    ns = [1, 2, 3] if quick else [1, 2, 3, 4]
    for n in ns:
        for zp in (False, True):
            if zp and quick and n != 2:
                continue
            tag = f"n{n}_{'phase0' if zp else 'phase'}"
            b = {"n_qubits": n, "batch": BATCH, "phi": "identically 0" if zp else "symbolic (forks on phi_k = 0)"}
            out.append(
                Case(
                    f"d_omega_{tag}",
                    d_omega(n, zp),
                    covers=COVERS_OMEGA + COVERS_H,
                    bounds=b,
                    canaries=["double_step"] + ([] if zp else ["phase_sign"]),
                    weight=4**n,
                )
            )
            out.append(
                Case(
                    f"d_phi_{tag}",
                    d_phi(n, zp),
                    covers=COVERS_PHI + COVERS_H,
                    bounds=b,
                    canaries=["phase_sign", "no_omega"],
                    weight=4**n,
                )
            )
        b = {"n_qubits": n, "batch": BATCH}
        out.append(
            Case(
                f"d_delta_u_n{n}",
                d_diag(n),
                covers=COVERS_DELTA + COVERS_U + COVERS_H,
                bounds=b,
                canaries=["delta_sign"] + (["wrong_pair"] if n >= 2 else []),
                weight=4**n,
            )
        )
    for nk in ([3, 4] if quick else [2, 3, 4, 5, 6]):
        out.append(
            Case(
                f"pchip_gradient_finite_knots{nk}",
                pchip_gradient_finite(nk),
                covers=COVERS_PCHIP,
                bounds={"knots": nk, "abscissae": "0,1,..", "samples": "symbolic in [-4,4] (equal neighbours allowed)", "query points": "all interval midpoints and both ends"},
                canaries=["flat_forbidden"],
                weight=3**nk,
                timeout_ms=60000,
                deadline_s=1500,
            )
        )
    for n in ([1, 2] if quick else [1, 2, 3]):
        out.append(
            Case(
                f"forward_saves_input_state_n{n}",
                forward_saves_input_state(n),
                covers=[("emu_sv/time_evolution.py", "EvolveStateVector.forward"), ("emu_sv/time_evolution.py", "EvolveStateVector.evolve")],
                bounds={"n_qubits": n, "input state": "symbolic complex vector of any (non-zero) norm", "krylov_exp": "stub honouring its documented contract: arbitrary result, argument overwritten"},
                canaries=["expects_scaled_state"],
                weight=4**n,
            )
        )
    for n in ([1, 2] if quick else [1, 2, 3]):
        out.append(
            Case(
                f"backward_zero_incoming_gradient_n{n}",
                backward_zero_incoming_gradient(n),
                covers=COVERS_BACKWARD,
                bounds={"n_qubits": n, "incoming gradient": "exactly zero", "Krylov routines": "stubs that refuse the zero vector (the real ones divide by its norm)"},
                canaries=["expects_nonzero"],
                weight=4**n,
            )
        )
    for n in ([1, 2] if quick else [1, 2, 3]):
        out.append(
            Case(
                f"lanczos_annihilated_vector_n{n}",
                lanczos_annihilated_vector(n),
                covers=[("emu_base/math/double_krylov.py", "lanczos")],
                bounds={"n_qubits": n, "operator": "zero on the given vector (H|v> = 0)", "vector": "symbolic, non-zero"},
                canaries=["expects_two_vectors"],
                weight=4**n,
            )
        )
    for n, all_sets in ([(1, True), (2, False)] if quick else [(1, True), (2, True), (3, False)]):
        out.append(
            Case(
                f"backward_assembly_n{n}",
                backward_assembly(n, all_sets),
                covers=COVERS_BACKWARD + COVERS_OMEGA + COVERS_PHI + COVERS_DELTA + COVERS_U,
                bounds={"n_qubits": n, "krylov_vectors_per_basis": 2, "needs_input_grad": "all 32 combinations" if all_sets else f"{len(FLAG_SETS_SMALL)} combinations (each alone, all, none, two mixed)"},
                canaries=["grad_sign"],
                weight=32 * 4**n,
                timeout_ms=60000,
                deadline_s=1500,
            )
        )
    return out
