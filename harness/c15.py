"""C15 — sampled bitstrings follow the state's measurement distribution
(deterministic skeleton: counts, bit order, the weights handed to the sampler,
the readout-error model and when it is applied)."""

from collections import Counter

from symex.api import Case
from symex import refs
from symex.env import b_and, b_or, b_not

PROPERTY = "C15"

COVERS_ERR = [
    ("emu_base/utils.py", "readout_with_error"),
    ("emu_base/utils.py", "apply_measurement_errors"),
]
COVERS_SV = COVERS_ERR + [
    ("emu_sv/utils.py", "index_to_bitstring"),
    ("emu_sv/state_vector.py", "StateVector.sample"),
]
COVERS_DM = COVERS_ERR + [
    ("emu_sv/utils.py", "index_to_bitstring"),
    ("emu_sv/density_matrix_state.py", "DensityMatrix.sample"),
]
COVERS_MPS = COVERS_ERR + [
    ("emu_mps/mps.py", "MPS.sample"),
    ("emu_mps/mps.py", "MPS.__init__"),
    ("emu_mps/mps.py", "MPS.orthogonalize"),
]


# ---------------------------------------------------------------------------
# instrumentation: RNG stubs and recording wrappers (module namespaces only)
# ---------------------------------------------------------------------------
class FakeRandom:
    """stands in for the `random` module inside emu_base.utils: every draw is a
    real in [0,1) chosen by the solver (fresh per draw, or cycling over `share`
    variables to bound the number of forks when many shots are taken)."""

    def __init__(self, env, share=None):
        self.env = env
        self.share = share
        self.draws = []
        self._vars = {}

    def random(self):
        k = len(self.draws)
        name = f"r{k}" if self.share is None else f"r{k % self.share}"
        r = self._vars.get(name)
        if r is None:
            r = self.env.real(name, lo=0.0, hi=1.0)
            self.env.assume(r < 1.0, "random.random() < 1")
            self._vars[name] = r
        self.draws.append(r)
        return r


class TorchProxy:
    """the module-level name `torch` of the module under test, with `multinomial` replaced."""

    def __init__(self, T, multinomial):
        self._T = T
        self.multinomial = multinomial

    def __getattr__(self, name):
        return getattr(self._T, name)


class Instr:
    """installs the stubs and restores the module namespaces afterwards."""

    def __init__(self, env, state_mod_name, pick, share_random=None):
        self.env = env
        self.T = env.torch
        self.utils = env.mod("emu_base.utils")
        self.smod = env.mod(state_mod_name)
        self.rnd = FakeRandom(env, share_random)
        self.pick = pick
        self.mn_calls = []  # (weights, num_samples, replacement, outcomes)
        self.readouts = []  # (char in, char out, draws, p_false_pos, p_false_neg)
        self.err_calls = []  # (Counter in, p_false_pos, p_false_neg, Counter out)
        self._saved = []

    def _set(self, mod, name, value):
        self._saved.append((mod, name, getattr(mod, name)))
        setattr(mod, name, value)

    def __enter__(self):
        T = self.T
        orig_readout = self.utils.readout_with_error
        orig_apply = self.utils.apply_measurement_errors

        def readout(c, *, p_false_pos, p_false_neg):
            k0 = len(self.rnd.draws)
            out = orig_readout(c, p_false_pos=p_false_pos, p_false_neg=p_false_neg)
            self.readouts.append((c, out, self.rnd.draws[k0:], p_false_pos, p_false_neg))
            return out

        def apply(bitstrings, *, p_false_pos, p_false_neg):
            before = Counter(bitstrings)
            out = orig_apply(bitstrings, p_false_pos=p_false_pos, p_false_neg=p_false_neg)
            self.err_calls.append((before, p_false_pos, p_false_neg, out))
            return out

        def multinomial(weights, num_samples, replacement=False, **kw):
            call = len(self.mn_calls)
            if weights.dim() == 1:
                outs = [self.pick(call, s, weights.shape[0]) for s in range(num_samples)]
            else:
                outs = [[self.pick(call, row, weights.shape[1]) for _ in range(num_samples)] for row in range(weights.shape[0])]
            self.mn_calls.append((weights, num_samples, replacement, outs))
            return T.tensor(outs, dtype=T.int64)

        self._set(self.utils, "random", self.rnd)
        self._set(self.utils, "readout_with_error", readout)
        if hasattr(self.smod, "apply_measurement_errors"):
            self._set(self.smod, "apply_measurement_errors", apply)
        if hasattr(self.smod, "torch"):
            self._set(self.smod, "torch", TorchProxy(T, multinomial))
        return self

    def __exit__(self, *exc):
        for mod, name, old in reversed(self._saved):
            setattr(mod, name, old)
        return False


# ---------------------------------------------------------------------------
# oracles
# ---------------------------------------------------------------------------
def bitstring_of_index(env, k, n):
    s = format(k, f"0{n}b")  # atom 0 = most significant digit
    return s[::-1] if env.mutant("lsb_first") else s


def bitstring_of_levels(env, levels):
    one = (1, 2) if env.mutant("leak_reads_one") else (1,)
    s = "".join("1" if o in one else "0" for o in levels)
    return s[::-1] if env.mutant("lsb_first") else s


def check_readouts(env, readouts, pfp, pfn):
    """every recorded call of readout_with_error obeys the error model."""
    if env.mutant("swap_rates"):
        pfp, pfn = pfn, pfp
    ok_draws = True
    ok_alphabet = True
    conds = []
    for c, out, draws, a, b in readouts:
        ok_draws = ok_draws and len(draws) == 1
        ok_alphabet = ok_alphabet and c in ("0", "1") and out in ("0", "1")
        if len(draws) != 1:
            continue
        r = draws[0]
        reads_one = (r < pfp) if c == "0" else b_not(r < pfn)
        conds.append(reads_one if out == "1" else b_not(reads_one))
    env.check(ok_draws, "exactly one fresh random number per measured bit")
    env.check(ok_alphabet, "bits are '0'/'1' before and after the readout error")
    env.check(b_and(*conds) if conds else True, "0->1 iff r < p_false_pos, 1->0 iff r < p_false_neg, unchanged otherwise")


def check_error_wiring(env, ins, pre, result, n_bits):
    """apply_measurement_errors feeds every bit of every shot through readout_with_error once."""
    chars_in = "".join(c for c, *_ in ins.readouts)
    chars_out = "".join(o for _, o, *_ in ins.readouts)
    total = sum(pre.values())
    env.check(len(ins.readouts) == total * n_bits, "one readout per bit and shot")
    env.check(len(ins.rnd.draws) == total * n_bits, "one random number per bit and shot")
    chunks_in = Counter(chars_in[i : i + n_bits] for i in range(0, len(chars_in), n_bits))
    chunks_out = Counter(chars_out[i : i + n_bits] for i in range(0, len(chars_out), n_bits))
    env.check(chunks_in == +Counter(pre), "every sampled bitstring is read out exactly `count` times")
    env.check(chunks_out == +Counter(result), "the result counts the read-out bitstrings")
    env.check(sum(result.values()) == total, "readout errors preserve the number of shots")


def rates(env):
    """(p_false_pos, p_false_neg): literal zeros or symbolic probabilities in [0,1]."""
    kind = env.choice("rates", ["none", "symbolic"])
    if kind == "none":
        return 0.0, 0.0
    return env.real("p_false_pos", lo=0.0, hi=1.0), env.real("p_false_neg", lo=0.0, hi=1.0)


def shots_and_rates(env, shot_options, lean):
    """num_shots and the error rates.  `lean` (quick tier, exhaustive outcome sequences): symbolic rates are
    combined with the smallest shot count only, all shot counts with rates 0 (the error model per shot is
    independent of the other shots; the many-shot cases combine symbolic rates with 33..70 shots)."""
    if not lean:
        shots = env.choice("num_shots", shot_options)
        return (shots,) + rates(env)
    pfp, pfn = rates(env)
    symbolic = not isinstance(pfp, float)
    shots = env.choice("num_shots", shot_options[:1] if symbolic else shot_options)
    return shots, pfp, pfn


def picker(env, exhaustive, ncat, n_sites=1, few=False):
    """outcome chooser for the multinomial stub: `exhaustive` forks over every in-range outcome of every
    draw; otherwise an arithmetic pattern (offset, stride per shot, stride per site all chosen by the explorer;
    `few`: one fixed pattern)."""
    if exhaustive:
        return lambda call, row, k: env.choice(f"outcome_{call}_{row}", list(range(k)))
    a = env.choice("pattern_offset", [1] if few else sorted({0, 1, ncat - 1}))
    b = env.choice("pattern_shot_stride", [1] if few else [0, 1] if ncat == 2 else [0, ncat - 1])
    c = env.choice("pattern_site_stride", [1] if few else [0, 1]) if n_sites > 1 else 0

    def pick(call, row, k):
        site = call % n_sites
        shot = 32 * (call // n_sites) + row
        return (a + b * shot + c * min(site, 1)) % k  # (not palindromic in the site index)

    return pick


def check_branch(env, taken, pfp, pfn, label):
    want = b_or(pfn > 0, pfp > 0)
    if env.mutant("errors_need_both"):
        want = b_and(pfn > 0, pfp > 0)
    env.check(want if taken else b_not(want), label)


# ---------------------------------------------------------------------------
# cases
# ---------------------------------------------------------------------------
def readout_unit():
    def fn(env):
        c = env.choice("bit", ["0", "1"])
        pfp = env.real("p_false_pos", lo=0.0, hi=1.0)
        pfn = env.real("p_false_neg", lo=0.0, hi=1.0)
        with Instr(env, "emu_base.utils", None) as ins:
            out = ins.utils.readout_with_error(c, p_false_pos=pfp, p_false_neg=pfn)
            env.check(out == ins.readouts[0][1], "wrapper transparent")
            check_readouts(env, ins.readouts, pfp, pfn)
            env.check(len(ins.rnd.draws) == 1, "one random number drawn")

    return fn


def apply_errors(n_bits, shots):
    def fn(env):
        pfp, pfn = rates(env)
        strings = [format(env.choice(f"string_{s}", list(range(2**n_bits))), f"0{n_bits}b") for s in range(shots)]
        pre = Counter(strings)
        keep = Counter(pre)
        with Instr(env, "emu_base.utils", None) as ins:
            res = ins.utils.apply_measurement_errors(pre, p_false_pos=pfp, p_false_neg=pfn)
            env.check(pre == keep, "input counter unchanged")
            check_error_wiring(env, ins, pre, res, n_bits)
            check_readouts(env, ins.readouts, pfp, pfn)
            env.check(all(a is pfp and b is pfn for *_, a, b in ins.readouts) or not ins.readouts, "rates passed through unchanged")

    return fn


def _finish_sv_dm(env, ins, res, n, shots, pfp, pfn, who):
    T = env.torch
    env.check(len(ins.mn_calls) == 1, f"{who}: the sampler is called once")
    weights, num_samples, replacement, outs = ins.mn_calls[0]
    env.check(num_samples == shots, f"{who}: the sampler is asked for num_shots outcomes")
    env.check(replacement is True, f"{who}: sampling with replacement")
    sampled = Counter(bitstring_of_index(env, k, n) for k in outs)
    taken = len(ins.err_calls) > 0
    check_branch(env, taken, pfp, pfn, f"{who}: readout errors are applied iff a rate is positive")
    if taken:
        pre, a, b, out = ins.err_calls[0]
        env.check(len(ins.err_calls) == 1 and res is out, f"{who}: the result is the error-affected sample")
        env.check(a is pfp and b is pfn, f"{who}: rates passed to the error model unchanged")
        check_error_wiring(env, ins, pre, res, n)
        check_readouts(env, ins.readouts, pfp, pfn)
    else:
        pre = res
        env.check(len(ins.rnd.draws) == 0, f"{who}: no random numbers drawn without readout errors")
    env.check(+Counter(pre) == sampled, f"{who}: character q of a key is '1' iff atom q (atom 0 first) is in the excited state")
    env.check(sum(res.values()) == shots, f"{who}: counts sum to num_shots")
    env.check(all(len(k) == n and set(k) <= {"0", "1"} for k in res), f"{who}: keys are {n}-bit strings")
    return weights


def sv_sample(n, shot_options, exhaustive, lean=False):
    def fn(env):
        T = env.torch
        sv_mod = env.mod("emu_sv.state_vector")
        psi = env.tensor_cplx("psi", (2**n,))
        shots, pfp, pfn = shots_and_rates(env, shot_options, lean)
        before = psi.clone()
        with Instr(env, "emu_sv.state_vector", picker(env, exhaustive, 2**n, few=lean and not isinstance(pfp, float)), share_random=None if exhaustive and n * shots <= 2 else 1) as ins:
            st = sv_mod.StateVector(psi, gpu=False)
            res = st.sample(num_shots=shots, p_false_pos=pfp, p_false_neg=pfn)
            weights = _finish_sv_dm(env, ins, res, n, shots, pfp, pfn, "StateVector")
            born = psi.real * psi.real + psi.imag * psi.imag
            if env.mutant("weights_not_squared"):
                born = T.abs(psi)
            env.check_eq(weights, born, f"StateVector: sampler weights = |psi_k|^2 (n={n})")
            env.check_eq(st.data, before, "StateVector: sampling leaves the state unchanged")

    return fn


def dm_sample(n, shot_options, exhaustive, lean=False):
    def fn(env):
        T = env.torch
        dm_mod = env.mod("emu_sv.density_matrix_state")
        dim = 2**n
        rows = [[None] * dim for _ in range(dim)]
        for i in range(dim):
            rows[i][i] = env.real(f"rho_{i}_{i}", lo=0.0)
            for j in range(i + 1, dim):
                z = env.cplx(f"rho_{i}_{j}")
                rows[i][j] = z
                rows[j][i] = z.conjugate()
        rho = T.tensor(rows, dtype=T.complex128)
        shots, pfp, pfn = shots_and_rates(env, shot_options, lean)
        before = rho.clone()
        with Instr(env, "emu_sv.density_matrix_state", picker(env, exhaustive, 2**n, few=lean and not isinstance(pfp, float)), share_random=None if exhaustive and n * shots <= 2 else 1) as ins:
            st = dm_mod.DensityMatrix(rho, gpu=False)
            res = st.sample(num_shots=shots, p_false_pos=pfp, p_false_neg=pfn)
            weights = _finish_sv_dm(env, ins, res, n, shots, pfp, pfn, "DensityMatrix")
            diag = T.stack([rho[k, k].real for k in range(dim)])
            if env.mutant("weights_shifted"):
                diag = T.stack([rho[(k + 1) % dim, (k + 1) % dim].real for k in range(dim)])
            env.check_eq(weights, diag, f"DensityMatrix: sampler weights = rho_kk (n={n})")
            env.check_eq(st.data, before, "DensityMatrix: sampling leaves the state unchanged")

    return fn


EIG = {2: ("r", "g"), 3: ("r", "g", "x")}


def _mps_factors(env, n, d, D):
    return [env.tensor_cplx(f"A{q}", (1 if q == 0 else D, d, 1 if q == n - 1 else D)) for q in range(n)]


def _unit_vec(env, name, d):
    """normalised complex d-vector from angles (d <= 3): exact in the abstraction (sin^2 -> 1 - cos^2)."""
    T = env.torch
    t = env.tensor_real(name + "_t", (), dtype=T.complex128)
    amps = [T.cos(t), T.sin(t)]
    if d == 3:
        u = env.tensor_real(name + "_u", (), dtype=T.complex128)
        amps = [T.cos(t), T.sin(t) * T.cos(u), T.sin(t) * T.sin(u)]
    out = []
    for k, a in enumerate(amps):
        ph = env.tensor_real(f"{name}_a{k}", (), dtype=T.complex128)
        out.append(a * T.exp(1j * ph))
    return T.stack(out)


def _canonical_factors(env, n, d, D):
    """first factor arbitrary, all others right-canonical (sum_s B^s B^s^dag = 1)."""
    T = env.torch
    fs = [env.tensor_cplx("A0", (1, d, D))]
    if D == 1:
        for q in range(1, n):
            fs.append(_unit_vec(env, f"B{q}", d).reshape(1, d, 1))
        return fs
    assert n == 2 and d == 2 and D == 2
    t = env.tensor_real("B_t", (), dtype=T.complex128)
    a = env.tensor_real("B_a", (), dtype=T.complex128)
    b = env.tensor_real("B_b", (), dtype=T.complex128)
    g = env.tensor_real("B_g", (), dtype=T.complex128)
    c, s = T.cos(t), T.sin(t)
    u = T.stack(
        [
            T.stack([c * T.exp(1j * a), s * T.exp(1j * b)]),
            T.stack([-s * T.exp(1j * (g - b)), c * T.exp(1j * (g - a))]),
        ]
    )  # unitary 2x2: rows = bond index, columns = physical level
    fs.append(u.reshape(2, 2, 1))
    return fs


def mps_sample(n, d, D, shot_options, exhaustive, canonical=False, lean=False):
    def fn(env):
        T = env.torch
        mps_mod = env.mod("emu_mps.mps")
        factors = _canonical_factors(env, n, d, D) if canonical else _mps_factors(env, n, d, D)
        kept = [f.clone() for f in factors]
        shots, pfp, pfn = shots_and_rates(env, shot_options, lean)
        with Instr(env, "emu_mps.mps", picker(env, exhaustive, d, n, few=lean and not isinstance(pfp, float)), share_random=None if exhaustive and n * shots <= 2 else 1) as ins:
            st = mps_mod.MPS(list(factors), orthogonality_center=0, num_gpus_to_use=0, eigenstates=EIG[d])
            raised = False
            try:
                res = st.sample(num_shots=shots, p_false_pos=pfp, p_false_neg=pfn)
            except NotImplementedError:
                raised = True
                res = None
            # --- what MPS.sample does with the error rates ------------------------------------
            must_raise = (pfp > 0) if d > 2 else False
            if env.mutant("qutrit_never_raises"):
                must_raise = False
            env.check(
                must_raise if raised else b_not(must_raise),
                f"MPS(dim={d}): NotImplementedError iff dim > 2 and p_false_pos > 0",
            )
            for q in range(n):
                env.check_eq(st.factors[q], kept[q], "MPS: sampling leaves the factors unchanged (orthogonality centre already 0)")
            # --- sampler calls: one per site and batch of at most 32 shots ---------------------
            batches = [min(32, shots - s) for s in range(0, shots, 32)]
            env.check(len(ins.mn_calls) == n * len(batches), "MPS: one sampler call per site and batch")
            psi = refs.contract_mps(T, kept).reshape(*([d] * n))
            levels = []  # per shot: list of outcomes per site
            for bi, bs in enumerate(batches):
                calls = ins.mn_calls[bi * n : (bi + 1) * n]
                env.check(
                    all(tuple(w.shape) == (bs, d) and ns == 1 for w, ns, _, _ in calls),
                    "MPS: each call gets a (batch, dim) weight matrix and asks for one outcome per row",
                )
                accs = [T.ones(1, dtype=T.complex128) for _ in range(bs)]
                cache = {}
                rows_levels = [[] for _ in range(bs)]
                for q, (w, ns, _, outs) in enumerate(calls):
                    want = []
                    born = []
                    for row in range(bs):
                        key = tuple(rows_levels[row])
                        hit = cache.get((q, key))
                        if hit is None:
                            A = T.tensordot(accs[row], kept[q], dims=1)  # (d, D')
                            wl = (A.real * A.real + A.imag * A.imag).sum(dim=1)
                            if env.mutant("weights_shifted"):
                                wl = T.stack([wl[(l + 1) % d] for l in range(d)])
                            if q == n - 1 or canonical:
                                sub = psi[key] if key else psi  # (d, rest...)
                                sub = sub.reshape(d, -1)
                                bl = (sub.real * sub.real + sub.imag * sub.imag).sum(dim=1)
                            else:
                                bl = None
                            hit = (A, wl, bl)
                            cache[(q, key)] = hit
                        A, wl, bl = hit
                        want.append(wl)
                        born.append(bl)
                        o = outs[row][0]
                        rows_levels[row].append(o)
                        accs[row] = A[o]
                    env.check_eq(w, T.stack(want), f"MPS: weights of site {q} = ||acc . factor||^2 per level (n={n}, d={d}, D={D})")
                    if born[0] is not None:
                        what = "marginal of |psi|^2 (right-canonical MPS)" if canonical and q < n - 1 else "|psi[outcomes so far, level]|^2"
                        env.check_eq(w, T.stack(born), f"MPS: weights of site {q} = {what} (n={n}, d={d}, D={D})")
                levels.extend(rows_levels)
            sampled = Counter(bitstring_of_levels(env, lv) for lv in levels)
            if raised:
                return
            taken = len(ins.err_calls) > 0
            check_branch(env, taken, pfp, pfn, f"MPS(dim={d}): readout errors are applied iff a rate is positive")
            if taken:
                pre, a, b, out = ins.err_calls[0]
                env.check(len(ins.err_calls) == 1 and res is out, "MPS: the result is the error-affected sample")
                env.check(a is pfp and b is pfn, "MPS: rates passed to the error model unchanged")
                check_error_wiring(env, ins, pre, res, n)
                check_readouts(env, ins.readouts, pfp, pfn)
            else:
                pre = res
                env.check(len(ins.rnd.draws) == 0, "MPS: no random numbers drawn without readout errors")
            env.check(
                +Counter(pre) == sampled,
                "MPS: character q of a key is '1' iff the outcome of atom q is level 1 (atom 0 first; leakage level reads '0')",
            )
            env.check(sum(res.values()) == shots, "MPS: counts sum to num_shots")

    return fn


def mps_sample_moved_centre(n):
    """MPS whose declared orthogonality centre is the LAST site and whose bond left of it has
    dimension 2: the sampler's weights must still be the Born marginals / conditionals, i.e.
    sample() has to bring the state to centre 0 first (genuine QR: known-factorisation stub)."""
    from harness.c13 import install_known_qr, rot

    def fn(env):
        T = env.torch
        mps_mod = env.mod("emu_mps.mps")

        def angle(name):
            th = T.tensor(env.real(name, lo=-3.2, hi=3.2), dtype=T.float64)
            return T.cos(th), T.sin(th)

        ca, sa = angle("alpha")
        cg, sg = angle("gamma")
        r00 = env.real("r00", lo=0.125, hi=4.0)
        r11 = env.real("r11", lo=0.125, hi=4.0)
        r01 = env.cplx("r01")
        R0 = T.tensor([[r00, r01], [0.0, r11]], dtype=T.complex128)
        Q0 = rot(T, cg, sg)
        U = rot(T, ca, sa)
        factors = []
        if n == 3:
            cb, sb = angle("beta")
            factors.append(T.stack([cb, sb]).to(T.complex128).reshape(1, 2, 1))
        factors.append(U.reshape(1, 2, 2))  # left-orthonormal
        factors.append((Q0 @ R0).mT.contiguous().reshape(2, 2, 1))  # the centre
        kept = [f.clone() for f in factors]
        psi = refs.contract_mps(T, kept).reshape(*([2] * n))
        known = [(Q0, R0)]
        install_known_qr(env, known)
        centre = n - 1 if not env.mutant("declared_centre_0") else 0
        with Instr(env, "emu_mps.mps", picker(env, True, 2, n)) as ins:
            st = mps_mod.MPS(list(factors), orthogonality_center=centre, num_gpus_to_use=0, eigenstates=EIG[2])
            res = st.sample(num_shots=1, p_false_pos=0.0, p_false_neg=0.0)
            env.check(len(ins.mn_calls) == n, "one sampler call per site")
            env.check_eq(refs.contract_mps(T, st.factors).reshape(*([2] * n)), psi, "re-canonicalising for sampling does not change the state")
            levels = []
            for q, (w, ns, _, outs) in enumerate(ins.mn_calls):
                sub = psi[tuple(levels)] if levels else psi
                sub = sub.reshape(2, -1)
                born = (sub.real * sub.real + sub.imag * sub.imag).sum(dim=1)
                env.check_eq(w[0], born, f"weights of site {q} = Born marginal of |psi|^2 given the outcomes so far (centre declared at site {n - 1})")
                levels.append(outs[0][0])
            env.check(+Counter(res) == Counter(["".join("1" if o == 1 else "0" for o in levels)]), "the sampled bitstring lists the outcomes, atom 0 first")

    return fn


META = {
    "explanation": (
        "readout_with_error, apply_measurement_errors, index_to_bitstring and the sample methods of StateVector, "
        "DensityMatrix and MPS are executed on symbolic states with `torch.multinomial` replaced (module namespace) by a "
        "stub that records the weight tensor it is given and returns in-range outcomes chosen by the explorer, and "
        "`random.random` by solver-chosen reals in [0,1). z3 decides: the weights equal |psi_k|^2 resp. rho_kk "
        "(polynomial identities), for MPS the per-site weights equal ||accumulator . factor||^2 per level, equal "
        "|psi[outcomes, level]|^2 at the last site and the Born marginals at every site for right-canonical MPS; per "
        "measured bit exactly one random number r is consumed and the bit reads 1 iff (0 and r < p_false_pos) or (1 and "
        "not r < p_false_neg) under the path condition; the error model is applied iff a rate is positive (the and/or "
        "precedence in MPS.sample included), qutrit MPS raise iff p_false_pos > 0. Concrete per path: counts sum to "
        "num_shots across the 32-shot batches, bit order (atom 0 first), leakage level reads '0'. "
        "Observed behaviour for qutrit MPS (see `notes`): with p_false_neg > 0 = p_false_pos the two-level error model is "
        "applied to the bitstring (leakage already read as '0'), which agrees with the property as stated."
    ),
    "outside": [
        "that torch.multinomial / random.random draw from the distributions they are given (the statistical claim)",
        "MPS.orthogonalize for an orthogonality centre other than 0 is decided for the declared centre at the last site "
        "with one chi=2 bond next to it (N=2, 3; known-factorisation QR stub: every valid LAPACK answer Q0 D, D* R0); other "
        "centre positions / larger bonds are outside; for centre 0 the conditional weights are Born marginals "
        "for right-canonical factors, which is decided for MPS given in that form (N=2 D<=2, N=3 D=1)",
        "N > 3 atoms, more than 70 shots, bond dimension > 2; outcome sequences other than the enumerated ones "
        "(all sequences for <= 2 shots; arithmetic patterns for 32..70 shots)",
        "error rates outside [0,1]; floating-point rounding",
    ],
    "assumptions": [
        "density matrices are Hermitian with non-negative diagonal (DensityMatrix.sample uses abs(diagonal))",
        "random.random() returns a value in [0,1)",
        "MPS constructed with orthogonality_center=0 (all cases but mps_sample_centre_last_*, which declare the last site)",
    ],
    "notes": [
        "MPS.sample with dim=3: `p_false_neg > 0 or p_false_pos > 0 and self.dim == 2` parses as "
        "`p_false_neg > 0 or (p_false_pos > 0 and dim == 2)`. For qutrits with p_false_neg > 0 and p_false_pos = 0 the "
        "two-level error model is applied to the bitstring in which the leakage level already reads '0' (1->0 with "
        "p_false_neg, nothing else): consistent with the property as stated. With p_false_pos > 0 NotImplementedError "
        "is raised (after the error model was already applied and discarded when p_false_neg > 0 as well).",
    ],
}


def cases(tier):
    quick = tier == "quick"
    out = [
        Case("readout_unit", readout_unit(), covers=COVERS_ERR[:1], bounds={"bit": "0/1", "r, p": "symbolic"}, canaries=["swap_rates"]),
    ]
    for nb, sh in ([(2, 2)] if quick else [(1, 3), (2, 2), (3, 2)]):
        out.append(
            Case(
                f"apply_errors_bits{nb}_shots{sh}",
                apply_errors(nb, sh),
                covers=COVERS_ERR,
                bounds={"bits": nb, "shots": sh, "bitstrings": "all", "random numbers": "fresh symbolic per bit"},
                canaries=["swap_rates"],
                weight=4 ** (nb * sh),
            )
        )
    small = [1, 2]
    big = [32, 33, 40] if quick else [32, 33, 40, 64, 70]  # (32 = exactly one full batch, 64 = two)
    for name, mk, cov, wm in (("sv", sv_sample, COVERS_SV, "weights_not_squared"), ("dm", dm_sample, COVERS_DM, "weights_shifted")):
        for n in ([1, 2] if quick else [1, 2, 3]):
            ex_shots = small if n < 3 else [1]
            out.append(
                Case(
                    f"{name}_sample_n{n}_exhaustive",
                    mk(n, ex_shots, True, lean=quick),
                    covers=cov,
                    bounds={"n_qubits": n, "num_shots": ex_shots, "outcomes": "all sequences", "rates x shots": "symbolic rates with 1 shot only" if quick else "full product"},
                    canaries=["lsb_first", "swap_rates", "errors_need_both", wm] if n > 1 else ["swap_rates", "errors_need_both", wm],
                    weight=(2**n) ** max(ex_shots) * 4,
                )
            )
        for n in ([2] if quick else [2, 3]):
            out.append(
                Case(
                    f"{name}_sample_n{n}_many",
                    mk(n, big, False, lean=quick),
                    covers=cov,
                    bounds={"n_qubits": n, "num_shots": big, "outcomes": "arithmetic patterns", "random numbers": "one shared symbolic value", "rates x shots x patterns": "symbolic rates with the first shot count and one pattern" if quick else "full product"},
                    canaries=["lsb_first", wm],
                    weight=40,
                )
            )
    grid_ex = [(2, 2, 2), (2, 3, 1)] if quick else [(2, 2, 2), (2, 3, 2), (3, 2, 2)]
    for n, d, D in grid_ex:
        ex_shots = [1, 2] if n == 2 and d == 2 else [1]
        out.append(
            Case(
                f"mps_sample_n{n}_d{d}_D{D}_exhaustive",
                mps_sample(n, d, D, ex_shots, True, lean=quick),
                covers=COVERS_MPS,
                bounds={"n_atoms": n, "dim": d, "bond_dim": D, "num_shots": ex_shots, "outcomes": "all sequences", "rates x shots": "symbolic rates with 1 shot only" if quick else "full product"},
                canaries=["lsb_first", "swap_rates", "errors_need_both", "weights_shifted"] + (["leak_reads_one", "qutrit_never_raises"] if d == 3 else []),
                weight=(d**n) ** max(ex_shots) * 8,
            )
        )
    grid_many = [(2, 2, 2), (2, 3, 1)] if quick else [(2, 2, 2), (2, 3, 2), (3, 2, 2), (3, 3, 1)]
    for n, d, D in grid_many:
        out.append(
            Case(
                f"mps_sample_n{n}_d{d}_D{D}_many",
                mps_sample(n, d, D, big, False, lean=quick),
                covers=COVERS_MPS,
                bounds={"n_atoms": n, "dim": d, "bond_dim": D, "num_shots": big, "outcomes": "arithmetic patterns", "random numbers": "one shared symbolic value", "rates x shots x patterns": "symbolic rates with the first shot count and one pattern" if quick else "full product"},
                canaries=["lsb_first", "weights_shifted"] + (["leak_reads_one"] if d == 3 else []),
                weight=60,
            )
        )
    for n, d, D in ([(2, 2, 1), (2, 2, 2)] if quick else [(2, 2, 1), (2, 2, 2), (3, 2, 1), (2, 3, 1)]):
        out.append(
            Case(
                f"mps_marginals_n{n}_d{d}_D{D}",
                mps_sample(n, d, D, [1], True, canonical=True),
                covers=COVERS_MPS,
                bounds={"n_atoms": n, "dim": d, "bond_dim": D, "num_shots": 1, "form": "right-canonical (angle-parametrised)"},
                canaries=["weights_shifted"],
                weight=30,
            )
        )
    for n in ([2] if quick else [2, 3]):
        out.append(
            Case(
                f"mps_sample_centre_last_n{n}",
                mps_sample_moved_centre(n),
                covers=COVERS_MPS,
                bounds={"n_atoms": n, "dim": 2, "bond_dim": 2, "num_shots": 1, "declared orthogonality centre": n - 1, "outcomes": "all sequences"},
                canaries=["declared_centre_0"],
                weight=60,
                timeout_ms=60000,
            )
        )
    for c in out:
        c.deadline_s = 1500.0  # (shared machine: leave room for contention)
    return out
