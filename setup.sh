#!/bin/sh
# Offline set-up: z3 python bindings into /verif/.deps for /venv's python 3.12
set -e
cd "$(dirname "$0")"
if ! PYTHONPATH=.deps /venv/bin/python -c "import z3" 2>/dev/null; then
  /venv/bin/pip install --no-index --find-links /opt/veriftools/wheels --target .deps z3-solver >/dev/null
fi
PYTHONPATH=.deps /venv/bin/python -c "import z3; print('z3', z3.get_version_string())"
