#!/venv/bin/python
"""Run the repository's baseline test-suite (hook guard off) and compare the set
of passing tests with /root/.vp/BASELINE.json."""
import json
import os
import subprocess
import sys
import tempfile
import xml.etree.ElementTree as ET

base = json.load(open("/root/.vp/BASELINE.json"))
out = tempfile.mktemp(suffix=".xml")
env = dict(os.environ)
env.pop("PASQAL_IO_EMULATORS_VERIF", None)
cmd = [
    "/venv/bin/python", "-m", "pytest", "-q", "-p", "no:cacheprovider", "--timeout=900",
    "--continue-on-collection-errors", f"--junitxml={out}",
]
if "--par" in sys.argv:
    cmd += ["-n", "8"]
subprocess.run(cmd, cwd="/repo", env=env, stdout=subprocess.DEVNULL, stderr=subprocess.DEVNULL)
passed = set()
for tc in ET.parse(out).getroot().iter("testcase"):
    if not any(ch.tag in ("failure", "error", "skipped") for ch in tc):
        passed.add(f"{tc.get('classname')}::{tc.get('name')}")
os.remove(out)
want = set(base["stable_pass"])
missing = sorted(want - passed)
print(f"baseline: {len(want & passed)}/{len(want)} stable tests pass; newly passing: {len(passed - want)}")
for m in missing[:20]:
    print("  MISSING", m)
sys.exit(1 if missing else 0)
