#!/venv/bin/python
"""tools/seed_matrix.py [ID...] — for every kept seeded change (/verif/seeded/<id>/patch.diff)
run the checks named in tools/seed_meta.py (`detected_by`, plus the property's own check) at the
quick tier against a scratch worktree of /repo HEAD with the change applied and record what each
check reported in seeded/<id>/detected.json.  /repo itself is never modified."""
import json
import os
import re
import subprocess
import sys

HERE = os.path.dirname(os.path.dirname(os.path.abspath(__file__)))
sys.path.insert(0, os.path.join(HERE, "tools"))
from seed_meta import SEEDS  # noqa: E402


def main():
    ids = sys.argv[1:] or sorted(SEEDS)
    for sid in ids:
        d = os.path.join(HERE, "seeded", sid)
        if not os.path.exists(os.path.join(d, "patch.diff")):
            print(f"{sid}: no patch, skipped")
            continue
        checks = sorted(set(SEEDS[sid]["detected_by"]) | {SEEDS[sid]["property"]})
        env = dict(os.environ, SEED_LINES="40", SEED_COLS="400")
        out = subprocess.run([os.path.join(HERE, "tools", "try_seed.sh"), d, "quick", *checks], capture_output=True, text=True, env=env).stdout
        res = {}
        cur = None
        for line in out.splitlines():
            m = re.match(r"== (C\d+) rc=(\d+)", line)
            if m:
                cur = m.group(1)
                res[cur] = {"exit_code": int(m.group(2)), "violated": [], "summary": ""}
            elif cur and line.startswith("  violated:"):
                mm = re.match(r"\s+violated: case=(\S+) check='(.*?)' ::", line)
                res[cur]["violated"].append({"case": mm.group(1), "check": mm.group(2)} if mm else {"raw": line.strip()[:300]})
            elif cur and line.startswith(cur + " ["):
                res[cur]["summary"] = line.strip()
        json.dump({"seed": sid, "tier": "quick", "checks": res}, open(os.path.join(d, "detected.json"), "w"), indent=1)
        print(sid, {k: v["exit_code"] for k, v in res.items()}, flush=True)


if __name__ == "__main__":
    main()
