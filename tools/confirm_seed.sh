#!/bin/sh
# tools/confirm_seed.sh <ID> [--no-baseline]   (worktree: $SEED_WT or /tmp/seed_<ID>)
# Confirms a seeded change prepared in the scratch worktree /tmp/seed_<ID>:
#   1. its demonstration fails with the change (worktree) and passes without it (/repo),
#   2. the existing test-suite result does not get worse with the change,
# then copies patch.diff + demo.py (+ notes.md) to /verif/seeded/<ID>/ .
set -u
id="$1"; wt=${SEED_WT:-/tmp/seed_$id}; s=$wt/_seed
cd "$(dirname "$0")/.."
[ -f "$s/patch.diff" ] || { echo "no patch for $id"; exit 2; }
# the patch must be exactly what is applied in the worktree
git -C "$wt" diff > /tmp/confirm_$id.diff
if ! diff -q /tmp/confirm_$id.diff "$s/patch.diff" >/dev/null; then echo "NOTE: _seed/patch.diff differs from the worktree's git diff; using the worktree's"; cp /tmp/confirm_$id.diff "$s/patch.diff"; fi
OMP_NUM_THREADS=1 MKL_NUM_THREADS=1 /venv/bin/python "$s/demo.py" >/tmp/confirm_$id.with.log 2>&1; with=$?
sed "s#$wt#/repo#g" "$s/demo.py" > /tmp/confirm_${id}_demo_orig.py
OMP_NUM_THREADS=1 MKL_NUM_THREADS=1 /venv/bin/python /tmp/confirm_${id}_demo_orig.py >/tmp/confirm_$id.without.log 2>&1; without=$?
echo "$id demo: with change rc=$with ; without change rc=$without"
base="skipped"
if [ "${2:-}" != "--no-baseline" ]; then
  base=$(OMP_NUM_THREADS=1 MKL_NUM_THREADS=1 /tmp/seedtools/baseline.py "$wt" 2>&1 | tr '\n' ' ')
  echo "$id baseline: $base"
fi
mkdir -p seeded/$id
cp "$s/patch.diff" seeded/$id/patch.diff
cp "$s/demo.py" seeded/$id/demo.py
[ -f "$s/notes.md" ] && cp "$s/notes.md" seeded/$id/notes.md
tail -3 /tmp/confirm_$id.with.log > seeded/$id/demo_with_change.txt
echo "{\"demo_rc_with_change\": $with, \"demo_rc_without_change\": $without, \"baseline\": \"$base\"}" > seeded/$id/confirm.json
rm -f /tmp/confirm_$id.diff /tmp/confirm_${id}_demo_orig.py /tmp/confirm_$id.with.log /tmp/confirm_$id.without.log
