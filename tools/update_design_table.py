#!/venv/bin/python
"""Regenerates the seeded-changes table of DESIGN.md (between the SEED-TABLE markers) from
tools/seed_meta.py and the recorded seeded/<id>/detected.json files."""
import json
import os
import subprocess
import sys

HERE = os.path.dirname(os.path.dirname(os.path.abspath(__file__)))
sys.path.insert(0, os.path.join(HERE, "tools"))
from seed_meta import SEEDS  # noqa: E402

rows = ["| seed | breaks | change | needs | reported by (quick tier, exit code) | strengthening it led to |", "|---|---|---|---|---|---|"]
for sid in sorted(SEEDS):
    m = SEEDS[sid]
    d = os.path.join(HERE, "seeded", sid)
    if not os.path.isdir(d):
        continue
    det = {}
    p = os.path.join(d, "detected.json")
    if os.path.exists(p):
        det = json.load(open(p))["checks"]
    rep = []
    for chk in sorted(set(m["detected_by"]) | set(det)):
        code = det.get(chk, {}).get("exit_code", "?")
        first = det.get(chk, {}).get("violated", [])
        what = m["detected_by"].get(chk) or (f"{first[0].get('case')}: {first[0].get('check')}" if first else "")
        rep.append(f"{chk} (exit {code}): {what}" if what else f"{chk} (exit {code})")
    rows.append("| " + " | ".join([sid, m["property"], m["change"], m["needs"], "; ".join(rep), m.get("strengthened", "-")]).replace("\n", " ") + " |")
path = os.path.join(HERE, "DESIGN.md")
s = open(path).read()
a, b = s.index("<!-- SEED-TABLE-BEGIN -->"), s.index("<!-- SEED-TABLE-END -->")
s = s[: a + len("<!-- SEED-TABLE-BEGIN -->")] + "\n" + "\n".join(rows) + "\n" + s[b:]
open(path, "w").write(s)
print(len(rows) - 2, "rows")
