#!/bin/sh
# tools/try_seed.sh <seeded dir or patch.diff> <tier> <PROP> [PROP...]
# Runs the given checks against a scratch worktree of /repo's HEAD with the seeded
# change applied (VERIF_REPO), then removes the worktree.  With INPLACE=1 the change is
# applied to /repo itself instead and reverted afterwards (do not use while other runs
# read /repo).
set -u
p="$1"; tier="$2"; shift 2
[ -d "$p" ] && p="$p/patch.diff"
p=$(realpath "$p")
cd "$(dirname "$0")/.."
if [ "${INPLACE:-0}" = 1 ]; then
  if ! git -C /repo diff --quiet; then echo "/repo has local changes; refusing"; exit 3; fi
  git -C /repo apply "$p" || { echo "patch does not apply"; exit 3; }
  trap 'git -C /repo checkout -- . ' EXIT INT TERM
  target=/repo
else
  target=/tmp/try_seed_$$
  git -C /repo worktree add -q "$target" HEAD || exit 3
  trap 'git -C /repo worktree remove --force "$target"' EXIT INT TERM
  git -C "$target" apply "$p" || { echo "patch does not apply"; exit 3; }
fi
ev=$(mktemp -d /tmp/try_seed_ev_XXXXXX)
for id in "$@"; do
  out=$(VERIF_EVIDENCE_DIR=$ev VERIF_REPO=$target ./vcheck "$id" --tier "$tier" --jobs ${VERIF_JOBS:-12} 2>&1); rc=$?
  echo "== $id rc=$rc"
  echo "$out" | grep -v "^KNOWN-FINDING" | head -${SEED_LINES:-6} | cut -c1-${SEED_COLS:-260}
done
rm -rf "$ev"
