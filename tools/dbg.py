import sys, time, json, traceback
import os; sys.path.insert(0,'/verif'); sys.path.insert(0,'/verif/.deps'); os.environ.setdefault('PYTHONHASHSEED','0')
from symex import worker
prop, name, mode = sys.argv[1], sys.argv[2], sys.argv[3]
mod, cases = worker._load_cases(prop, sys.argv[4] if len(sys.argv)>4 else 'quick')
c = cases[name]
t0=time.time()
if mode=='sym':
    r = worker.run_sym(c)
    print('paths',r['stats'],'inc',r['inconclusive'][:3], round(time.time()-t0,2))
    for v in r['violations'][:4]: print('  VIOL',v['label'], v['detail'][-1500:], v['values'], v['choices'])
else:
    r = worker.run_conc(c, mode, 1)
    print(r['failures'], r['error'], r.get('trace','')[-3000:] if r['error'] else '', len(r['records']), round(time.time()-t0,2))
