#!/bin/sh
# run every claimed check's quick (or given tier) command, print a summary
tier=${1:-quick}
cd "$(dirname "$0")/.."
for id in $(/venv/bin/python -c "import json;print(' '.join(c['property_id'] for c in json.load(open('MANIFEST.json'))['checks']))"); do
  s=$(date +%s)
  out=$(./vcheck $id --tier $tier 2>&1); rc=$?
  e=$(date +%s)
  echo "$id rc=$rc $((e-s))s :: $(echo "$out" | grep -v '^KNOWN-FINDING' | head -1 | cut -c1-150)"
  if [ $rc -ne 0 ]; then echo "$out" | head -8 | cut -c1-300; fi
done
