#!/venv/bin/python
"""Regenerates /verif/MANIFEST.json from the table below (keeps it valid)."""
import json
import os
import sys

HERE = os.path.dirname(os.path.dirname(os.path.abspath(__file__)))

TECH_S = "symbolic execution of the real Python code over symbolic tensors (symtorch) + z3 (QF_NRA) per path; counterexamples replayed on the real torch"
TECH_M = "symbolic execution of the real state-machine code with environment stubs + z3 per path (inductive step / bounded unrolling); counterexamples replayed"
TECH_F = "bit-precise SMT-LIB floating-point encoding generated from the function's AST (z3 QF_FP) + real-arithmetic path exploration; counterexamples replayed"

NOTE_S = (
    "Trusted base: z3 5.1, the symtorch shim (differentially validated against the real torch on every run with the same harness "
    "and the same inputs), the reference models in symex/refs.py (written from Pulser's documented conventions), exact-real reading "
    "of float code (rounding is outside), cos/sin/sqrt/abs/division abstracted by atoms with defining axioms. Bounds per case are in the evidence file."
)

# id -> (category, design_ref, level text, technique, note)
CHECKS = {
    "C05": ("other", "DESIGN.md#c05", "Bounded symbolic equivalence: for every sparsity pattern the control flow distinguishes and all real values of U, Omega, Delta, phi and a complex noise term, contract(make_H;update_H) equals the dense Hamiltonian, N<=4 (quick) / N<=5 d=2, N<=4 d=3 (thorough). Solver verdict over all values inside the bound, nothing outside it.", TECH_S, NOTE_S),
    "C06": ("other", "DESIGN.md#c06", "Bounded symbolic equivalence of RydbergHamiltonian.__mul__ and RydbergLindbladian.__matmul__ with the dense Hamiltonian / GKSL generator for all real drive values, symbolic jump operators and arbitrary complex inputs; both phase paths and both matmul paths; N<=3 (quick) / N<=4 (thorough).", TECH_S, NOTE_S),
    "C20": ("other", "DESIGN.md#c20", "For n<=5 (quick) / n<=6 (thorough) knots with symbolic values (and symbolic spacings for n<=4): knot interpolation, C1, Fritsch-Carlson monotonicity region of the code's slopes, equality with a reference PCHIP and query routing, each decided by z3 for all real inputs.", TECH_S, NOTE_S),
}

NOT_APPLICABLE = {
    "C07": "Analytic error bound of Lanczos/Arnoldi with torch.linalg.matrix_exp in float64: neither the iteration's convergence nor matrix_exp is expressible in a decidable theory, and a bit-precise FP encoding of even one step is beyond the solvers available here.",
    "C08": "Variational bound and residual of a restarted Lanczos using LAPACK eigh in floating point: same obstacle as C07 (LAPACK kernel + convergence of an FP iteration).",
    "C09": "DMRG ground-state quality depends on C08 and on sweep convergence in floating point; not encodable.",
    "C17": "Statistical convergence of trajectory averages; needs the RNG and the full numeric evolution. Its deterministic ingredients are decided under C05, C18, C24.",
    "C28": "Norm/energy conservation of the floating-point propagators (TDVP sweeps with Krylov steps and truncation); the exact-arithmetic ingredient (Hermiticity of H) is a lemma checked under C05/C06.",
    "C31": "A finite compatibility matrix of third-party releases decided by running the package; there is no input to make symbolic and only pulser-core 1.9.1 exists offline.",
}


def main():
    claimed = [c for c in sorted(CHECKS) if os.path.exists(os.path.join(HERE, "harness", c.lower() + ".py"))]
    checks = []
    for c in claimed:
        cat, ref, text, tech, note = CHECKS[c]
        checks.append(
            {
                "property_id": c,
                "quick_cmd": f"./vcheck {c} --tier quick",
                "thorough_cmd": f"./vcheck {c} --tier thorough",
                "evidence_file": f"/verif/evidence/{c}.json",
                "replay_cmd_template": "./vcheck replay {path}",
                "engine": "symex",
                "level_claimed": {"category": cat, "text": text, "design_ref": ref},
                "level_note": note,
                "technique": tech,
            }
        )
    all_ids = [json.loads(l)["id"] for l in open(os.path.join(HERE, "properties.jsonl"))]
    na = []
    for pid in all_ids:
        if pid in claimed:
            continue
        reason = NOT_APPLICABLE.get(pid, "check not built yet in this session (planned; see DESIGN.md section 5)")
        na.append({"property_id": pid, "reason": reason})
    m = {
        "version": 1,
        "setup_cmd": "./setup.sh",
        "hooks": {
            "guard": "PASQAL_IO_EMULATORS_VERIF",
            "enable": "no hooks in /repo: all interposition (stubs for clock, RNG, file system, LAPACK kernels) happens in the check process by replacing names in the loaded modules' namespaces; the guard variable is reserved and set by vcheck",
            "baseline_off_cmd": "cd /repo && /venv/bin/python -m pytest -ra -q -p no:cacheprovider --timeout=900 --continue-on-collection-errors",
            "source_commits": [],
            "add_only": True,
        },
        "engines": [
            {
                "name": "symex",
                "path": "/verif/symex",
                "serves_properties": claimed,
                "kind_free_text": "symbolic executor for Python (decision-trail re-execution), symbolic tensors behind a torch shim, z3 back end, replay on the real torch",
            }
        ],
        "checks": checks,
        "notes": "Solver-based checking of the real code; see DESIGN.md. Exit codes: 0 held, 1 VIOLATION (replayed), 2 inconclusive/harness error.",
        "not_applicable": na,
    }
    with open(os.path.join(HERE, "MANIFEST.json"), "w") as f:
        json.dump(m, f, indent=1)
    try:
        import jsonschema

        jsonschema.validate(m, json.load(open("/root/.vp/MANIFEST.schema.json")))
        print(f"MANIFEST ok: {len(checks)} checks, {len(na)} not claimed")
    except ImportError:
        print("written (jsonschema unavailable)")


if __name__ == "__main__":
    main()
