#!/venv/bin/python
"""Regenerates /verif/MANIFEST.json from the table below (keeps it valid)."""
import json
import os
import sys

HERE = os.path.dirname(os.path.dirname(os.path.abspath(__file__)))

TECH_S = "symbolic execution of the real Python code over symbolic tensors (symtorch) + z3 (QF_NRA) per path; counterexamples replayed on the real torch"
TECH_M = "symbolic execution of the real state-machine code with environment stubs + z3 per path (inductive step / bounded unrolling); counterexamples replayed"
TECH_F = "symbolic execution of the real code on rounding-error-annotated reals (every double operation = exact result * (1+e), |e|<=2^-53, e universally quantified) + z3 (QF_NRA) per path; counterexamples replayed on real doubles"

NOTE_S = (
    "Trusted base: z3 5.1, the symtorch shim (differentially validated against the real torch on every run with the same harness "
    "and the same inputs), the reference models in symex/refs.py (written from Pulser's documented conventions), exact-real reading "
    "of float code (rounding is outside), cos/sin/sqrt/abs/division abstracted by atoms with defining axioms. Bounds per case are in the evidence file."
)

# id -> (category, design_ref, level text, technique, note)
NOTE_M = (
    "Trusted base: z3 5.1; environment stubs (clock, RNG, file system, pickle, numeric kernels) installed in the module namespace of the "
    "code under test and listed in the evidence; exact-real reading of float code; invariants stated in DESIGN.md. Counterexamples are replayed on the real classes."
)
NOTE_F = (
    "Trusted base: z3 5.1; the standard model of IEEE-754 rounding fl(a op b)=(a op b)(1+e), |e|<=2^-53 (normal range), which over-approximates "
    "double arithmetic: unsat proves the claim for all doubles in the stated ranges, sat is only a candidate and is reported only if it replays on real doubles."
)

# id -> (category, design_ref, level text, technique, note)
CHECKS = {
    "C01": ("other", "DESIGN.md#c01", "Part of the property: for N<=3 atoms and <=2 steps (quick) / N<=5, <=5 steps (thorough) with symbolic drives, interaction matrices, SLM end and time grid, the operator emu-sv hands to krylov_exp at step k is exactly -i*dt*1e-3*H_Pulser(step k), one exponential per interval, states chained. Krylov accuracy and agreement with Pulser's reference emulator are outside.", TECH_S, NOTE_S),
    "C02": ("other", "DESIGN.md#c02", "Part: (1) the closures emu-mps exponentiates/minimises are time_step*V^dag H V for symbolic non-canonical MPS (N<=4, chi<=2, d=2/3); (2) one time step of progress() is the second-order two-site TDVP schedule (N<=6); (3) the MPO used during step k contracts to P H(step k) P^dag for every internal permutation. Numeric accuracy outside.", TECH_S, NOTE_S),
    "C03": ("other", "DESIGN.md#c03", "Part: for every permutation of N<=4 atoms the MPO is P H P^dag, results are un-permuted exactly (occupations, correlations, bitstrings, atom order), relabelling inputs conjugates emu-sv's Hamiltonian and permutes its observables, and the initial state is re-keyed consistently. Truncation-level agreement is outside.", TECH_S, NOTE_S),
    "C04": ("other", "DESIGN.md#c04", "Full decision tables, every branch explored: emu-sv over interaction type x eigenstates, PulserData's interaction-type branch, emu-mps create_impl over solver x noise x type x levels, make_H/update_H validation; accepted inputs are emulated with Pulser's Hamiltonian for symbolic parameters.", TECH_S, NOTE_S),
    "C05": ("other", "DESIGN.md#c05", "Bounded symbolic equivalence: for every sparsity pattern the control flow distinguishes and all real values of U, Omega, Delta, phi and a complex noise term, contract(make_H;update_H) equals the dense Hamiltonian, N<=4 (quick) / N<=6 d=2 (N=6 without the noise term), N<=4 d=3 (thorough). Solver verdict over all values inside the bound, nothing outside it.", TECH_S, NOTE_S),
    "C06": ("other", "DESIGN.md#c06", "Bounded symbolic equivalence of RydbergHamiltonian.__mul__ and RydbergLindbladian.__matmul__ with the dense Hamiltonian / GKSL generator for all real drive values, symbolic jump operators and arbitrary complex inputs; both phase paths and both matmul paths; N<=3 (quick) / N<=5 Hamiltonian, N<=3 Lindbladian (thorough).", TECH_S, NOTE_S),
    "C07": ("other", "DESIGN.md#107-c07-c08-partial", "Part (the honesty half only): with the operator and torch.linalg.matrix_exp as stubs and symbolic tolerances, `converged`/`happy_breakdown` are reported exactly when an iteration met the residual-norm or error-estimate criterion, the public entry point raises exactly when not converged and returns no vector otherwise, and the returned vector is |v| sum_k exp(T)[k,0] q_k (dim<=3, <=3 iterations, Lanczos and Arnoldi). The accuracy bound (result = exp(A)v within 10*tol) is an analytic floating-point claim and is NOT decided.", TECH_M, NOTE_M),
    "C08": ("other", "DESIGN.md#107-c07-c08-partial", "Part (bookkeeping only): with the operator and torch.linalg.eigh as stubs and symbolic tolerances: unit norm of the returned vector, returned energy and vector are the Ritz pair of one and the same projected problem, converged-without-breakdown implies reported residual < tolerance, restart/iteration accounting, the public entry point raises exactly when neither converged nor broke down. Variational bound, Rayleigh-quotient and residual identities are exact-Lanczos/LAPACK facts and are NOT decided.", TECH_M, NOTE_M),
    "C09": ("other", "DESIGN.md#107-c07-c08-partial", "Part (control logic only): DMRG sweeps visit every bond in order with the right centre moves and bath bookkeeping, a time step completes exactly after the first full sweep whose final energy moved by less than the tolerance, RuntimeError exactly when max_sweeps sweeps did not converge, every sweep re-centres on site 0 (N<=4, <=3 sweeps quick; N<=7, <=5 sweeps thorough; local minimiser as a stub with solver-chosen energies; the local problem itself is decided under C02). Energy quality, normalisation and canonical form are NOT decided.", TECH_M, NOTE_M),
    "C10": ("other", "DESIGN.md#c10", "Part: cutoff index, rank cap, discarded-weight budget (not lazier than allowed), kept = largest eigenvalues, preserve_norm factor, bond visiting order and caps, centre bookkeeping, for symbolic ascending spectra (k<=6) with eigh/qr as contract stubs; scaling leaves every non-centre factor unchanged. Orthonormality itself needs LAPACK and is outside.", TECH_S, NOTE_S),
    "C11": ("other", "DESIGN.md#c11", "Part: every QR/eigh-free MPS/MPO operation (add, scale, inner, overlap, norm of the centre, make, MPO.expect/add/rmul, from_operator_repr, from_state_amplitudes' key mapping, baths, traces) equals its dense counterpart for symbolic factors (N<=3, chi<=2, d=2/3) and leaves operands unchanged; expect_batch/correlation/apply on product states through a sound one-column QR stub, expect_batch across a chi=2 bond on either side of the centre through the known-factorisation QR stub.", TECH_S, NOTE_S),
    "C12": ("other", "DESIGN.md#c12", "Full within bounds: StateVector/DensityMatrix/DenseOperator/SparseOperator constructors and algebra equal their Kronecker / linear-algebra definitions for symbolic complex entries, forked basis strings and operator representations, N<=3 (amplitude placement to N=8); dense = sparse.", TECH_S, NOTE_S),
    "C13": ("other", "DESIGN.md#c13", "Part: all eight emu-sv observable implementations equal <n_i>, <n_i n_j>, <H^2>, variance on symbolic states/Hermitian matrices (N<=3/2) with [0,1] ranges; emu-mps fill_results hands callbacks psi/norm padded with |g> and H x 1 for every dark mask; MPS energy; MPS energy variance/second moment over a two-evaluation sequence with an in-place update_H between (zip_right as the exact uncompressed product); expect_batch/occupation across a chi=2 bond (known-factorisation QR stub). Other QR/SVD-based MPS observables are outside.", TECH_S, NOTE_S),
    "C14": ("other", "DESIGN.md#c14", "Full within bounds: over a symbolic time grid (<=3 steps) and all subsets of requested times for two observables (own/default), both backends and Pulser's real Observable.__call__ store each observable exactly once per requested time, nowhere else, in order, from the right state; every requested time (own, config default, or both kinds mixed) is a grid time the matching finds (real _get_target_times/_unique_observable_times, F-abs).", TECH_M, NOTE_M),
    "C15": ("other", "DESIGN.md#c15", "Part: shot counts, bit order/meaning, weights handed to the sampler (|psi_k|^2, diag rho, MPS conditionals = Born marginals for right-canonical MPS and for an MPS centred on its last site with chi=2), per-bit readout-flip logic with the RNG and the sampler outcomes as solver-chosen inputs. That the RNG follows the weights is a statistical claim and outside.", TECH_M, NOTE_M),
    "C16": ("other", "DESIGN.md#c16", "Part: the map emu-sv exponentiates at step k equals dt*1e-3*GKSL(H_k, jump operators on every atom) on Hermitian matrices, one exponential per interval, states chained (N<=2 quick, N<=3 thorough; <=3 jump operators); generator lemmas (trace, Hermiticity) under C06. Arnoldi accuracy and positivity under truncation are outside.", TECH_S, NOTE_S),
    "C17": ("other", "DESIGN.md#107-c07-c08-partial", "Part (deterministic ingredients of one trajectory only; the statistical convergence claim itself is NOT decided): the noisy solver's MPO contracts to H - i/2 sum_q sum_k (L_k^dag L_k)_q and the observable Hamiltonian carries no noise term; do_random_quantum_jump hands the sampler one candidate per (atom, operator) with weights <psi|(L^dag L)_q|psi>, applies the chosen operator and normalises (product states, N<=3, d=2/3, <=2 operators), rebuilds baths, redraws the threshold.", TECH_M, NOTE_M),
    "C18": ("other", "DESIGN.md#c18", "Inductive step from an arbitrary state satisfying the stepping invariant + bounded unrolling from init(): steps complete once, in order; observables recorded once when due; jumps only at a converged bracket inside the step with a sign change. Termination is relative to finitely many jumps and to C19's bisection lemma.", TECH_M, NOTE_M),
    "C19": ("other", "DESIGN.md#c19", "One-step inductive invariants of the real BrentsRootFinder (queries inside the bracket, bracket shrinks, sign change kept, convergence post-condition) for symbolic states and adversarial ordinates, ranking lemma T1 for the solver's regime, bounded unrollings incl. exact-zero ordinates under Python division semantics. Termination outside T1 only to depth 2-3.", TECH_M, NOTE_M),
    "C20": ("other", "DESIGN.md#c20", "For n<=5 (quick) / n<=7 (thorough) knots with symbolic values (and symbolic spacings for n<=5): knot interpolation, C1, Fritsch-Carlson monotonicity region of the code's slopes, equality with a reference PCHIP and query routing, each decided by z3 for all real inputs.", TECH_S, NOTE_S),
    "C21": ("other", "DESIGN.md#c21", "Full within bounds for doubles: start 0, end exactly the duration, all times in range, separation > 5e-10*duration, every dt-multiple and evaluation time on the grid and matched exactly once, for duration<=1e4, dt>=0.1, <=2 evaluation times (from the observable, the config default, or both mixed), universal grid indices. Repetition count is C34.", TECH_F, NOTE_F),
    "C22": ("other", "DESIGN.md#c22", "Full within bounds: every omega/delta/phi entry equals a reference PCHIP at the step midpoint (incl. extrapolation beyond the last sample) and no amplitude row is negative, for symbolic samples (<=5 per atom), symbolic time grids (<=4 intervals, also all inside the last ns), 1-2 atoms; rejected inputs raise.", TECH_S, NOTE_S),
    "C23": ("other", "DESIGN.md#c23", "Full within bounds: cutoff, SLM masking, source selection, clone discipline, symmetry/zero diagonal and time routing of get_sequences/_InteractionMatrixCallable for symbolic matrices (N<=4) and all mask sets; which matrix each backend uses per step; diagonal never reaches a Hamiltonian.", TECH_S, NOTE_S),
    "C24": ("other", "DESIGN.md#c24", "Full within bounds: dissipators of the emulator's jump operators equal Pulser's (transcribed and cross-checked against pulser's own function on every concrete run) after the level permutation, for symbolic rates and effective operators, d=2/3, ising/XY; error paths. One open known finding (3-level effective operators).", TECH_S, NOTE_S),
    "C25": ("other", "DESIGN.md#c25", "Part: for every bad-atom mask (and every internal permutation) the emu-sv step operator and the emu-mps MPO equal the Hamiltonian of the well-prepared atoms only (N<=3/4, d=2/3), all atoms start in |g>. Dynamics outside. One open known finding (fewer than two good atoms in emu-mps).", TECH_S, NOTE_S),
    "C26": ("other", "DESIGN.md#c26", "Part: resume(file) returns results equal (atom order, tags, times, values) to _run_from_sequence_data on the same solver state for every permutation (n<=3), ordering flag, solver class and remaining-step count; autosave removed; pickled field bookkeeping; every snapshot save_simulation can write under a symbolic autosave schedule of the real TDVP/DMRG progress() state machine (N<=3 quick, <=5 thorough) resumes to exactly the uninterrupted sequence of evolution steps. Pickle fidelity of torch state and distributions of noisy runs are outside.", TECH_M, NOTE_M),
    "C27": ("other", "DESIGN.md#c27", "Full: crash before/after/inside every file-system operation of save_simulation over a symbolic file system (POSIX rename semantics) from any 'first autosave completed' pre-state: the advertised name always holds a complete old or new snapshot and the real resume entry accepts it.", TECH_M, NOTE_M),
    "C29": ("other", "DESIGN.md#c29", "Part: phase offset is a unitary equivalence (H(phi+c)=R H R^dag, R commutes with n_i, energy invariant) and phase negation an anti-unitary one, on both Hamiltonian implementations (N<=3, thorough 4). Register isometries and serialisation are Pulser code, outside.", TECH_S, NOTE_S),
    "C30": ("other", "DESIGN.md#c30", "Part: the operators DHDOmega/Phi/Delta/U used by emu-sv's custom backward equal the exact partial derivatives of the Hamiltonian (finite difference for the affine parameters, dense formula for phi), N<=3 (thorough 4), both phase branches; EvolveStateVector.backward assembles every requested gradient from the right derivative operator for all 32 needs_input_grad combinations (double_krylov/krylov_exp as stubs); the gradient through PCHIP1D is finite for all samples incl. flat segments (every divisor met is non-zero); forward() saves the un-modified input state for backward (input states of any norm, nine needs_input_grad combinations); backward returns exact zeros for a zero incoming gradient; neither forward nor backward modifies a tensor of the autograd graph in place (input state, incoming gradient). double_krylov itself and the value of autograd gradients are outside.", TECH_S, NOTE_S),
    "C32": ("other", "DESIGN.md#c32", "Full within bounds: permutation helpers mutually consistent (all n! for n<=4/5); minimize_bandwidth returns a permutation that is no worse for symbolic symmetric matrices of any sign (n<=4) with RCM and randperm as arbitrary-permutation stubs and the restart/threshold loops cut; composition order of accumulated permutations.", TECH_S, NOTE_S),
    "C33": ("other", "DESIGN.md#c33", "Full within bounds: effective Krylov tolerance >= 1e-12 for symbolic precision/extra tolerance and every solver spelling, followed into krylov_exp and krylov_energy_minimization (exact reals; one-ulp float note), autosave_dt<=10 rejected, reordering on only if every requested observable is un-permuted or invariant (subsets of 14 observable options), DMRG refuses noise through create_impl.", TECH_M, NOTE_M),
    "C34": ("other", "DESIGN.md#c34", "Part: number of SequenceData = sum of reps (with and without Lindblad noise), each carrying its sample's data; run() simulates each exactly once and hands all results to Results.aggregate in order. Aggregation arithmetic is Pulser's and outside.", TECH_M, NOTE_M),
}

NOT_APPLICABLE = {
    "C28": "Norm/energy conservation of the floating-point propagators (TDVP sweeps with Krylov steps and truncation); the exact-arithmetic ingredient (Hermiticity of H) is a lemma checked under C05/C06.",
    "C31": "A finite compatibility matrix of third-party releases decided by running the package; there is no input to make symbolic and only pulser-core 1.9.1 exists offline.",
}


def main():
    claimed = [c for c in sorted(CHECKS) if os.path.exists(os.path.join(HERE, "harness", c.lower() + ".py"))]
    checks = []
    for c in claimed:
        cat, ref, text, tech, note = CHECKS[c]
        checks.append(
            {
                "property_id": c,
                "quick_cmd": f"./vcheck {c} --tier quick",
                "thorough_cmd": f"./vcheck {c} --tier thorough",
                "evidence_file": f"/verif/evidence/{c}.json",
                "replay_cmd_template": "./vcheck replay {path}",
                "engine": "symex",
                "level_claimed": {"category": cat, "text": text, "design_ref": ref},
                "level_note": note,
                "technique": tech,
            }
        )
    all_ids = [json.loads(l)["id"] for l in open(os.path.join(HERE, "properties.jsonl"))]
    na = []
    for pid in all_ids:
        if pid in claimed:
            continue
        reason = NOT_APPLICABLE.get(pid, "check not built yet in this session (planned; see DESIGN.md section 5)")
        na.append({"property_id": pid, "reason": reason})
    m = {
        "version": 1,
        "setup_cmd": "./setup.sh",
        "hooks": {
            "guard": "PASQAL_IO_EMULATORS_VERIF",
            "enable": "no hooks in /repo: all interposition (stubs for clock, RNG, file system, LAPACK kernels) happens in the check process by replacing names in the loaded modules' namespaces; the guard variable is reserved and set by vcheck",
            "baseline_off_cmd": "cd /repo && /venv/bin/python -m pytest -ra -q -p no:cacheprovider --timeout=900 --continue-on-collection-errors",
            "source_commits": [],
            "add_only": True,
        },
        "engines": [
            {
                "name": "symex",
                "path": "/verif/symex",
                "serves_properties": claimed,
                "kind_free_text": "symbolic executor for Python (decision-trail re-execution), symbolic tensors behind a torch shim, z3 back end, replay on the real torch",
            }
        ],
        "checks": checks,
        "notes": "Solver-based checking of the real code; see DESIGN.md. Exit codes: 0 held, 1 VIOLATION (replayed), 2 inconclusive/harness error.",
        "not_applicable": na,
    }
    with open(os.path.join(HERE, "MANIFEST.json"), "w") as f:
        json.dump(m, f, indent=1)
    try:
        import jsonschema

        jsonschema.validate(m, json.load(open("/root/.vp/MANIFEST.schema.json")))
        print(f"MANIFEST ok: {len(checks)} checks, {len(na)} not claimed")
    except ImportError:
        print("written (jsonschema unavailable)")


if __name__ == "__main__":
    main()
