#!/venv/bin/python
"""Writes /verif/seeded/<id>/meta.json for every confirmed seeded change from the table
below (one entry per sub-agent change that was kept) and prints the DESIGN.md table."""
import json
import os
import sys

HERE = os.path.dirname(os.path.dirname(os.path.abspath(__file__)))

RAN = (
    "tools/confirm_seed.sh <id>: demo.py against the scratch worktree with the change (must fail) and against /repo (must pass), "
    "/tmp/seedtools/baseline.py on the worktree (existing suite vs BASELINE.json); tools/try_seed.sh <dir> quick <checks>: the "
    "listed checks against a scratch worktree of /repo HEAD with the patch applied (VERIF_REPO)"
)

SEEDS = {
    "C05": dict(
        property="C05",
        change="interaction masks computed with `row.sum(dim=1) != 0` instead of `.any(dim=1)` in _left/_right_interaction_masks",
        needs="mixed-sign couplings of one atom across a bond that cancel exactly (e.g. U02=+1, U03=-1), N>=4 for a silent error",
        detected_by={"C05": "exception:AssertionError (n=3) and 'contract(MPO) = dense ... H' (n=4): z3 picks cancelling couplings"},
    ),
    "C06": dict(
        property="C06",
        change="RydbergLindbladian.h_eff skips qubits with omega=delta=0 ('undriven'), dropping their -i/2 sum L^dag L term",
        needs="a qubit with zero drive and detuning while jump operators are present",
        detected_by={"C06": "L@rho = ... (n=1, ops=2)", "C16": "step k: exponentiated map = dt*1e-3*GKSL generator"},
    ),
    "C14": dict(
        property="C14",
        change="_get_target_times builds the grid in ns but keeps the 1e-9 merge tolerance meant for relative time",
        needs="an evaluation time within 1e-10 (relative) of a multiple of dt without being equal to it, e.g. 0.3333333333 with duration 3000, dt 1000",
        detected_by={"C21": "'times #k,#k+1 ... more than 5e-10*duration apart' and 'evaluation time e0 matches at most one grid time'", "C14": "requested_times_on_grid_* (the grid cases, shared with C21 since round 2)"},
        strengthened="C14's own check MISSED it at first (it took the grid as an input satisfying C21's contract); C21's counterexamples were found but did not replay (non-integer universal index from the relaxed encoding) -> soft integrality constraints when extracting the model; since round 2 the grid cases are part of C14 as well",
    ),
    "C19": dict(
        property="C19",
        change="get_next_abscissa: delta_ab made absolute, which silently drops the `dx*delta_ab < 0` fallback to bisection",
        needs="an inverse-quadratic step through three non-monotone ordinates that points away from the bracket",
        detected_by={"C19": "step_epssym_beyond_b: 'next abscissa lies in the closed bracket'"},
    ),
    "C27": dict(
        property="C27",
        change="first autosave written in place, later ones via .new + os.replace, decided by a pickled counter",
        needs="exactly one completed autosave, resume from it, crash inside the next autosave (the restored counter is 0 again)",
        detected_by={"C27": "later_autosave_crash: advertised file is a complete snapshot"},
    ),
    "C20": dict(
        property="C20",
        change="reverts the end-slope limiter to `d_end * s_l < 0` (the defect D1 returning)",
        needs="a flat first or last secant, e.g. y=[0,0,1]",
        detected_by={"C20": "shape_*: slopes in the monotonicity region; reference_*", "C22": "delta/phi = PCHIP(...)(midpoint)"},
    ),
    "C22": dict(
        property="C22",
        change="right end slope limited with its two secants swapped: _limit_endpoint(dn, delta[-2], delta[-1])",
        needs="last two secants of different sign class (plateau then a move, or a hook) and a step midpoint in the last 2 ns",
        detected_by={"C20": "reference_*: p2/p3 = reference", "C22": "delta[k,q] = PCHIP(det samples)(midpoint)"},
    ),
    "C23": dict(
        property="C23",
        change="masked_interaction_matrix cloned before the cutoff is applied to the full matrix",
        needs="an SLM mask with end > 0, interaction_cutoff > 0, a sub-cutoff coupling between unmasked atoms, a query time before the mask ends",
        detected_by={"C23": "cutoff_mask_*: masked[i,j]: zero iff a masked atom is involved"},
    ),
    "C21": dict(
        property="C21",
        change="merge tolerance multiplied by the duration while the comparison stays in relative time (window 1e-9*duration^2 ns)",
        needs="a long sequence and an evaluation time within that window of a multiple of dt (duration 10000, dt 1, evaluation 5000.05 ns)",
        detected_by={"C21": "grid_evals0_idx2: 'the multiple i*dt is a grid time'"},
    ),
    "C13": dict(
        property="C13",
        change="MPS.expect_batch left sweep contracts the neighbour with R instead of R^T (tensordot dims=1)",
        needs="orthogonality centre > 0 and a bond of dimension >= 2 left of it",
        detected_by={"C13": "mps_expect_batch_entangled_left: expect_batch[0] / occupation[0]"},
        strengthened="MISSED at first (only product states were covered through QR). Added a known-factorisation QR stub (every valid QR of Q0 R0 is (Q0 D, D* R0)) and two 3-site cases with a chi=2 bond next to the centre",
    ),
    "C24": dict(
        property="C24",
        change="dephasing and depolarizing-z share a helper that puts +c on the leakage level (right for dephasing, wrong for depolarizing)",
        needs="depolarizing_rate != 0 with 3 levels",
        detected_by={"C24": "rate_channels_*_d3: dissipator ... (depolarizing, ising, d=3)"},
    ),
    "C18": dict(
        property="C18",
        change="after a jump the step end is recomputed as (k+1)*config.dt instead of read from the target-time grid",
        needs="a non-uniform grid (evaluation time off the dt grid) and a jump in a step whose end differs from (k+1)*dt",
        detected_by={"C18": "step_search_inner: 'after a jump the target is the end of the step'"},
        strengthened="first detection was accidental (the stub config had no `dt`: AttributeError); the stub now carries a dt unrelated to the symbolic grid and the semantic clause fails",
    ),
    "C02": dict(
        property="C02",
        change="XYHamiltonianMPOFactors.last_factor drops the factor 2 of the two-site coupling",
        needs="XY interaction with exactly 2 atoms",
        detected_by={"C05": "mpo_xy_n2_d2_noise: contract(MPO) = dense xy H", "C02": "projection_pair_xy_n2_d2_chi1 (added)"},
        strengthened="C02's own grid had no 2-site XY projection case (C05 caught the change); added",
    ),
    "C03": dict(
        property="C03",
        change="init_initial_state re-keys the user's amplitudes with the inverse permutation",
        needs="a user initial state, reordering on, a permutation that is not an involution (>= 3 atoms)",
        detected_by={"C03": "initial_state_n3: amplitude keys"},
    ),
    "C01": dict(
        property="C01",
        change="EvolveStateVector.evolve returns the state unchanged when omega and delta are all zero ('lasers off')",
        needs="a delay step after a pulse with >= 2 interacting atoms (the van der Waals phases are dropped)",
        detected_by={"C01": "'exactly one exponential per target-time interval' and the step operator clause"},
    ),
    "C04": dict(
        property="C04",
        change="_extract_omega_delta_phi selects the supported basis from the sample dictionary and no longer rejects extra, unsupported bases (a Raman/digital channel next to the Rydberg one is silently dropped)",
        needs="a sequence with a supported channel plus a channel in a basis the emulators do not implement ('digital')",
        detected_by={"C04": "adapter_rejects_supported_plus_unsupported (added)", "C22": "rejects_supported_plus_unsupported (added)"},
        strengthened="MISSED at first: the reject cases covered two supported bases and a single unknown one, not the mix. Added the mixed case (both orders, digital/all) to C22 and re-used the adapter reject cases in C04",
    ),
    "C10": dict(
        property="C10",
        change="MPS.truncate returns early for bond dimension 1 ('product state: nothing to truncate') and declares centre 0 without orthogonalising",
        needs="a chi=1 MPS whose non-centre factors are not normalised (e.g. after scaling or a sum of product terms compressed to chi 1)",
        detected_by={"C10": "truncate_* : state unchanged up to the discarded weight / factors right of the centre are right-orthonormal"},
    ),
    "C11": dict(
        property="C11",
        change="get_correlation_matrix contracts the operator with dims ([0,2],[0,1]) (operator transposed on the off-diagonal pairs; the earlier defect D13 returning in half)",
        needs="a non-symmetric single-site operator (not the default number operator) and left != right",
        detected_by={"C11": "correlation_matrix_*: result[i,j] = <psi|O_i O_j|psi>"},
    ),
    "C12": dict(
        property="C12",
        change="SparseOperator.from_operator_repr allocates the identity list once and restores only the qubits touched by the LAST factor of a term",
        needs="an operator with >= 2 terms where a term has >= 2 factors on different qubits",
        detected_by={"C12": "sparse_operator_*: matrix = sum coeff * kron(...)"},
    ),
    "C15": dict(
        property="C15",
        change="MPS.sample orthogonalises only when orthogonality_center is None (the lazy pattern of norm/expect_batch)",
        needs="an entangled MPS whose recorded centre is k > 0 (after apply(k, op) or orthogonalize(k))",
        detected_by={"C15": "mps_sample_centre_last_n2 (added): weights of site 0 = Born marginal"},
        strengthened="MISSED at first: every MPS case declared centre 0. Added cases with the centre declared at the last site and a chi=2 bond next to it (known-factorisation QR stub), canary: declaring centre 0 for that state",
    ),
    "C16": dict(
        property="C16",
        change="RydbergLindbladian.h_eff skips qubits with omega=delta=0 (same idea as seed C06, produced independently)",
        needs="jump operators present and an undriven qubit",
        detected_by={"C16": "dm_n1_steps2_ops1: exponentiated map = dt*1e-3*GKSL generator", "C06": "lindblad_n1_ops2_phase_any"},
    ),
    "C26": dict(
        property="C26",
        change="extra save_simulation() at the end of timestep_complete: the snapshot is taken with the new time step set up but the sweep direction not yet flipped",
        needs="TDVP with > 2 atoms, the throttled autosave becoming due exactly in the progress step that finishes a time step, interruption before the next autosave",
        detected_by={"C26": "snapshot_consistency_MPSBackendImpl_n3_steps2 (added): snapshot #1 resumed trace != uninterrupted trace suffix"},
        strengthened="MISSED at first: C26 modelled progress() as one atomic step per time step. Added a family that runs the real progress()/sweep/timestep_complete/save_simulation state machine with tensor kernels as trace entries and a symbolic clock choosing which saves are due; every snapshot written must resume to exactly the uninterrupted trace suffix",
    ),
    "C29": dict(
        property="C29",
        change="emu-sv RydbergHamiltonian takes the real (sigma-x only) path when all sin(phi) are ~0, i.e. also for phi = pi",
        needs="a drive phase of pi (or a multiple) on every atom",
        detected_by={"C29": "sv_offset_n1: H(phi+c) R_c v = R_c H(phi) v", "C06": "ham_mul_n1_phase: H*v = H_dense v"},
    ),
    "C07": dict(
        property="C07",
        change="krylov_exp_impl: fast path `exp(T[0,0]) * v` for a happy breakdown at the first iteration; v was already normalised in place, so the |v| factor is lost while converged=True is reported",
        needs="v spans a one-dimensional invariant subspace (eigenvector, operator ~ identity, Omega=0 on a basis state) and |v| != 1",
        detected_by={"C07": "honesty_dim2_k1_lanczos / honesty_dim3_k2_lanczos: returned vector = |v| * sum_k exp(T)[k,0] q_k (happy at iteration 0)"},
        strengthened="first detection was accidental (IndexError in the harness: no matrix_exp call to pair the result with). The exponential stub now also stands in for a scalar torch.exp of a 1x1 projected matrix, so the returned-vector clause applies and fails semantically",
    ),
    "C08": dict(
        property="C08",
        change="_lowest_eigenvector_krylov_method keeps the lowest-residual Ritz vector but reports the minimum Ritz value of the cycle: energy and state come from different iterations",
        needs="budget exhausted without convergence and a non-monotone residual inside the last cycle",
        detected_by={"C08": "bookkeeping_k2_restarts0: returned energy and returned vector are the Ritz pair of one and the same projected problem (added)"},
        strengthened="MISSED at first: the check only demanded that the energy be the lowest Ritz value of *some* projected problem. Added the pairing clause (energy and normalised Ritz vector from the same eigh call) with a canary",
    ),
    "C09": dict(
        property="C09",
        change="DMRG convergence_check drops the abs(): any sweep whose energy went down by any amount (or is below a stale previous energy) counts as converged",
        needs="a time step starting from a product state after a step that left a higher stale energy (delay then drive), >= 6 atoms for a visible error",
        detected_by={"C09": "sweeps_n2_upto3_max2000: the time step does not complete before the energy has converged"},
    ),
    "C17": dict(
        property="C17",
        change="do_random_quantum_jump builds the candidate list operator-major while the weights stay qubit-major",
        needs=">= 2 jump operators with different weights (mixed noise types)",
        detected_by={"C17": "jump_concrete_state_n3_ops2_d2: candidate #j is (atom q, operator k) / weight #j = <psi|(L^dag L)_q|psi>"},
    ),
    "C30": dict(
        property="C30",
        change="EvolveStateVector.backward guards the grad_phis block with needs_input_grad[2] (the detunings' flag)",
        needs="phis require a gradient while deltas do not",
        detected_by={"C30": "backward_assembly_n1 (added): a gradient is returned for `phi` whenever it is requested"},
        strengthened="MISSED at first: C30 only decided the dH/dtheta operators. Added backward_assembly: the real backward with double_krylov/krylov_exp as stubs over all 32 needs_input_grad combinations",
    ),
    "C32": dict(
        property="C32",
        change="minimize_bandwidth_impl rebuilds the accumulated permutation from the stale initial_perm after each accepted round",
        needs="a start that goes through >= 2 accepted improving rounds",
        detected_by={"C32": "impl_n3_init01: the loop's matrix = original permuted by the returned permutation"},
    ),
    "C33": dict(
        property="C33",
        change="MPSConfig applies the Krylov tolerance floor only when solver == TDVP",
        needs="solver=DMRG and precision*extra_krylov_tolerance < 1e-12",
        detected_by={"C33": "krylov_floor_and_autosave_dt: effective Krylov tolerance precision*extra' >= 1e-12 (solver fork added)"},
        strengthened="MISSED at first: the floor was only exercised with the default solver. The configuration case now forks over the solver (default, 'tdvp', 'dmrg', enum forms) and also records the tolerance that reaches krylov_energy_minimization through minimize_energy_pair",
    ),
    "C34": dict(
        property="C34",
        change="get_sequences yields a trajectory group once instead of `reps` times when the noise model has Lindblad noise",
        needs="n_trajectories > 1, a Lindbladian channel, a group with reps > 1",
        detected_by={"C34": "reps_expansion_samples1: number of SequenceData = sum of reps (Lindblad fork added)"},
        strengthened="first detection was accidental (AttributeError: the stub PulserData lacked has_lindblad_noise). The stub now carries every attribute the constructor sets and the case forks over Lindblad noise, so the counting clause fails",
    ),
    # ---- second round: a different change for properties with a large surface --------------------
    "C01b": dict(
        property="C01",
        change="SVBackendImpl._compute_dt returns min(config.dt, time left) instead of the length of the target-time interval",
        needs="an evaluation time off the dt grid (a target-time interval shorter than config.dt that is not the last one)",
        detected_by={"C01": "sv_n1_steps2: step 0: exponentiated operator = -i*dt*1e-3*H_Pulser(step 0)"},
        strengthened="first detection was accidental (AttributeError: the stub SVConfig had no `dt`). All emu-sv harnesses now share a stub config carrying every SVConfig option, with a dt unrelated to the symbolic grid, so the step-operator clause fails",
    ),
    "C19b": dict(
        property="C19",
        change="get_next_abscissa guards the inverse-quadratic branch with fa != 0 and fb != 0 (a numerator) instead of fc != 0 (a divisor)",
        needs="a queried point with ordinate exactly 0 that is not a sign change, followed by a point replacing b; |fa|,|fb| >= epsilon",
        detected_by={"C19": "zero_ordinate_unroll_eps1: no ZeroDivisionError in get_next_abscissa: a divisor is zero on a reachable state"},
    ),
    "C26b": dict(
        property="C26",
        change="MPSBackend.resume no longer sets impl.autosave_file to the path it was given: the solver keeps the path stored in the snapshot",
        needs="the autosave file was moved/renamed (or copied) before resuming",
        detected_by={"C26": "resume_equals_uninterrupted_n2: the autosave file is removed when the resumed run finishes (moved-file fork added)"},
        strengthened="MISSED at first: the snapshot's stored path always equalled the path passed to resume. The case now forks over 'file moved before resuming' and also demands that nothing is written at the old location",
    ),
    "C27b": dict(
        property="C27",
        change="save_simulation calls os.replace inside the `with open(.new)` block, i.e. before the .new file is closed/flushed",
        needs="a hard crash between the rename and the close, with a final write smaller than the file buffer",
        detected_by={"C27": "later_autosave_crash: completed autosave: the advertised file holds the new snapshot / is a complete snapshot"},
    ),
    "C04b": dict(
        property="C04",
        change="get_lindblad_operators('dephasing') returns [] early when dephasing_rate == 0, in front of the hyperfine-dephasing guard",
        needs="a noise model with hyperfine_dephasing_rate != 0 and dephasing_rate == 0: the unsupported noise is silently left out",
        detected_by={"C04": "noise_rejects_ising (added to C04): hyperfine dephasing != 0 raises NotImplementedError, = 0 is accepted", "C24": "errors_ising: same clause"},
        strengthened="C04 MISSED it at first (its text deferred noise rejection to C24, which caught it): the error-path cases of C24 are now part of C04. A second clause of C24 that also fired (the exact NUMBER of operators per channel) demanded more than the property and was removed",
    ),
    "C15b": dict(
        property="C15",
        change="MPS.sample: `(p_false_neg > 0 or p_false_pos > 0) and dim == 2` - false negatives are no longer applied for three-level MPS",
        needs="a qutrit MPS sampled with p_false_neg > 0 and p_false_pos == 0",
        detected_by={"C15": "mps_sample_n2_d3_D1_exhaustive: MPS(dim=3): readout errors are applied iff a rate is positive"},
    ),
    "C16b": dict(
        property="C16",
        change="RydbergLindbladian takes the real (phase-free) branch whenever all sin(phi) vanish, i.e. also for phi = pi",
        needs="a noisy step with every phase a multiple of pi and at least one odd multiple",
        detected_by={"C16": "dm_n1_steps2_ops1: exponentiated map = dt*1e-3*GKSL generator", "C06": "lindblad_n1_ops2_phase_any"},
    ),
    "C20b": dict(
        property="C20",
        change="PCHIP1D._interval_index drops the lower clamp: queries left of x[0] index interval -1 (the last cubic)",
        needs="a query point strictly left of the first knot",
        detected_by={"C20": "query_n2_uniform: P(xq) uses the polynomial of the interval containing xq (end pieces outside)"},
    ),
    "C21b": dict(
        property="C21",
        change="the merge of grid points into pinned times uses a bisect lookup that only inspects the first pinned time at or after the grid point",
        needs="a multiple of dt that rounds to just above a pinned time (e.g. duration 187, dt 1.1: 187.00000000000003 is kept next to 187.0)",
        detected_by={"C21": "grid_evals2_idx1_mixed: times #k,#k+1 strictly increasing, more than 5e-10*duration apart", "C14": "requested_times_on_grid_evals2_mixed"},
    ),
    "C30b": dict(
        property="C30",
        change="the safe-secant substitution of the PCHIP harmonic mean (the repair of the NaN-gradient defect) is narrowed to exactly-zero secants: opposite secants that cancel (w_l/d_l + w_r/d_r = 0) divide by zero again",
        needs="an interior sample whose two neighbours are equal to each other and different from it (symmetric triangular pulse)",
        detected_by={"C30": "pchip_gradient_finite_knots3: d(sum of interpolated values)/d(samples) is finite"},
    ),
    "C07b": dict(
        property="C07",
        change="krylov_exp_impl multiplies both truncation-error estimates by |v|: the loop stops once |v|*err < tol, so for small |v| it reports converged far too early",
        needs="an input vector with norm well below 1 and no happy breakdown",
        detected_by={"C07": "honesty_dim2_k1_lanczos: converged is reported exactly when an iteration met the breakdown or error criterion"},
    ),
    "C08b": dict(
        property="C08",
        change="krylov_energy_minimization_impl loops range(max_restarts) instead of range(max_restarts + 1): with max_restarts=0 no cycle runs and the un-normalised start vector is returned with energy inf",
        needs="max_restarts = 0",
        detected_by={"C08": "bookkeeping_k1_restarts0: non-convergence is only reported after every allowed restart and iteration was used"},
    ),
    "C09b": dict(
        property="C09",
        change="create_impl tests `config.solver is Solver.DMRG`: a solver given as the documented string 'dmrg' silently runs TDVP",
        needs="solver passed as the string 'dmrg' (or a config rebuilt from its abstract representation)",
        detected_by={"C09": "dmrg_requested_dmrg_runs (added): solver=DMRG: create_impl returns the DMRG implementation", "C04": "mps_solver_selection_n2: DMRG requested: the DMRG solver runs (string/enum fork added)", "C33": "dmrg_refuses_noise_and_create_impl"},
        strengthened="C09 and C04 MISSED it at first (C33 caught it): both only ever passed the enum. C04's solver-selection table now forks over the spelling, and C09 shares C33's dispatch case",
    ),
    "C17b": dict(
        property="C17",
        change="init_lindblad_noise aggregates `stacked.mT @ stacked` (L^T L) instead of L^dag L: jump weights are wrong for complex jump operators (depolarizing sigma_y gets a negative weight)",
        needs="a jump operator with complex entries",
        detected_by={"C17": "effective_hamiltonian_n2_ops1_d2: aggregated operator 0 = L^dag L"},
    ),
    "C33b": dict(
        property="C33",
        change="DMRGBackendImpl.__init__ refuses only when there are Lindblad operators instead of whenever the noise model has noise types",
        needs="DMRG with a noise model made of non-Lindbladian noise only (SPAM, amplitude, detuning, doppler)",
        detected_by={"C33": "dmrg_refuses_noise_and_create_impl: DMRGBackendImpl refuses exactly the noise models with noise", "C04": "mps_solver_selection_n2: DMRG with any noise is refused"},
    ),
    "C34b": dict(
        property="C34",
        change="MPSBackend.run folds every 32 pending per-trajectory Results into one partial aggregate that re-enters the final (unweighted) aggregation as a single result",
        needs="emu-mps with n_trajectories >= 33 and a mean-aggregated observable",
        detected_by={"C34": "run_mps: Results.aggregate receives one result per simulation, in order / is called exactly once (n_trajectories 32, 33, 65 added)"},
        strengthened="MISSED at first: run() was only exercised with up to 5 trajectories. Added 32, 33 and 65 and the clause that aggregate is called exactly once, on the per-trajectory results themselves",
    ),
    # ---- third round (8 properties) ---------------------------------------------------------------
    "C02c": dict(
        property="C02",
        change="init_initial_state moves a user-supplied initial state into site order with the INVERSE of the qubit permutation (same mechanism as round-1 seed C03, produced for C02)",
        needs="reordering on with a non-involutive ordering (>= 3 atoms) and a custom initial state",
        detected_by={"C02": "initial_state_follows_the_ordering_n3 (added): amplitude keys: character i of the internal state is the level of atom perm[i]", "C03": "initial_state_n3"},
        strengthened="C02 MISSED it at first (C03 caught it): C03's initial-state case is now part of C02",
    ),
    "C03c": dict(
        property="C03",
        change="init_dark_qubits reorders the bad-atom mask with the inverse permutation (same mechanism as round-1 seed C25, produced for C03)",
        needs="a bad atom, reordering on, a non-involutive ordering",
        detected_by={"C03": "bad_atom_mask_follows_the_ordering_n3 (added): dark-atom mask is expressed in the internal (permuted) site order", "C25": "mps_bad_atoms_n3_d2_reorder"},
        strengthened="C03 MISSED it at first (C25 caught it): C25's bad-atom case (masks with >= 2 well-prepared atoms) is now part of C03",
    ),
    "C05c": dict(
        property="C05",
        change="update_H returns early when omega, delta and the noise term are all zero: the single-atom blocks of the previous step stay in the factors",
        needs="an update_H with non-zero drive followed by an all-zero one on the same MPO (a noiseless delay slot)",
        detected_by={"C05": "mpo_rydberg_n2_d2_noise: after a second update_H the MPO equals the dense H of the new drive", "C02": "drive_update_rydberg_n2_steps2_reorder_slm"},
    ),
    "C10c": dict(
        property="C10",
        change="_determine_cutoff_index becomes a searchsorted on the individual eigenvalues instead of a running sum: all directions individually below precision^2 are discarded",
        needs="a bond with >= 2 squared Schmidt values that are each <= precision^2 but together exceed it",
        detected_by={"C10": "cutoff: cutoff(k=4): discarding one more eigenvalue would exceed eps^2 / discarded weight <= eps^2"},
    ),
    "C11c": dict(
        property="C11",
        change="MPO._from_operator_repr hoists the per-qudit factor list out of the loop over terms: later terms inherit the sub-operators of earlier ones",
        needs="an operator with >= 2 terms where a later term leaves untouched a qudit an earlier term acted on",
        detected_by={"C11": "operator_repr_full: dense(from_operator_repr) = sum_k c_k (x)_q op_kq"},
    ),
    "C12c": dict(
        property="C12",
        change="sparse_add gets an empty-operand fast path returning `other.coalesce()`: sparse_kron's result is flagged coalesced but not row-sorted, so a one-term SparseOperator reaches to_sparse_csr unsorted",
        needs="a one-term operator with a non-monomial factor not on the last qubit, >= 2 qubits",
        detected_by={"C12": "oprepr_keys_n2_k2: SparseOperator (to_dense) = sum coeff * kron of single-qubit matrices"},
    ),
    "C13c": dict(
        property="C13",
        change="density-matrix energy variance / second moment computed as ||H rho||_F^2 = tr(rho H^2 rho) instead of tr(rho H^2): right only for pure states",
        needs="a mixed density matrix (any Lindblad evolution after t=0)",
        detected_by={"C13": "dm_obs_n2_ops1: energy second moment = tr(rho H^2)"},
    ),
    "C23c": dict(
        property="C23",
        change="get_sequences stores the first trajectory's register matrix in the slot of the user-supplied matrix: all later trajectories (and later calls) use the first trajectory's matrix",
        needs="no user matrix and >= 2 noise trajectories with different register matrices",
        detected_by={"C23": "per_trajectory_matrix_samples2 (added): each repetition carries its own trajectory's interaction matrix", "C34": "reps_expansion_samples2"},
        strengthened="C23 MISSED it at first (C34 caught it): C23 only ever built one trajectory. C34's multi-trajectory case is now part of C23",
    ),
    "C14c": dict(
        property="C14",
        change="emu-mps _is_evaluation_time no longer passes the 1e-10 tolerance on the config-default branch: pulser's 1e-6 default applies",
        needs="emu-mps, an observable on default times, a requested time within (1e-9, 1e-6] of a dt-grid point",
        detected_by={"C14": "mps_steps2_D20: emu-mps: B(default times) stored exactly once per requested time and at no other time"},
    ),
    "C15c": dict(
        property="C15",
        change="MPS.sample's batching loop rewritten with `num_shots % 32` as the last batch size: a multiple of 32 shots loses its last batch (32 shots -> empty result)",
        needs="MPS sampling with num_shots a multiple of 32",
        detected_by={"C15": "mps_sample_n2_d2_D2_many: one sampler call per site and batch / each call gets a (batch, dim) weight matrix (32 shots added to the quick tier)"},
        strengthened="MISSED at first by the quick tier (33 and 40 shots only; 64 was in the thorough tier): 32 shots - exactly one full batch - added",
    ),
    "C18c": dict(
        property="C18",
        change="set_jump_threshold no longer resets norm_gap_before_jump (moved into init): after a jump the next root search starts from a stale gap",
        needs="two jumps inside one time step",
        detected_by={"C18": "step_search_inner: new threshold in (0,1), gap = 1 - threshold; Inv holds again (after the jump)"},
    ),
    "C01c": dict(
        property="C01",
        change="RydbergHamiltonian takes the phased path only when ALL phases are non-zero (`phis.all()` instead of `.any()`): a step with mixed zero / non-zero phases drops every phase",
        needs="a step whose per-atom phase vector mixes 0 and non-zero values (SLM mask during a phased global pulse)",
        detected_by={"C01": "sv_n2_steps2_slm: step k: exponentiated operator = -i*dt*1e-3*H_Pulser(step k)", "C06": "ham_mul_n2_phase: H*v = H_dense v"},
    ),
    "C04c": dict(
        property="C04",
        change="create_impl no longer refuses DMRG when the SequenceData carries Lindblad operators (the repaired defect D6 returning)",
        needs="solver=DMRG with jump operators that do not come from config.noise_model (device noise model)",
        detected_by={"C04": "mps_solver_selection_n2: DMRG with any noise is refused"},
    ),
    "C07c": dict(
        property="C07",
        change="the second truncation-error estimate uses the residual norm n2 instead of |A v_j| (err2 becomes quadratic in the residual): early `converged=True` near almost-invariant subspaces",
        needs="a start vector in a weakly coupled subspace, moderate dt*|H|, tolerance between eps^2 and eps",
        detected_by={"C07": "honesty_dim2_k1_lanczos: converged is reported exactly when an iteration met the breakdown or error criterion"},
        strengthened="first detection was an exception in the harness (the oracle expected a returned vector and compared None): the returned-vector clause is now skipped when no vector came back, so the convergence clause is what fails",
    ),
    "C20c": dict(
        property="C20",
        change="the right-end three-point slope receives the last two interval widths in swapped order",
        needs="a non-uniform grid whose last two intervals differ, query in the last interval or beyond",
        detected_by={"C20": "reference_n3_nonuniform: p2/p3 = reference"},
    ),
    "C08c": dict(
        property="C08",
        change="the Lanczos cycle length is capped at numel-1 (off by one): for a 1-dimensional operator no Ritz pair is ever computed (energy inf), for dimension 2 every cycle has one iteration",
        needs="an operator of dimension 1 (or 2 with a non-eigenvector start)",
        detected_by={"C08": "bookkeeping_k2_restarts0: non-convergence is only reported after every allowed restart and iteration was used"},
    ),
    "C09c": dict(
        property="C09",
        change="DMRG convergence_check tests the energies for truthiness instead of `is None`: a sweep energy of exactly 0.0 never counts as converged",
        needs="a time step with zero amplitude while the state is |g..g> (sweep energy exactly 0.0): RuntimeError after max_sweeps",
        detected_by={"C09": "sweeps_n3_upto3_max2: the time step completes right after the first full sweep whose final energy moved by less than the tolerance"},
    ),
    "C16c": dict(
        property="C16",
        change="SVBackendImpl.__init__ wraps the user's initial state without cloning it: krylov_exp normalises that very tensor in place, so a second emulation with the same config starts from rho0/|rho0|_F",
        needs="Lindblad noise, a mixed initial DensityMatrix (Frobenius norm < 1) and a second emulation with the same SVConfig",
        detected_by={"C16": "dm_n1_steps1_ops2_init: the configured initial density matrix is not modified by the run (added)", "C01": "sv_n2_steps1_init: the user's initial state is not modified"},
        strengthened="MISSED at first by both: C01 had the clause, but the krylov_exp stub left its input alone. The stub now honours krylov_exp's documented contract (its input tensor becomes invalid: it is zeroed), which exposes any code that still needs that tensor; the clause was added to C16. (Two aliasing mistakes this uncovered in the harnesses themselves - recorded results and callback states held by reference - were fixed.)",
    ),
    "C17c": dict(
        property="C17",
        change="fill_results builds the state handed to observables from the raw (un-normalised) trajectory state when bad atoms are present (same mechanism as C25b, produced for C17)",
        needs="Lindblad noise (decaying norm) and at least one badly prepared atom",
        detected_by={"C17": "reported_state_is_normalised_N3_d2_chi2 (added): state handed to callbacks = (psi/norm) with dark atoms in |g>", "C13": "mps_fill_results_N3_d2_chi2", "C25": "mps_fill_results_N3_d2_chi2"},
        strengthened="C17 MISSED it at first (C13 and C25 caught it): the fill_results case is now part of C17 as well",
    ),
    "C21c": dict(
        property="C21",
        change="_unique_observable_times converts the default times once after the loop and ASSIGNS instead of merging: explicit evaluation times of other observables are thrown away as soon as one observable uses the default",
        needs="a configuration mixing observables with own times and with default times",
        detected_by={"C21": "grid_evals2_idx1_mixed: evaluation time e0 is a grid time", "C14": "requested_times_on_grid_evals2_mixed"},
    ),
    "C27c": dict(
        property="C27",
        change="MPSBackend.resume promotes a sibling `.new` file over the advertised autosave before loading it",
        needs="a crash inside the write of `.new` during a later autosave, then resume",
        detected_by={"C27": "later_autosave_crash: crash during a later autosave: resume neither raises 'Not a file' nor loads a partial file"},
    ),
    "C29c": dict(
        property="C29",
        change="_extract_omega_delta_phi orders the drive columns by sorted(set(ids)) instead of register order",
        needs="ids whose sorted order differs from register order (integer ids turned into strings by a serialisation round trip, > 10 atoms) and atom-dependent drives",
        detected_by={"C29": "adapter_columns_follow_register_order (added): delta[k,a] = PCHIP(det samples)(midpoint)", "C22": "extract_T2_K2_atoms2 (ids now in non-sorted register order)"},
        strengthened="MISSED at first by C29 and C22: every harness used ids whose register order is also their sorted order. C22's two-atom case now uses ids in non-sorted register order and is shared with C29",
    ),
    "C30c": dict(
        property="C30",
        change="forward keeps a private copy of its input state only when omega, delta or phi need a gradient (slice [1:4] instead of [1:5]): with only the interaction matrix requiring grad, backward gets the in-place normalised state again (the repaired defect returning for one flag combination)",
        needs="an un-normalised input state and only the interaction matrix requiring a gradient",
        detected_by={"C30": "forward_saves_input_state_n2: the state saved for the backward pass is the state the step started from (fork over needs_input_grad added)"},
        strengthened="MISSED at first: the forward case set every needs_input_grad flag. It now forks over nine flag combinations",
    ),
    "C32c": dict(
        property="C32",
        change="minimize_bandwidth_impl starts the accumulated permutation from the identity instead of the starting shuffle: right for the shuffled matrix, wrong for the input matrix",
        needs="a random restart (non-identity start) that strictly beats the identity start",
        detected_by={"C32": "impl_n1to2: the loop's matrix = original permuted by the returned permutation"},
    ),
    "C33c": dict(
        property="C33",
        change="the Krylov-tolerance floor caps the replacement factor at 1.0: for precision < 1e-12 the effective tolerance equals the precision, below the floor",
        needs="precision strictly below 1e-12",
        detected_by={"C33": "krylov_floor_and_autosave_dt: effective Krylov tolerance precision*extra' >= 1e-12"},
    ),
    "C34c": dict(
        property="C34",
        change="get_sequences skips every noise-trajectory group in which all atoms are badly prepared",
        needs="SPAM noise with a sampled trajectory where every atom is bad (1-3 atoms or a high error rate)",
        detected_by={"C34": "reps_expansion_samples1: number of SequenceData = sum of reps (all bad-atom patterns added)"},
        strengthened="MISSED at first: the bad-atom masks in the repetition cases never made all atoms bad. Every pattern is now chosen by the explorer",
    ),
    # ---- fourth round (8 properties) --------------------------------------------------------------
    "C02d": dict(
        property="C02",
        change="MPSBackendImpl.progress uses config.dt as the TDVP step length for noiseless runs instead of target_time - current_time",
        needs="a noiseless run whose target-time grid has a step different from dt (duration not a multiple of dt, or an off-grid evaluation time)",
        detected_by={"C02": "schedule_n2: local evolution #k uses the scheduled time step"},
        strengthened="first detection was accidental (AttributeError: the schedule case still had a two-field stub config); it now uses the complete stub config, so the schedule clause fails",
    ),
    "C05d": dict(
        property="C05",
        change="a shared helper for the last-factor coefficient returns interaction_matrix[0,1] for both builders: the XY builder loses its factor 2 for exactly 2 atoms (the mechanism of round-1 seed C02 through a refactor)",
        needs="XY interaction with exactly 2 atoms",
        detected_by={"C05": "mpo_xy_n2_d2_noise: contract(MPO) = dense xy H (n=2, d=2)"},
    ),
    "C11d": dict(
        property="C11",
        change="MPS.__rmul__ always scales factor 0 while the result keeps the declared centre (the mechanism of seed C10b, produced for C11)",
        needs="a scale while the declared centre is a site > 0, followed by norm()/expect_batch",
        detected_by={"C11": "mps_scale_norm: only the centre factor is scaled"},
    ),
    "C13d": dict(
        property="C13",
        change="fill_results builds the padded state handed to observables from the raw state when a dark-atom mask is present (the mechanism of C25b/C17c, produced for C13)",
        needs="a dark-atom mask and a state norm different from 1",
        detected_by={"C13": "mps_fill_results_N3_d2_chi2: state handed to callbacks = (psi/norm) with dark atoms in |g>"},
    ),
    "C23d": dict(
        property="C23",
        change="the interaction cutoff compares the signed entry instead of its magnitude: every negative coupling is zeroed, even at cutoff 0",
        needs="an interaction matrix with negative entries (user matrix, XY dipolar terms)",
        detected_by={"C23": "cutoff_mask_n2_register: full[i,j]: below-cutoff entries are zero, the others unchanged"},
    ),
    "C25d": dict(
        property="C25",
        change="emu-sv's bad-atom wrapper multiplies the matrix by a column mask: only the rows of bad atoms are zeroed, their columns survive",
        needs="emu-sv, a bad atom with a larger index than a good one, and noise that can excite the bad atom",
        detected_by={"C25": "sv_bad_atoms_n2_steps1: emu-sv step 0: badly prepared atoms are not driven, detuned or interacting"},
    ),
    "C26d": dict(
        property="C26",
        change="__getstate__ drops omega/delta/phi from the snapshot and __setstate__ rebuilds them from pulser_data in REGISTER order (they are held in site order)",
        needs="an interrupted and resumed run with reordering on and atom-dependent drives",
        detected_by={"C26": "pickled_fields_roundtrip: restored solver: tensor attribute `omega`/`delta`/`phi` has the same values (added)"},
        strengthened="first detection was through two clauses that prescribed the implementation ('__getstate__ saves every instance attribute'), which a correct restore-by-recomputation would also trip, and then through an AttributeError of the harness (the dark-atom mask attribute was missing because init_dark_qubits had not run). The prescriptive clauses were removed; the case now compares every attribute of the restored solver with the running one (tensors entry-wise, with atom-dependent drives and reordering on) and runs init_dark_qubits as init() does",
    ),
    "C30d": dict(
        property="C30",
        change="the Lanczos loop of double_krylov tests `n2 < tolerance * n` instead of `n2 < tolerance`: when the operator annihilates the vector (n = 0) the exhausted Krylov space is missed and the next vector is 0/0",
        needs="a step with H|v> = 0 exactly for the state or the incoming gradient (a delay on |g..g>, a free wait with H = 0)",
        detected_by={"C30": "lanczos_annihilated_vector_n1 (added): Lanczos on an annihilated vector stops (it does not raise) / never divides by zero"},
        strengthened="MISSED at first: double_krylov was only ever a stub. Added a case that runs its real Lanczos loop on a vector the operator annihilates (no LAPACK kernel is reached on that input), with the divisor log",
    ),
    "C03d": dict(
        property="C03",
        change="check_permutable_observables whitelists 'fidelity': the reordering stays on although the Fidelity target state is given in register order and is never permuted",
        needs="a Fidelity observable, reordering on with an ordering that moves atoms, a target state not invariant under it",
        detected_by={"C03": "reordering_only_with_order_independent_observables (added): reordering stays on although an observable that cannot be un-permuted was requested", "C33": "reordering_vs_observables_upto2"},
        strengthened="C03 MISSED it at first (C33 caught it): the gate that keeps reordering off for order-dependent observables was only decided under C33; that case is now part of C03",
    ),
    "C10d": dict(
        property="C10",
        change="split_matrix caps the rank with min(m.shape) - max_rank instead of len(d) - max_rank: when the Gram matrix is the larger one, more than max_rank directions are kept",
        needs="a binding max_bond_dim and a wide reshaped factor (max_bond_dim < chi_l < dim*chi_r)",
        detected_by={"C10": "split: split(2x3): 1 <= kept <= min(k, max_rank)"},
    ),
    "C12d": dict(
        property="C12",
        change="DenseOperator.expect computed as apply_to(state).inner(state) = <A psi|psi>: the complex conjugate of <psi|A|psi>",
        needs="an expectation value with a non-zero imaginary part (non-Hermitian operator or complex coefficients)",
        detected_by={"C12": "oprepr_keys_n1_k2: DenseOperator.expect = <v|A|v>"},
    ),
    "C14d": dict(
        property="C14",
        change="emu-mps fill_results computes the fractional time from target_time instead of current_time: the t=0 call from init() is filed under the first target time",
        needs="an observable requesting time 0 and/or the first target time after 0, on emu-mps",
        detected_by={"C14": "mps_steps1_D20: emu-mps: A(own times) stored exactly once per requested time and at no other time"},
    ),
    "C15d": dict(
        property="C15",
        change="readout_with_error rewritten with reassignment of c and the 1->0 branch first: a '1' flipped to '0' falls into the 0->1 branch with the same random number and can flip back",
        needs="both p_false_pos and p_false_neg non-zero and a '1' bit",
        detected_by={"C15": "readout_unit: 0->1 iff r < p_false_pos, 1->0 iff r < p_false_neg, unchanged otherwise"},
    ),
    "C18d": dict(
        property="C18",
        change="after a jump whose time lies in the last ns of the step, sweep_complete calls timestep_complete at once: the step completes at an off-grid time",
        needs="a jump located less than 1 ns before a step end",
        detected_by={"C18": "step_search_inner: at most one event (step completion or jump) per sweep; a step completes only when no jump search is active"},
    ),
    "C22d": dict(
        property="C22",
        change="the 3x magnitude cap of _limit_endpoint compares the end slope with the INNER secant instead of the end-interval secant",
        needs="end secants of opposite sign with a magnitude ratio outside [1/3, 5/3] and a step midpoint in an end interval",
        detected_by={"C22": "extract_T3_K2_atoms1: delta[k,0] = PCHIP(det samples)(midpoint)", "C20": "shape_n3_uniform: slopes of interval 0 lie in the monotonicity region"},
    ),
    "C24d": dict(
        property="C24",
        change="the relaxation jump operator is written at [0, dim-1]: with the leakage level present it becomes |g><x| instead of |g><r|",
        needs="relaxation together with the leakage level (dim 3)",
        detected_by={"C24": "rate_channels_ising_d3: dissipator of the emulator's jump operators = Pulser's (relaxation, ising, d=3)"},
    ),
    "C19c": dict(
        property="C19",
        change="get_next_abscissa drops the `|dx| >= 3/4 |a-b|` half of the bisection fallback: an interpolated step is no longer bounded by the current bracket",
        needs="ordinates nearly flat over most of the interval and steep near the end (epsilon well below the ordinates)",
        detected_by={"C19": "step_epssym_beyond_b: next abscissa lies in the closed bracket"},
    ),
    "C22c": dict(
        property="C22",
        change="the amplitude clamp only covers rows whose step STARTS at or after the last sample, not those whose midpoint lies beyond it",
        needs="a step straddling the last sample (dt not dividing 1 ns) and an amplitude ramping to zero",
        detected_by={"C22": "extract_T3_K2_atoms1: omega[k,0] >= 0 (amplitude never negative)"},
    ),
    "C24c": dict(
        property="C24",
        change="_get_all_lindblad_noise_operators no longer forwards interact_type: XY effective-noise operators get the ising level flip",
        needs="XY interaction with an eff_noise operator that is not symmetric under swapping the two levels, collected through the adapter",
        detected_by={"C24": "all_channels_XY_d2: dissipator of the emulator's jump operators = Pulser's, in the emulator's level order"},
    ),
    "C25c": dict(
        property="C25",
        change="emu-sv's bad-atom wrapper masks the interaction matrix once, at t=0, instead of at every query time",
        needs="emu-sv, a bad atom, and an SLM mask ending before the sequence does",
        detected_by={"C25": "sv_bad_atoms_n2_steps2_slm (added): emu-sv step 1: badly prepared atoms are not driven, detuned or interacting"},
        strengthened="MISSED at first: the emu-sv bad-atom cases used a time-independent interaction matrix. Added a two-step case with a symbolic SLM end time and symbolic masked/full matrices",
    ),
    "C26c": dict(
        property="C26",
        change="MPSBackendImpl.__setstate__ overwrites results.atom_order with the register order, so permute_results un-permutes an order that was never permuted",
        needs="reordering on with a non-identity ordering; every snapshot position",
        detected_by={"C26": "pickled_fields_roundtrip: restored vs saved results: same atom order / restored results keep the solver's site order (reordering fork added)"},
        strengthened="MISSED at first: __getstate__/__setstate__ were only exercised with reordering off (site order = register order). The round-trip case now forks over reordering with a stubbed ordering (the swap)",
    ),
    "C22b": dict(
        property="C22",
        change="_limit_endpoint tests `d_end * s_l < 0` instead of comparing signs: a flat end secant no longer zeroes the end slope (the original defect D1 in another guise, both ends)",
        needs="first two or last two samples exactly equal while the neighbouring sample differs (2 ns delay at an end)",
        detected_by={"C22": "extract_T3_K2_atoms1: delta[0,0] = PCHIP(det samples)(midpoint)", "C20": "shape_n3_uniform: slopes of interval 0 lie in the monotonicity region"},
    ),
    "C29b": dict(
        property="C29",
        change="_extract_omega_delta_phi clamps the interpolated PHASE at 0 like the amplitude (`if name != 'det'`)",
        needs="a negative phase sample (hand-built samples, or an offset/negation applied at the sample level) and a time-varying phase",
        detected_by={"C29": "adapter_phase_equivariance_T3_K2 (added): phases of the offset sequence = phases + c", "C22": "extract_T3_K2_atoms1: phi[k,0] = PCHIP(phase samples)(midpoint)"},
        strengthened="C29 MISSED it at first (C22 caught it): C29 decided the equivalences on the Hamiltonians only. Added the adapter-level clause: the drives handed to both backends follow a phase offset / negation of the samples exactly, for phases of any sign",
    ),
    "C32b": dict(
        property="C32",
        change="minimize_bandwidth_impl applies and accumulates each round's permutation BEFORE the convergence test: the final, rejected round is folded into the returned permutation",
        needs="a final rejected round that is strictly worse than the current order (near-optimal input order)",
        detected_by={"C32": "impl_n1to2: the loop's matrix = original permuted by the returned permutation"},
    ),
    "C02b": dict(
        property="C02",
        change="timestep_complete rebuilds the Hamiltonian with make_H from the PREVIOUS interaction matrix (assignment moved after make_H)",
        needs="an SLM mask ending before the end of the sequence with a masked, interacting atom",
        detected_by={"C02": "drive_update_rydberg_n2_steps2_reorder_slm: MPO during step 1 = P H(step 1) P^dag"},
    ),
    "C03b": dict(
        property="C03",
        change="MPSBackendImpl.__init__ no longer permutes phi with the qubit ordering (omega and delta still are)",
        needs="reordering on with a non-identity ordering and atom-dependent phases",
        detected_by={"C03": "mpo_permuted_rydberg_n3: MPO during step 0 = P H(step 0) P^dag", "C02": "drive_update_*_reorder_slm", "C25": "mps_bad_atoms_n3_d2_reorder"},
    ),
    "C10b": dict(
        property="C10",
        change="MPS.__rmul__/__imul__ always multiply the scalar into factor 0 instead of the declared centre",
        needs="a scale while the declared centre is a site > 0, followed by norm()/expect_batch",
        detected_by={"C10": "sequence_n2_d2_2_len2: scaling leaves the factor of site j (not the declared centre) unchanged (added)", "C11": "mps_scale_norm: only the centre factor is scaled"},
        strengthened="C10 MISSED it at first (C11 caught it): orthonormality is outside C10's claim, but its preservation under scaling is not. The sequence case now checks that a scale leaves every non-centre factor unchanged (canary added)",
    ),
    "C11b": dict(
        property="C11",
        change="MPS.expect_batch leftward walk takes the QR of `.mH` instead of `.mT` and still contracts with the un-conjugated R",
        needs="centre >= 1, complex amplitudes, a bond of dimension >= 2 left of the centre",
        detected_by={"C11": "mps_expect_batch_entangled_left (added to C11): expect_batch[0] = <psi|O(0)|psi>", "C13": "mps_expect_batch_entangled_left"},
        strengthened="C11 MISSED it at first and C13 only answered 'inconclusive' (exit 2): the failing run of the REAL code was treated as a disagreement between the real torch and the shim (whose known-factorisation QR stub answers for the code as it should be). vcheck now treats a failing run of the real code on recorded concrete inputs as what it is - a replayed counterexample - and the chi=2 expect_batch cases are part of C11 as well",
    ),
    "C12b": dict(
        property="C12",
        change="DensityMatrix.overlap computed as einsum('ij,ji->', self, other): Tr(self other) instead of Tr(self^dagger other)",
        needs="a non-Hermitian `self` (e.g. H @ rho wrapped in a DensityMatrix)",
        detected_by={"C12": "state_algebra_n2_and_dm_overlap_n2: overlap = tr(R^dagger S) for arbitrary complex matrices"},
        strengthened="first answer was 'inconclusive' (exit 2): torch.einsum was not modelled by the shim. Explicit-subscript einsum is now modelled",
    ),
    "C13b": dict(
        property="C13",
        change="energy variance / second moment cache H@H as an attribute of the MPO, which update_H rewrites in place every step: stale H^2 from the second evaluation on",
        needs="two evaluations on the same MPO object with an in-place update_H between them",
        detected_by={"C13": "mps_energy_moments_sequence_n2_d2_chi1 (added): evaluation 1: energy second moment = <psi|H(t_1)^2|psi>"},
        strengthened="MISSED at first: MPS variance/second moment were outside (MPO@MPO compresses through QR/eigh). Added a two-evaluation sequence with zip_right replaced by the exact uncompressed product (declared stub)",
    ),
    "C23b": dict(
        property="C23",
        change="emu-mps _get_interaction_matrix queries the matrix at target_time instead of the step midpoint",
        needs="an SLM mask ending inside (t_1/2, t_1]: ignored for the whole first step",
        detected_by={"C23": "query_times_steps2: emu-mps: step matrix is masked while the step ends before the SLM end", "C02": "drive_update_rydberg_n2_steps2_reorder_slm: MPO during step 0"},
    ),
    "C05b": dict(
        property="C05",
        change="last_factor of both MPO builders tests `middle_site == 1` instead of `num_sites == 2`: for exactly 3 atoms the last factor multiplies the coupling channel by J01 again",
        needs="exactly N = 3 atoms with atom 2 interacting and J01 != 1 (0.5 for XY)",
        detected_by={"C05": "mpo_rydberg_n3_d2_noise: contract(MPO) = dense rydberg H (n=3, d=2)"},
    ),
    "C14b": dict(
        property="C14",
        change="_unique_observable_times uses the config default times only when NO observable defines its own times",
        needs="a configuration mixing an observable with own times and one relying on default_evaluation_times that are off the dt grid",
        detected_by={"C14": "requested_times_on_grid_evals2_mixed (added): evaluation time e1 is a grid time", "C21": "grid_evals2_idx1_mixed (added)"},
        strengthened="MISSED at first by both: the grid harness only ever had one observable. Added the mixed configuration (own + default) to C21's grid harness and made the grid cases part of C14 (the requested times being on the grid is half of C14's statement)",
    ),
    "C18b": dict(
        property="C18",
        change="NoisyMPSBackendImpl.sweep_complete brackets a new root search from the step start on the grid instead of the time the sweep started from",
        needs="two jumps inside one time step",
        detected_by={"C18": "step_idle_inner: the new search brackets [previous time, t_{k+1}] with the two gaps"},
    ),
    "C24b": dict(
        property="C24",
        change="eff_noise: zero rates are filtered out of the rate list only, then zipped with the unfiltered operator list",
        needs="eff_noise with >= 2 operators and a zero rate before a non-zero one",
        detected_by={"C24": "eff_noise_ising_d2_ops2: dissipator of the emulator's jump operators = Pulser's"},
        strengthened="first detection was through a clause that demanded more than the property (the NUMBER of jump operators: a zero-rate operator may legitimately be dropped). That clause was removed and a two-operator eff_noise case added to the quick tier, so the dissipator comparison fails instead",
    ),
    "C25b": dict(
        property="C25",
        change="fill_results normalises lazily, and the dark-atom branch builds the extended state from the live, un-normalised factors",
        needs="a bad atom and a state whose norm is not 1 (noisy effective evolution)",
        detected_by={"C25": "mps_fill_results_N3_d2_chi2 (added to C25): state handed to callbacks = (psi/norm) with dark atoms in |g>", "C13": "mps_fill_results_N3_d2_chi2"},
        strengthened="C25 MISSED it at first (C13 caught it): the fill_results cases are now part of C25 as well",
    ),
    "C25": dict(
        property="C25",
        change="bad-atom mask mapped to the sites with the inverse permutation",
        needs="emu-mps with reordering, a bad atom, a non-involutive ordering",
        detected_by={"C25": "mps_bad_atoms_n3_d2_reorder: mask in internal order / Hamiltonian of the well-prepared atoms"},
    ),
}


def main():
    rows = []
    for sid, m in sorted(SEEDS.items()):
        d = os.path.join(HERE, "seeded", sid)
        if not os.path.isdir(d):
            continue
        confirm = {}
        cp = os.path.join(d, "confirm.json")
        if os.path.exists(cp):
            confirm = json.load(open(cp))
        meta = {
            "seed_id": sid,
            "property_broken": m["property"],
            "change": m["change"],
            "needs_to_manifest": m["needs"],
            "confirmed": confirm,
            "what_was_run": RAN,
            "detected_by": m["detected_by"],
            "strengthening": m.get("strengthened", "none needed"),
            "origin": "fresh sub-agent given only the property text and its own scratch worktree of /repo",
        }
        json.dump(meta, open(os.path.join(d, "meta.json"), "w"), indent=1)
        rows.append(f"| {sid} | {m['change']} | {m['needs']} | {'; '.join(k + ': ' + v for k, v in m['detected_by'].items())} | {m.get('strengthened', '-')} |")
    print("| seed | change | needs | caught by | strengthening |")
    print("|---|---|---|---|---|")
    print("\n".join(rows))


if __name__ == "__main__":
    main()
