"""Mode-agnostic harness environment.

A harness is a function `fn(env)` written against `env.torch` (real torch or
symtorch) and the modules of /repo loaded for that torch.  The same function is
interpreted three ways:

  sym   symtorch, symbolic inputs  -> every `check*` is a z3 query per path
  shim  symtorch, concrete floats  -> differential validation of the shim
  real  real torch, concrete floats-> oracle sanity on random inputs and
                                      replay of solver counterexamples
"""

from __future__ import annotations

import math
import random
import time
from typing import Any, Callable

import numpy as np

from . import loader


class Skip(Exception):
    """Concrete valuation does not satisfy an assumption."""


class CheckFailed(Exception):
    pass


def _is_shim_tensor(x):
    return type(x).__module__.startswith("symex.symtorch")


class Env:
    def __init__(self, mode: str, *, values=None, choices=None, seed=0, mutant=None, ctx=None, tol=1e-8):
        assert mode in ("sym", "shim", "real")
        self.mode = mode
        self.torch = loader.load("real" if mode == "real" else "shim")
        if mode != "real":
            self.torch.SYM = mode == "sym"
            self.torch.STUBS.clear()
            self.torch.FORCE_NOT_CPU = False
            del self.torch.CALL_LOG[:]
        self.values: dict = dict(values or {})
        self.fixed_choices = list(choices) if choices is not None else None
        self.choice_pos = 0
        self.choices_made: list = []
        self.rng = random.Random(seed)
        self.active_mutant = mutant
        self.mutants_seen: set = set()
        self.ctx = ctx
        self.tol = tol
        self.records: list = []
        self.failures: list = []
        self.violations: list = []
        self.inconclusive: list = []
        self.n_checks = 0
        self.n_nontrivial = 0
        self.inputs: list[str] = []
        self.stop_on_violation = False
        self.max_violations = 3  # per path: a broken tree fails many clauses, each costing a model search
        self.assumptions: list[str] = []

    # -- modules of the repo -------------------------------------------------
    def mod(self, name: str):
        return loader.module(name)

    @property
    def symbolic(self):
        return self.mode == "sym"

    def mutant(self, name: str) -> bool:
        self.mutants_seen.add(name)
        return self.active_mutant == name

    # -- inputs --------------------------------------------------------------
    def real(self, name: str, lo=None, hi=None, nonzero=False, default_range=(-2.0, 2.0)):
        if name not in self.inputs:
            self.inputs.append(name)
        if self.mode == "sym":
            from .poly import Sc

            v = Sc.var(name)
            if lo is not None:
                self.ctx.assume(v >= lo, f"{name} >= {lo}")
            if hi is not None:
                self.ctx.assume(v <= hi, f"{name} <= {hi}")
            if nonzero:
                self.ctx.assume(v != 0, f"{name} != 0")
            return v
        if name in self.values:
            x = float(self.values[name])
        else:
            a = default_range[0] if lo is None else lo
            b = default_range[1] if hi is None else hi
            if lo is not None and hi is None:
                b = lo + 4.0
            if hi is not None and lo is None:
                a = hi - 4.0
            x = round(self.rng.uniform(a, b) * 64) / 64
            if lo is not None and x < lo:
                x = float(lo)
            if hi is not None and x > hi:
                x = float(hi)
            if nonzero and x == 0:
                x = 0.5 if (hi is None or hi >= 0.5) else float(hi)
            self.values[name] = x
        if (lo is not None and x < lo) or (hi is not None and x > hi) or (nonzero and x == 0):
            raise Skip(f"{name}={x} outside its declared range")
        return x

    def cplx(self, name: str):
        re = self.real(name + ".re")
        im = self.real(name + ".im")
        if self.mode == "sym":
            from .poly import Sc

            return Sc(re.re, im.re)
        return complex(re, im)

    def tensor_real(self, name: str, shape, dtype=None, **kw):
        T = self.torch
        dtype = dtype or T.float64
        n = int(np.prod(shape)) if len(shape) else 1
        idxs = list(np.ndindex(*shape)) if len(shape) else [()]
        flat = [self.real(name + "".join(f"_{i}" for i in ix), **kw) for ix in idxs]
        t = T.tensor(flat, dtype=dtype)
        return t.reshape(*shape) if len(shape) else t.reshape(())

    def tensor_cplx(self, name: str, shape, dtype=None):
        T = self.torch
        dtype = dtype or T.complex128
        idxs = list(np.ndindex(*shape)) if len(shape) else [()]
        flat = [self.cplx(name + "".join(f"_{i}" for i in ix)) for ix in idxs]
        t = T.tensor(flat, dtype=dtype)
        return t.reshape(*shape) if len(shape) else t.reshape(())

    def sym_matrix(self, name: str, n: int, dtype=None, zero_diag=True, **kw):
        T = self.torch
        dtype = dtype or T.float64
        rows = [[0.0] * n for _ in range(n)]
        for i in range(n):
            for j in range(i, n):
                if i == j and zero_diag:
                    continue
                v = self.real(f"{name}_{i}_{j}", **kw)
                rows[i][j] = v
                rows[j][i] = v
        return T.tensor(rows, dtype=dtype)

    def choice(self, name: str, options):
        options = list(options)
        if self.mode == "sym":
            v = self.ctx.choose(name, options)
        elif self.fixed_choices is not None:
            if self.choice_pos >= len(self.fixed_choices):
                raise Skip("recorded choices exhausted")
            _, idx = self.fixed_choices[self.choice_pos]
            self.choice_pos += 1
            v = options[idx]
        else:
            v = self.rng.choice(options)
        self.choices_made.append((name, options.index(v)))
        return v

    def boolean(self, name: str) -> bool:
        return self.choice(name, [False, True])

    # -- assumptions -----------------------------------------------------------
    def assume(self, cond, text: str = ""):
        if text and text not in self.assumptions:
            self.assumptions.append(text)
        if self.mode == "sym":
            self.ctx.assume(cond, text)
        else:
            if not bool(cond):
                raise Skip(text or "assumption false")

    # -- numeric views -----------------------------------------------------------
    def to_numpy(self, x) -> np.ndarray:
        if self.mode == "real" and hasattr(x, "detach"):
            if getattr(x, "is_sparse", False) or "sparse" in str(getattr(x, "layout", "")):
                x = x.to_dense()
            return np.asarray(x.detach().cpu().resolve_conj().numpy(), dtype=complex)
        if _is_shim_tensor(x):
            if hasattr(x, "to_dense") and not hasattr(x, "a"):
                x = x.to_dense()
            if x.dtype.kind in "ib" and x.a.dtype != object:
                return x.a.astype(complex)
            flat = [complex(v) if not isinstance(v, (bool, np.bool_)) else complex(bool(v)) for v in x.a.reshape(-1)]
            return np.array(flat, dtype=complex).reshape(x.a.shape)
        if isinstance(x, (list, tuple)):
            return np.array([self.to_numpy(v) for v in x], dtype=complex)
        return np.asarray(complex(x), dtype=complex)

    # -- checks ------------------------------------------------------------------
    def _elements(self, x):
        """flat list of symbolic elements + shape (sym mode)."""
        from .poly import Sc

        if _is_shim_tensor(x):
            if not hasattr(x, "a"):
                x = x.to_dense()
            if x.a.dtype != object:
                return [Sc.const(v.item()) for v in x.a.reshape(-1)], x.a.shape
            return [v if isinstance(v, Sc) else Sc.const(v) for v in x.a.reshape(-1)], x.a.shape
        if isinstance(x, (list, tuple)):
            out = []
            for v in x:
                e, _ = self._elements(v)
                out.extend(e)
            return out, (len(out),)
        return [x if isinstance(x, Sc) else Sc.const(x)], ()

    def check_eq(self, a, b, label: str):
        self.n_checks += 1
        if self.mode != "sym":
            an, bn = self.to_numpy(a), self.to_numpy(b)
            self.records.append((label, an.tolist() if False else an, bn))
            if an.shape != bn.shape:
                try:
                    np.broadcast_shapes(an.shape, bn.shape)
                except ValueError:
                    self.failures.append(f"{label}: shape {an.shape} vs {bn.shape}")
                    return False
            scale = max(1.0, float(np.max(np.abs(bn))) if bn.size else 1.0)
            ok = bool(np.all(np.abs(an - bn) <= self.tol * scale))
            if not ok:
                self.failures.append(
                    f"{label}: max |diff| = {float(np.max(np.abs(an - bn))):.3e} (scale {scale:.3e})"
                )
            return ok
        import z3

        ea, sa = self._elements(a)
        eb, sb = self._elements(b)
        if sa != sb:
            if len(ea) == len(eb) or len(eb) == 1 or len(ea) == 1:
                if len(eb) == 1:
                    eb = eb * len(ea)
                if len(ea) == 1:
                    ea = ea * len(eb)
            else:
                return self._violation(label, None, f"shape mismatch {sa} vs {sb}", kind="shape")
        diffs = []
        residual = []
        for x, y in zip(ea, eb):
            d = x - y
            if d.re.t:
                diffs.append(d.re.z3() != 0)
                residual.append(d.re)
            if d.im.t:
                diffs.append(d.im.z3() != 0)
                residual.append(d.im)
        if diffs:
            self.n_nontrivial += 1
        neg = z3.Or(*diffs) if diffs else z3.BoolVal(False)
        return self._discharge(neg, label, residual)

    def check(self, cond, label: str):
        self.n_checks += 1
        if self.mode != "sym":
            ok = bool(cond)
            self.records.append((label, np.asarray(complex(ok)), np.asarray(1 + 0j)))
            if not ok:
                self.failures.append(f"{label}: condition false")
            return ok
        import z3
        from .poly import SymBool

        if isinstance(cond, SymBool):
            self.n_nontrivial += 1
            neg = z3.Not(cond.e)
        elif _is_shim_tensor(cond):
            c = cond.all().item()
            return self.check(c, label)
        else:
            neg = z3.BoolVal(not bool(cond))
        return self._discharge(neg, label, [])

    def _discharge(self, neg, label: str, residual):
        import z3

        ctx = self.ctx
        r, m = ctx.check_sat([neg])
        ctx.stats.vcs += 1
        if r == "unsat":
            return True
        if r == "unknown":
            self.inconclusive.append(f"{label}: solver returned unknown ({m})")
            return False
        # sat: prefer a well-conditioned model for replay
        from .poly import Poly, z3_var, var_id

        bounds = []
        for n in self.inputs:
            v = z3_var(var_id(n))
            bounds.append(v >= -8)
            bounds.append(v <= 8)
        big = []
        for p in residual[:64]:
            big.append(z3.Or(p.z3() > z3.RealVal("1/64"), p.z3() < -z3.RealVal("1/64")))
        # "soft" facts (e.g. integrality that was dropped from the proof obligations as a sound
        # over-approximation) are only used here, to steer z3 to a model that can be replayed
        soft = list(getattr(ctx, "soft", []))
        attempts = []
        if soft:
            attempts.append(soft)
        attempts.append(([*bounds, z3.Or(*big)] if big else None))
        attempts.append(bounds)
        for extra in attempts:
            if extra is None:
                continue
            r2, m2 = ctx.check_sat([neg, *extra], timeout_ms=min(ctx.timeout_ms, 15000))
            if r2 == "sat":
                m = m2
                break
        vals = ctx.model_values(m)
        return self._violation(label, vals, "", kind="vc")

    def _violation(self, label, vals, detail, kind="vc"):
        from .core import Violation

        vals = vals or {}
        v = Violation(
            label,
            {k: vals[k] for k in vals if not k.startswith("@")},
            [list(c) for c in self.choices_made],
            detail,
            kind,
        )
        v.all_values = vals
        self.violations.append(v)
        if self.stop_on_violation or len(self.violations) >= self.max_violations:
            raise CheckFailed(label)
        return False

    # comparisons: exact in symbolic mode, with a rounding slack on floats
    def le(self, a, b):
        if self.mode == "sym":
            return a <= b
        return a <= b + 1e-9 * (1 + abs(a) + abs(b))

    def ge(self, a, b):
        return self.le(b, a)

    def eqv(self, a, b):
        if self.mode == "sym":
            return a == b
        return abs(a - b) <= 1e-9 * (1 + abs(a) + abs(b))

    def check_raises(self, fn: Callable, exc, label: str):
        """`fn()` must raise one of `exc` (on every path / for these values)."""
        try:
            fn()
        except exc:
            return self.check(True, label)
        except (Skip, CheckFailed):
            raise
        return self.check(False, label + " (no exception raised)")

    def fail(self, label: str, detail: str = ""):
        """Unconditional violation on this path (model = any model of the PC)."""
        self.n_checks += 1
        if self.mode != "sym":
            self.failures.append(f"{label}: {detail}")
            return False
        import z3

        return self._discharge(z3.BoolVal(True), label + (f" [{detail}]" if detail else ""), [])


# -- boolean connectives that work for Python bools and SymBool alike -------
def b_not(a):
    from .poly import SymBool

    return ~a if isinstance(a, SymBool) else (not bool(a))


def b_and(*xs):
    from .poly import sym_and

    return sym_and(*xs)


def b_or(*xs):
    from .poly import sym_or

    return sym_or(*xs)


def b_implies(a, b):
    return b_or(b_not(a), b)


def scalar(x):
    """0-d tensor / number -> scalar usable in comparisons in every mode."""
    if hasattr(x, "item") and not isinstance(x, (int, float, complex)):
        x = x.item()
    return x
