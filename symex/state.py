"""Global execution context pointer shared by the scalar layer, the torch shim
and the explorer.  `CTX` is None outside an exploration (plain concrete use)."""

CTX = None  # set by symex.core.Explorer while a path is being executed


def ctx():
    if CTX is None:
        raise RuntimeError("no symbolic execution context is active")
    return CTX
