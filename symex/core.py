"""Path exploration by deterministic re-execution with a decision trail
(DART / CrossHair scheme), path conditions, axioms, and z3 queries.

One `Explorer.run(fn)` executes `fn(env)` once per feasible path.  Every
`bool()` of a `SymBool` asks z3 which outcomes are feasible under the current
path condition and forks.  Verification conditions are discharged by z3 as
`axioms AND PC AND not(property)`; `unsat` = holds on this path for every value
of the symbolic inputs.
"""

from __future__ import annotations

import time
import traceback
from typing import Any, Callable

import z3

from . import state
from . import poly as P
from .poly import Poly, Sc, SymBool


class Inconclusive(Exception):
    """The run cannot be decided (unknown from the solver, bound hit, stub
    missing).  Never a pass, never a violation."""


class PathInfeasible(BaseException):
    """Raised to abandon a path whose assumptions are unsatisfiable."""


class BoundHit(Inconclusive):
    pass


DEFAULT_TIMEOUT_MS = 20000


class Stats:
    def __init__(self):
        self.queries = 0
        self.sat = 0
        self.unsat = 0
        self.unknown = 0
        self.solver_s = 0.0
        self.vcs = 0
        self.vcs_nontrivial = 0
        self.paths = 0
        self.forks = 0

    def as_dict(self):
        return dict(self.__dict__)

    def merge(self, o: "Stats"):
        for k, v in o.__dict__.items():
            setattr(self, k, getattr(self, k) + v)


def solve(assertions: list, timeout_ms: int, stats: Stats | None = None):
    """One non-incremental z3 query (lets z3 pick nlsat for QF_NRA)."""
    s = z3.Solver()
    s.set("timeout", timeout_ms)
    for a in assertions:
        s.add(a)
    t0 = time.time()
    r = s.check()
    dt = time.time() - t0
    if stats is not None:
        stats.queries += 1
        stats.solver_s += dt
    rs = str(r)
    if rs == "sat":
        if stats is not None:
            stats.sat += 1
        return "sat", s.model()
    if rs == "unsat":
        if stats is not None:
            stats.unsat += 1
        return "unsat", None
    if stats is not None:
        stats.unknown += 1
    return "unknown", s.reason_unknown()


class Violation:
    def __init__(self, label, model_values, choices, detail="", kind="vc"):
        self.label = label
        self.values = model_values  # var name -> float
        self.choices = choices  # list of (name, value)
        self.detail = detail
        self.kind = kind

    def as_dict(self):
        return {
            "label": self.label,
            "values": self.values,
            "choices": self.choices,
            "detail": self.detail,
            "kind": self.kind,
        }


class Ctx:
    """State of one path."""

    def __init__(self, explorer: "Explorer", trail: list):
        self.ex = explorer
        self.trail = list(trail)
        self.pos = 0
        self.pc: list = []
        self.pc_text: list[str] = []
        self.axioms: list = []
        self.axiom_text: list[str] = []
        self.atom_cache: dict = {}
        self.keepalive: list = []
        self.decided: dict = {}
        self.fresh = 0
        self.choices: list = []
        self.inputs: list[str] = []
        self.soft_bounds: list = []
        self.soft: list = []  # facts used only when looking for a replayable counterexample model
        self.notes: list = []
        self.features: set = set()
        self.stats = explorer.stats
        self.timeout_ms = explorer.timeout_ms
        P.SQ_RULES.clear()

    # naming -----------------------------------------------------------------
    def fresh_name(self, prefix: str) -> str:
        self.fresh += 1
        return f"@{prefix}{self.fresh}"

    # axioms -----------------------------------------------------------------
    def add_axiom(self, e, text: str = ""):
        self.axioms.append(e)
        self.axiom_text.append(text)

    def note_division(self, den):
        self.features.add("division")

    def note_sqrt(self, x):
        self.features.add("sqrt")

    def note_trig(self, n):
        self.features.add("trig")

    # assumptions --------------------------------------------------------------
    def assume(self, cond, text: str = ""):
        if isinstance(cond, SymBool):
            e = cond.e
        elif isinstance(cond, z3.ExprRef):
            e = cond
        else:
            if not cond:
                raise PathInfeasible()
            return
        self.pc.append(e)
        self.pc_text.append(text or str(e))

    def assumptions_feasible(self) -> bool:
        r, _ = solve(self.axioms + self.pc, self.timeout_ms, self.stats)
        return r != "unsat"

    # decisions ----------------------------------------------------------------
    def _take(self, e, val: bool):
        self.pc.append(e if val else z3.Not(e))
        self.pc_text.append(("" if val else "not ") + str(e)[:200])

    def decide(self, e) -> bool:
        e = z3.simplify(e)
        if z3.is_true(e):
            return True
        if z3.is_false(e):
            return False
        k = e.get_id()
        hit = self.decided.get(k)
        if hit is not None:
            return hit[0]
        if self.pos < len(self.trail):
            val = self.trail[self.pos]
        else:
            rt, _ = solve(self.axioms + self.pc + [e], self.timeout_ms, self.stats)
            rf, _ = solve(
                self.axioms + self.pc + [z3.Not(e)], self.timeout_ms, self.stats
            )
            can_t = rt != "unsat"
            can_f = rf != "unsat"
            if can_t and can_f:
                val = True
                self.ex.frontier.append(self.trail[: self.pos] + [False])
                self.stats.forks += 1
            elif can_t:
                val = True
            elif can_f:
                val = False
            else:
                raise PathInfeasible()
            self.trail.append(val)
        self.pos += 1
        if self.pos > self.ex.max_decisions:
            raise BoundHit(f"more than {self.ex.max_decisions} decisions on one path")
        self._take(e, val)
        self.decided[k] = (val, e)
        return val

    def choose(self, name: str, options: list):
        """Finite nondeterministic choice, enumerated through the trail."""
        n = len(options)
        if n == 0:
            raise PathInfeasible()
        idx = 0
        # unary encoding: "is it option idx?" yes/no
        while idx < n - 1:
            if self.pos < len(self.trail):
                val = self.trail[self.pos]
            else:
                val = True
                self.ex.frontier.append(self.trail[: self.pos] + [False])
                self.trail.append(val)
            self.pos += 1
            if val:
                break
            idx += 1
        self.choices.append((name, idx if not _jsonable(options[idx]) else options[idx]))
        return options[idx]

    # queries ------------------------------------------------------------------
    def check_sat(self, extra: list, timeout_ms: int | None = None):
        return solve(
            self.axioms + self.pc + list(extra), timeout_ms or self.timeout_ms, self.stats
        )

    def model_values(self, model) -> dict:
        vals = {}
        for d in model.decls():
            n = d.name()
            v = model[d]
            try:
                vals[n] = _z3_to_float(v)
            except Exception:
                continue
        return vals


def _jsonable(x):
    return isinstance(x, (int, float, str, bool, type(None)))


def _z3_to_float(v) -> float:
    if z3.is_rational_value(v):
        return float(v.numerator_as_long()) / float(v.denominator_as_long())
    if z3.is_algebraic_value(v):
        a = v.approx(20)
        return float(a.numerator_as_long()) / float(a.denominator_as_long())
    if z3.is_true(v):
        return 1.0
    if z3.is_false(v):
        return 0.0
    if z3.is_int_value(v):
        return float(v.as_long())
    raise TypeError(str(v))


class Explorer:
    def __init__(
        self,
        *,
        timeout_ms: int = DEFAULT_TIMEOUT_MS,
        max_paths: int = 20000,
        max_decisions: int = 4000,
        deadline_s: float | None = None,
    ):
        self.timeout_ms = timeout_ms
        self.max_paths = max_paths
        self.max_decisions = max_decisions
        self.frontier: list[list] = []
        self.stats = Stats()
        self.violations: list[Violation] = []
        self.inconclusive: list[str] = []
        self.path_samples: list = []
        self.deadline = (time.time() + deadline_s) if deadline_s else None
        self.complete = False

    def run(self, fn: Callable[[Ctx], Any]):
        self.frontier = [[]]
        while self.frontier:
            if self.stats.paths >= self.max_paths:
                self.inconclusive.append(f"path bound {self.max_paths} hit")
                return
            if self.deadline and time.time() > self.deadline:
                self.inconclusive.append("time budget exhausted before all paths")
                return
            trail = self.frontier.pop()
            ctx = Ctx(self, trail)
            state.CTX = ctx
            try:
                fn(ctx)
            except PathInfeasible:
                pass
            except Inconclusive as e:
                self.inconclusive.append(f"{type(e).__name__}: {e}")
            finally:
                state.CTX = None
            self.stats.paths += 1
            if len(self.path_samples) < 4:
                self.path_samples.append(
                    {
                        "decisions": len(ctx.trail),
                        "choices": [list(c) for c in ctx.choices][:12],
                        "pc": ctx.pc_text[:8],
                        "axioms": ctx.axiom_text[:6],
                    }
                )
        self.complete = not self.inconclusive
