"""Worker process: executes one job (concrete runs, symbolic exploration, replay)
for the cases of one property.  Usage: python -m symex.worker job.json out.json"""

from __future__ import annotations

import importlib
import json
import os
import sys
import time
import traceback

import numpy as np


def _load_cases(prop: str, tier: str):
    mod = importlib.import_module(f"harness.{prop.lower()}")
    return mod, {c.name: c for c in mod.cases(tier)}


def _arr(a):
    a = np.asarray(a, dtype=complex)
    return {"shape": list(a.shape), "re": a.real.reshape(-1).tolist(), "im": a.imag.reshape(-1).tolist()}


def _unarr(d):
    return (np.array(d["re"]) + 1j * np.array(d["im"])).reshape(d["shape"])


def run_conc(case, mode, seed, values=None, choices=None, tries=8):
    """One concrete run.  Returns dict(values, choices, records, failures, error)."""
    from .env import Env, Skip

    last = None
    for k in range(tries if values is None else 1):
        env = Env(mode, values=values, choices=choices, seed=seed * 1000 + k, tol=case.tol)
        try:
            case.fn(env)
        except Skip as e:
            last = f"skip: {e}"
            continue
        except Exception as e:  # noqa: BLE001
            return {
                "values": env.values,
                "choices": env.choices_made,
                "records": [(l, _arr(a), _arr(b)) for l, a, b in env.records],
                "failures": env.failures,
                "error": f"{type(e).__name__}: {e}",
                "trace": traceback.format_exc()[-2000:],
            }
        return {
            "values": env.values,
            "choices": env.choices_made,
            "records": [(l, _arr(a), _arr(b)) for l, a, b in env.records],
            "failures": env.failures,
            "error": None,
        }
    return {"values": {}, "choices": [], "records": [], "failures": [], "error": last or "skip"}


def compare_records(real, shim, tol=1e-7):
    """Differential check of the shim: same harness, same inputs."""
    problems = []
    if real.get("error") or shim.get("error"):
        if (real.get("error") or "").split(":")[0] != (shim.get("error") or "").split(":")[0]:
            problems.append(f"error mismatch real={real.get('error')} shim={shim.get('error')}")
        return problems
    if len(real["records"]) != len(shim["records"]):
        problems.append(f"record count {len(real['records'])} vs {len(shim['records'])}")
        return problems
    for (l1, a1, b1), (l2, a2, b2) in zip(real["records"], shim["records"]):
        if l1 != l2:
            problems.append(f"label {l1} vs {l2}")
            continue
        for which, x, y in (("lhs", a1, a2), ("rhs", b1, b2)):
            x, y = _unarr(x), _unarr(y)
            if x.shape != y.shape:
                problems.append(f"{l1}/{which}: shape {x.shape} vs {y.shape}")
                continue
            scale = max(1.0, float(np.max(np.abs(x))) if x.size else 1.0)
            if x.size and float(np.max(np.abs(x - y))) > tol * scale:
                problems.append(f"{l1}/{which}: real torch and shim differ by {float(np.max(np.abs(x - y))):.3e}")
    return problems


def run_sym(case, mutant=None, stop_first=False):
    from .core import Explorer, Inconclusive
    from .env import Env, CheckFailed

    ex = Explorer(
        timeout_ms=case.timeout_ms,
        max_paths=case.max_paths,
        deadline_s=case.deadline_s,
    )
    agg = {
        "violations": [],
        "inconclusive": [],
        "checks": 0,
        "nontrivial": 0,
        "inputs": set(),
        "assumptions": set(),
        "mutants_seen": set(),
        "features": set(),
        "crashes": [],
    }

    def one_path(ctx):
        env = Env("sym", ctx=ctx, mutant=mutant, tol=case.tol)
        env.stop_on_violation = stop_first
        try:
            case.fn(env)
        except CheckFailed:
            pass
        except Inconclusive:
            raise
        except (AssertionError, ArithmeticError, ValueError, TypeError, RuntimeError,
                IndexError, KeyError, AttributeError, NotImplementedError, RecursionError) as e:
            # an exception escaping the harness on a feasible path is a finding
            # candidate (replayed on the real code before anything is reported)
            tb = traceback.format_exc()[-1500:]
            r, m = ctx.check_sat([])
            if r == "unsat":
                # the path was only entered because a feasibility query timed out (unknown is
                # treated as "maybe feasible"); its condition is in fact unsatisfiable
                return
            if r != "sat":
                agg["inconclusive"].append(f"exception {type(e).__name__} on a path whose feasibility z3 could not decide ({m})")
                return
            vals = ctx.model_values(m)
            from .core import Violation

            v = Violation(
                f"exception:{type(e).__name__}",
                {k: x for k, x in vals.items() if not k.startswith("@")},
                [list(c) for c in env.choices_made],
                f"{e}\n{tb}",
                "exception",
            )
            env.violations.append(v)
        finally:
            agg["violations"].extend(v.as_dict() for v in env.violations)
            agg["inconclusive"].extend(env.inconclusive)
            agg["checks"] += env.n_checks
            agg["nontrivial"] += env.n_nontrivial
            agg["inputs"].update(env.inputs)
            agg["assumptions"].update(env.assumptions)
            agg["mutants_seen"].update(env.mutants_seen)
            agg["features"].update(ctx.features)
        if (stop_first and agg["violations"]) or len(agg["violations"]) >= 8:
            # enough counterexample candidates for this case (each is replayed on the real code)
            ex.frontier.clear()

    t0 = time.time()
    ex.run(one_path)
    out = {
        "stats": ex.stats.as_dict(),
        "complete": ex.complete and not agg["inconclusive"],
        "inconclusive": ex.inconclusive + agg["inconclusive"],
        "violations": agg["violations"],
        "checks": agg["checks"],
        "nontrivial": agg["nontrivial"],
        "inputs": sorted(agg["inputs"]),
        "assumptions": sorted(agg["assumptions"]),
        "mutants_seen": sorted(agg["mutants_seen"]),
        "features": sorted(agg["features"]),
        "path_samples": ex.path_samples,
        "wall_s": time.time() - t0,
    }
    return out


def main():
    job = json.load(open(sys.argv[1]))
    out_path = sys.argv[2]
    sys.path.insert(0, os.path.dirname(os.path.dirname(os.path.abspath(__file__))))
    sys.setrecursionlimit(10000)
    mod, cases = _load_cases(job["prop"], job["tier"])
    res: dict = {"op": job["op"]}
    try:
        if job["op"] == "real_samples":
            res["runs"] = {}
            for name in job["cases"]:
                c = cases[name]
                if "real" not in c.modes:
                    continue
                res["runs"][name] = [
                    run_conc(c, "real", job["seed"] + i) for i in range(c.conc_samples)
                ]
        elif job["op"] == "case":
            c = cases[job["case"]]
            res["case"] = c.name
            res["shim_problems"] = []
            res["shim_runs"] = 0
            if "shim" in c.modes:
                for rr in job.get("real_runs", []):
                    if rr.get("error") and rr["error"].startswith("skip"):
                        continue
                    sr = run_conc(c, "shim", 0, values=rr["values"], choices=rr["choices"])
                    res["shim_runs"] += 1
                    # a check failing under the shim is a shim problem only if the
                    # same check passed on the real torch with the same inputs
                    real_failed = {f.split(": ")[0] for f in rr.get("failures", [])}
                    # ... and operands of a check that FAILED on the real torch may differ from the shim's
                    # (a stub the shim uses, e.g. the known-factorisation QR, answers for the code as it
                    # should be): that is the code's failure, reported through the real run, not a shim problem
                    res["shim_problems"].extend(
                        pr for pr in compare_records(rr, sr) if not any(pr.startswith(lab + "/") for lab in real_failed)
                    )
                    for f in sr["failures"]:
                        if f.split(": ")[0] not in real_failed:
                            res["shim_problems"].append("shim-concrete check failed (but passed on the real torch): " + f)
            res["sym"] = run_sym(c) if "sym" in c.modes else None
            res["canaries"] = {}
            for mname in c.canaries:
                r = run_sym(c, mutant=mname, stop_first=True)
                res["canaries"][mname] = {
                    "caught": bool(r["violations"]),
                    "seen": mname in r["mutants_seen"],
                    "wall_s": r["wall_s"],
                    "queries": r["stats"]["queries"],
                }
        elif job["op"] == "replay":
            c = cases[job["case"]]
            res["run"] = run_conc(c, "real", 0, values=job["values"], choices=job["choices"])
        else:
            raise ValueError(job["op"])
    except BaseException as e:  # noqa: BLE001
        res["fatal"] = f"{type(e).__name__}: {e}\n{traceback.format_exc()[-3000:]}"
    with open(out_path, "w") as f:
        json.dump(res, f)


if __name__ == "__main__":
    main()
