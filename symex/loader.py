"""Load pasqal-io/emulators from /repo's current working tree, either against the
real torch ("real" mode) or with `import torch` resolving to symtorch."""

from __future__ import annotations

import hashlib
import importlib
import os
import sys
import logging

REPO = os.environ.get("VERIF_REPO", "/repo")
_LOADED_MODE = None


def repo_file_hash(rel: str) -> str:
    with open(os.path.join(REPO, rel), "rb") as f:
        return hashlib.sha256(f.read()).hexdigest()[:16]


def load(mode: str):
    """mode: 'real' (real torch) or 'shim' (symtorch).  One mode per process."""
    global _LOADED_MODE
    if _LOADED_MODE is not None:
        if _LOADED_MODE != mode:
            raise RuntimeError(f"repo already loaded in mode {_LOADED_MODE}")
        return sys.modules["torch"]
    logging.disable(logging.WARNING)
    # pulser needs the real torch at import time
    import torch as real_torch  # noqa: F401
    import pulser  # noqa: F401
    import pulser.backend  # noqa: F401
    import pulser._hamiltonian_data  # noqa: F401
    import pulser.backend.default_observables  # noqa: F401

    if mode == "shim":
        from . import symtorch

        for k in [k for k in sys.modules if k == "torch" or k.startswith("torch.")]:
            sys.modules.pop(k)
        sys.modules["torch"] = symtorch
        sys.modules["torch.linalg"] = symtorch.linalg
        sys.modules["torch.cuda"] = symtorch.cuda
        sys.modules["torch.autograd"] = symtorch.autograd
        sys.modules["torch.special"] = symtorch.special
        symtorch.real_torch = real_torch
    elif mode != "real":
        raise ValueError(mode)
    for k in [k for k in sys.modules if k.split(".")[0] in ("emu_base", "emu_mps", "emu_sv")]:
        sys.modules.pop(k)
    if REPO not in sys.path:
        sys.path.insert(0, REPO)
    for m in ("emu_base", "emu_mps", "emu_sv"):
        mod = importlib.import_module(m)
        assert os.path.realpath(mod.__file__).startswith(os.path.realpath(REPO)), mod.__file__
    _LOADED_MODE = mode
    return sys.modules["torch"]


def module(name: str):
    return importlib.import_module(name)
