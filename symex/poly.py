"""Symbolic scalars: polynomials over Q in named real variables, complex pairs of
those (`Sc`), and symbolic booleans (`SymBool`) wrapping z3 terms.

Non-polynomial operations (division by a non-constant, sqrt, abs, cos, sin,
if-then-else) introduce a fresh *atom* (a new real variable) together with a
defining axiom that is added to the current path; all verification conditions
are discharged by z3 over `axioms AND path-condition`.

Polynomials are kept in a canonical sparse form (dict monomial -> Fraction) so
that z3 receives small normalised terms; a few quotient rules `a^2 -> p`
(sqrt atoms, sin^2 -> 1-cos^2, |x|^2 -> x^2) are applied during multiplication.
"""

from __future__ import annotations

import math
from fractions import Fraction
from typing import Any

import z3

from . import state

# --------------------------------------------------------------------------
# variable registry
# --------------------------------------------------------------------------
_VAR_NAMES: list[str] = []
_VAR_IDS: dict[str, int] = {}
_Z3_VARS: dict[int, Any] = {}
SQ_RULES: dict[int, "Poly"] = {}  # var id -> polynomial its square rewrites to


def var_id(name: str) -> int:
    i = _VAR_IDS.get(name)
    if i is None:
        i = len(_VAR_NAMES)
        _VAR_IDS[name] = i
        _VAR_NAMES.append(name)
    return i


def var_name(i: int) -> str:
    return _VAR_NAMES[i]


def z3_var(i: int):
    v = _Z3_VARS.get(i)
    if v is None:
        v = z3.Real(_VAR_NAMES[i])
        _Z3_VARS[i] = v
    return v


def to_fraction(x) -> Fraction:
    """Exact rational denoted by a Python number.  A float is read as the
    shortest decimal that round-trips (0.001 -> 1/1000): the program is
    interpreted over the reals with its literals meaning what they say."""
    if isinstance(x, Fraction):
        return x
    if isinstance(x, bool):
        return Fraction(int(x))
    if isinstance(x, int):
        return Fraction(x)
    if isinstance(x, float):
        if x != x:
            raise ValueError(f"non-finite float {x!r} has no exact real value")
        if x in (math.inf, -math.inf):
            # +-inf only occurs as an "unset" sentinel in comparisons (best residual so far,
            # autosave disabled): read it as +-10^300; harnesses bound their inputs well below
            return Fraction(10**300) if x > 0 else Fraction(-(10**300))
        if x == int(x) and abs(x) < 1e15:
            return Fraction(int(x))
        return Fraction(repr(x))
    try:
        import numpy as np

        if isinstance(x, np.integer):
            return Fraction(int(x))
        if isinstance(x, np.floating):
            return to_fraction(float(x))
        if isinstance(x, np.bool_):
            return Fraction(int(x))
    except ImportError:  # pragma: no cover
        pass
    raise TypeError(f"cannot convert {type(x).__name__} to an exact rational")


# --------------------------------------------------------------------------
# Poly
# --------------------------------------------------------------------------
_ONE = Fraction(1)
_ZERO = Fraction(0)


def _mono_mul(a: tuple, b: tuple) -> tuple:
    if not a:
        return b
    if not b:
        return a
    d = dict(a)
    for v, p in b:
        d[v] = d.get(v, 0) + p
    return tuple(sorted(d.items()))


class Poly:
    __slots__ = ("t", "_z3", "_key")

    def __init__(self, t: dict | None = None):
        self.t = t if t is not None else {}
        self._z3 = None
        self._key = None

    # constructors -------------------------------------------------------
    @staticmethod
    def const(c) -> "Poly":
        c = to_fraction(c)
        return Poly({(): c}) if c else Poly()

    @staticmethod
    def var(name: str) -> "Poly":
        return Poly({((var_id(name), 1),): _ONE})

    # queries ------------------------------------------------------------
    def is_zero(self) -> bool:
        return not self.t

    def is_const(self) -> bool:
        return not self.t or (len(self.t) == 1 and () in self.t)

    def const_value(self) -> Fraction:
        return self.t.get((), _ZERO)

    def key(self):
        if self._key is None:
            self._key = tuple(sorted(self.t.items()))
        return self._key

    def variables(self) -> set[int]:
        return {v for m in self.t for v, _ in m}

    def degree(self) -> int:
        return max((sum(p for _, p in m) for m in self.t), default=0)

    # arithmetic ---------------------------------------------------------
    def __add__(self, o: "Poly") -> "Poly":
        if not o.t:
            return self
        if not self.t:
            return o
        t = dict(self.t)
        for m, c in o.t.items():
            n = t.get(m)
            if n is None:
                t[m] = c
            else:
                n = n + c
                if n:
                    t[m] = n
                else:
                    del t[m]
        return Poly(t)

    def __neg__(self) -> "Poly":
        return Poly({m: -c for m, c in self.t.items()})

    def __sub__(self, o: "Poly") -> "Poly":
        if not o.t:
            return self
        t = dict(self.t)
        for m, c in o.t.items():
            n = t.get(m)
            if n is None:
                t[m] = -c
            else:
                n = n - c
                if n:
                    t[m] = n
                else:
                    del t[m]
        return Poly(t)

    def scale(self, c: Fraction) -> "Poly":
        if not c:
            return Poly()
        if c == 1:
            return self
        return Poly({m: k * c for m, k in self.t.items()})

    def __mul__(self, o: "Poly") -> "Poly":
        if not self.t or not o.t:
            return Poly()
        if len(o.t) == 1 and () in o.t:
            return self.scale(o.t[()])
        if len(self.t) == 1 and () in self.t:
            return o.scale(self.t[()])
        t: dict = {}
        need_reduce = False
        for m1, c1 in self.t.items():
            for m2, c2 in o.t.items():
                m = _mono_mul(m1, m2)
                c = c1 * c2
                n = t.get(m)
                if n is None:
                    t[m] = c
                else:
                    n = n + c
                    if n:
                        t[m] = n
                    else:
                        del t[m]
                if SQ_RULES and not need_reduce:
                    for v, p in m:
                        if p >= 2 and v in SQ_RULES:
                            need_reduce = True
                            break
        r = Poly(t)
        if need_reduce:
            r = r.reduce()
        return r

    def reduce(self) -> "Poly":
        """Apply the quotient rules v^2 -> SQ_RULES[v] until none applies."""
        cur = self
        for _ in range(64):
            hit = False
            out = Poly()
            rest: dict = {}
            for m, c in cur.t.items():
                target = None
                for v, p in m:
                    if p >= 2 and v in SQ_RULES:
                        target = (v, p)
                        break
                if target is None:
                    rest[m] = rest.get(m, _ZERO) + c
                    continue
                hit = True
                v, p = target
                lower = tuple((w, q) for w, q in m if w != v)
                if p - 2 > 0:
                    lower = tuple(sorted(lower + ((v, p - 2),)))
                # multiply without triggering recursion on reduce
                sub = SQ_RULES[v]
                for m2, c2 in sub.t.items():
                    mm = _mono_mul(lower, m2)
                    rest[mm] = rest.get(mm, _ZERO) + c * c2
            cur = Poly({m: c for m, c in rest.items() if c})
            if not hit:
                return cur
        raise RuntimeError("quotient-rule reduction did not terminate")

    def __pow__(self, n: int) -> "Poly":
        assert isinstance(n, int) and n >= 0
        r = Poly.const(1)
        b = self
        while n:
            if n & 1:
                r = r * b
            b = b * b if n > 1 else b
            n >>= 1
        return r

    # z3 -----------------------------------------------------------------
    def z3(self):
        if self._z3 is None:
            terms = []
            for m, c in sorted(self.t.items()):
                factors = []
                for v, p in m:
                    zv = z3_var(v)
                    factors.extend([zv] * p)
                cz = z3.RealVal(str(c)) if c.denominator != 1 else z3.RealVal(c.numerator)
                if not factors:
                    terms.append(cz)
                else:
                    prod = factors[0]
                    for f in factors[1:]:
                        prod = prod * f
                    terms.append(prod if c == 1 else cz * prod)
            if not terms:
                self._z3 = z3.RealVal(0)
            elif len(terms) == 1:
                self._z3 = terms[0]
            else:
                self._z3 = z3.Sum(terms)
        return self._z3

    def eval(self, env: dict[int, float]) -> float:
        s = 0.0
        for m, c in self.t.items():
            x = float(c)
            for v, p in m:
                x *= env[v] ** p
            s += x
        return s

    def __repr__(self) -> str:
        if not self.t:
            return "0"
        parts = []
        for m, c in sorted(self.t.items()):
            ms = "*".join(
                var_name(v) if p == 1 else f"{var_name(v)}^{p}" for v, p in m
            )
            if not ms:
                parts.append(str(c))
            elif c == 1:
                parts.append(ms)
            else:
                parts.append(f"{c}*{ms}")
        return " + ".join(parts)


P_ZERO = Poly()
P_ONE = Poly.const(1)


# --------------------------------------------------------------------------
# SymBool
# --------------------------------------------------------------------------
class SymBool:
    """A boolean whose truth depends on symbolic inputs.  `bool()` forks."""

    __slots__ = ("e",)

    def __init__(self, e):
        self.e = e

    def __bool__(self) -> bool:
        return state.ctx().decide(self.e)

    @staticmethod
    def _z(o):
        if isinstance(o, SymBool):
            return o.e
        if isinstance(o, (bool,)) or type(o).__name__ == "bool_":
            return z3.BoolVal(bool(o))
        raise TypeError(f"cannot use {type(o).__name__} as a boolean term")

    def __and__(self, o):
        if isinstance(o, bool) or type(o).__name__ == "bool_":
            return self if o else False
        return SymBool(z3.And(self.e, SymBool._z(o)))

    __rand__ = __and__

    def __or__(self, o):
        if isinstance(o, bool) or type(o).__name__ == "bool_":
            return True if o else self
        return SymBool(z3.Or(self.e, SymBool._z(o)))

    __ror__ = __or__

    def __xor__(self, o):
        if isinstance(o, bool) or type(o).__name__ == "bool_":
            return ~self if o else self
        return SymBool(z3.Xor(self.e, SymBool._z(o)))

    __rxor__ = __xor__

    def __invert__(self):
        return SymBool(z3.Not(self.e))

    def __eq__(self, o):  # type: ignore[override]
        if isinstance(o, (bool, SymBool)):
            return SymBool(self.e == SymBool._z(o))
        return NotImplemented

    def __ne__(self, o):  # type: ignore[override]
        if isinstance(o, (bool, SymBool)):
            return SymBool(self.e != SymBool._z(o))
        return NotImplemented

    __hash__ = object.__hash__

    # integer view (True -> 1) used by sums over masks: forces a decision
    def __int__(self):
        return int(bool(self))

    def __index__(self):
        return int(bool(self))

    def __add__(self, o):
        return int(bool(self)) + o

    __radd__ = __add__

    def __repr__(self):
        return f"SymBool({self.e})"


def z3_of_bool(b):
    if isinstance(b, SymBool):
        return b.e
    return z3.BoolVal(bool(b))


def sym_and(*bs):
    out = True
    for b in bs:
        if isinstance(b, SymBool):
            out = b & out if not isinstance(out, SymBool) else out & b
        elif not b:
            return False
    return out


def sym_or(*bs):
    out = False
    for b in bs:
        if isinstance(b, SymBool):
            out = b | out if not isinstance(out, SymBool) else out | b
        elif b:
            return True
    return out


def sym_not(b):
    if isinstance(b, SymBool):
        return ~b
    return not b


# --------------------------------------------------------------------------
# Sc : symbolic complex scalar
# --------------------------------------------------------------------------
class Sc:
    __slots__ = ("re", "im")
    __array_priority__ = 1000

    def __init__(self, re: Poly, im: Poly = P_ZERO):
        self.re = re
        self.im = im

    # constructors -------------------------------------------------------
    @staticmethod
    def const(c) -> "Sc":
        if isinstance(c, Sc):
            return c
        if isinstance(c, complex):
            return Sc(Poly.const(c.real), Poly.const(c.imag))
        try:
            import numpy as np

            if isinstance(c, np.complexfloating):
                return Sc(Poly.const(float(c.real)), Poly.const(float(c.imag)))
        except ImportError:  # pragma: no cover
            pass
        return Sc(Poly.const(c))

    @staticmethod
    def var(name: str) -> "Sc":
        return Sc(Poly.var(name))

    @staticmethod
    def cvar(name: str) -> "Sc":
        return Sc(Poly.var(name + ".re"), Poly.var(name + ".im"))

    # queries ------------------------------------------------------------
    def is_const(self) -> bool:
        return self.re.is_const() and self.im.is_const()

    def is_real(self) -> bool:
        return not self.im.t

    def is_zero(self) -> bool:
        return not self.re.t and not self.im.t

    def const_complex(self) -> complex:
        return complex(float(self.re.const_value()), float(self.im.const_value()))

    def key(self):
        return (self.re.key(), self.im.key())

    # conversions ----------------------------------------------------------
    def __complex__(self):
        if not self.is_const():
            raise TypeError(f"symbolic value {self!r} has no concrete complex value")
        return self.const_complex()

    def __float__(self):
        if not self.is_const() or self.im.t:
            raise TypeError(f"symbolic value {self!r} has no concrete float value")
        return float(self.re.const_value())

    def __int__(self):
        if not self.is_const() or self.im.t:
            raise TypeError(f"symbolic value {self!r} has no concrete int value")
        f = self.re.const_value()
        return int(f)

    def __index__(self):
        f = self.re.const_value() if self.is_const() and not self.im.t else None
        if f is None or f.denominator != 1:
            raise TypeError(f"{self!r} cannot be used as an index")
        return int(f)

    def __bool__(self):
        nz = self != 0
        return bool(nz)

    def item(self):
        return self

    # arithmetic ---------------------------------------------------------
    @staticmethod
    def _co(o):
        if isinstance(o, Sc):
            return o
        if isinstance(o, SymBool):
            return ite(o, Sc.const(1), Sc.const(0))
        try:
            return Sc.const(o)
        except TypeError:
            return None

    def __add__(self, o):
        o = Sc._co(o)
        if o is None:
            return NotImplemented
        return Sc(self.re + o.re, self.im + o.im)

    __radd__ = __add__

    def __sub__(self, o):
        o = Sc._co(o)
        if o is None:
            return NotImplemented
        return Sc(self.re - o.re, self.im - o.im)

    def __rsub__(self, o):
        o = Sc._co(o)
        if o is None:
            return NotImplemented
        return Sc(o.re - self.re, o.im - self.im)

    def __neg__(self):
        return Sc(-self.re, -self.im)

    def __pos__(self):
        return self

    def __mul__(self, o):
        o = Sc._co(o)
        if o is None:
            return NotImplemented
        if not self.im.t and not o.im.t:
            return Sc(self.re * o.re)
        if not self.im.t:
            return Sc(self.re * o.re, self.re * o.im)
        if not o.im.t:
            return Sc(self.re * o.re, self.im * o.re)
        return Sc(
            self.re * o.re - self.im * o.im,
            self.re * o.im + self.im * o.re,
        )

    __rmul__ = __mul__

    def conj(self):
        if not self.im.t:
            return self
        return Sc(self.re, -self.im)

    conjugate = conj

    @property
    def real(self):
        return Sc(self.re)

    @property
    def imag(self):
        return Sc(self.im)

    def __truediv__(self, o):
        o = Sc._co(o)
        if o is None:
            return NotImplemented
        return sc_div(self, o)

    def __rtruediv__(self, o):
        o = Sc._co(o)
        if o is None:
            return NotImplemented
        return sc_div(o, self)

    def __pow__(self, n):
        if isinstance(n, Sc):
            if n.is_const() and not n.im.t and n.re.const_value().denominator == 1:
                n = int(n.re.const_value())
            elif n.is_const() and not n.im.t and n.re.const_value() == Fraction(1, 2):
                return sc_sqrt(self)
            else:
                raise TypeError("symbolic exponent")
        if isinstance(n, float):
            if n == 0.5:
                return sc_sqrt(self)
            if n == int(n):
                n = int(n)
        if not isinstance(n, int):
            raise TypeError(f"unsupported exponent {n!r}")
        if n < 0:
            return sc_div(Sc.const(1), self ** (-n))
        r = Sc.const(1)
        b = self
        while n:
            if n & 1:
                r = r * b
            n >>= 1
            if n:
                b = b * b
        return r

    def __abs__(self):
        return sc_abs(self)

    # comparisons --------------------------------------------------------
    def _cmp_operands(self, o):
        o = Sc._co(o)
        if o is None:
            return None
        if self.im.t or o.im.t:
            raise TypeError("ordering comparison of complex values")
        return o

    def __lt__(self, o):
        o = self._cmp_operands(o)
        if o is None:
            return NotImplemented
        d = self.re - o.re
        if d.is_const():
            return d.const_value() < 0
        return SymBool(d.z3() < 0)

    def __le__(self, o):
        o = self._cmp_operands(o)
        if o is None:
            return NotImplemented
        d = self.re - o.re
        if d.is_const():
            return d.const_value() <= 0
        return SymBool(d.z3() <= 0)

    def __gt__(self, o):
        o = self._cmp_operands(o)
        if o is None:
            return NotImplemented
        d = self.re - o.re
        if d.is_const():
            return d.const_value() > 0
        return SymBool(d.z3() > 0)

    def __ge__(self, o):
        o = self._cmp_operands(o)
        if o is None:
            return NotImplemented
        d = self.re - o.re
        if d.is_const():
            return d.const_value() >= 0
        return SymBool(d.z3() >= 0)

    def __eq__(self, o):  # type: ignore[override]
        o = Sc._co(o)
        if o is None:
            return NotImplemented
        dr = self.re - o.re
        di = self.im - o.im
        if dr.is_const() and di.is_const():
            return not dr.t and not di.t
        conj = []
        if dr.t:
            if dr.is_const():
                return False
            conj.append(dr.z3() == 0)
        if di.t:
            if di.is_const():
                return False
            conj.append(di.z3() == 0)
        return SymBool(conj[0] if len(conj) == 1 else z3.And(*conj))

    def __ne__(self, o):  # type: ignore[override]
        r = self.__eq__(o)
        if r is NotImplemented:
            return r
        return sym_not(r)

    __hash__ = object.__hash__

    def __repr__(self):
        if not self.im.t:
            return f"<{self.re!r}>"
        return f"<{self.re!r} + i({self.im!r})>"

    def __format__(self, spec):
        return repr(self)

    # evaluation under a model (dict var id -> float)
    def eval(self, env) -> complex:
        return complex(self.re.eval(env), self.im.eval(env))


# --------------------------------------------------------------------------
# atoms
# --------------------------------------------------------------------------
def _fresh(prefix: str) -> Poly:
    c = state.ctx()
    name = c.fresh_name(prefix)
    return Poly.var(name)


def _atom_cache():
    return state.ctx().atom_cache


def _real_div(num: Poly, den: Poly) -> Poly:
    if not num.t:
        return P_ZERO
    if den.is_const():
        return num.scale(_ONE / den.const_value())
    # exact monomial cancellation: num = c * den
    if num.key() == den.key():
        # x/x : still undefined at 0, but torch gives nan there; treat via atom
        pass
    cache = _atom_cache()
    k = ("div", num.key(), den.key())
    q = cache.get(k)
    if q is None:
        q = _fresh("q")
        cache[k] = q
        state.ctx().add_axiom(
            z3.Implies(den.z3() != 0, (q * den - num).z3() == 0),
            f"{q!r} = ({num!r})/({den!r})",
        )
        state.ctx().note_division(den)
    return q


# Python-scalar semantics for division: when set, dividing by a symbolic value
# forks on "divisor == 0" and raises ZeroDivisionError on that branch (plain
# Python floats do; torch tensors return inf/nan instead and keep this off).
STRICT_SCALAR_DIV = False

# When a list: every scalar division appends its divisor.  Used for AD-safety conditions (C30): under
# reverse-mode differentiation a division whose divisor is zero poisons the gradient (0/0 = nan) even
# if its forward value is later discarded by torch.where.
DIV_LOG = None


def sc_div(a: Sc, b: Sc) -> Sc:
    if DIV_LOG is not None:
        DIV_LOG.append(b)
    if STRICT_SCALAR_DIV and not b.is_const():
        if bool(b == 0):
            raise ZeroDivisionError("float division by zero")
    if b.is_const():
        if b.is_zero():
            raise ZeroDivisionError("division by the constant zero")
        if not b.im.t:
            inv = _ONE / b.re.const_value()
            return Sc(a.re.scale(inv), a.im.scale(inv))
        br, bi = b.re.const_value(), b.im.const_value()
        n2 = br * br + bi * bi
        inv = Sc(Poly.const(br / n2), Poly.const(-bi / n2))
        return a * inv
    if not b.im.t:
        return Sc(_real_div(a.re, b.re), _real_div(a.im, b.re))
    n2 = b.re * b.re + b.im * b.im
    num = a * b.conj()
    return Sc(_real_div(num.re, n2), _real_div(num.im, n2))


def sc_sqrt(x: Sc) -> Sc:
    if x.im.t:
        raise TypeError("sqrt of a complex symbolic value is not modelled")
    if x.re.is_const():
        c = x.re.const_value()
        if c < 0:
            raise ValueError("sqrt of a negative constant")
        # exact rational square roots stay exact
        n, d = c.numerator, c.denominator
        rn, rd = math.isqrt(n), math.isqrt(d)
        if rn * rn == n and rd * rd == d:
            return Sc(Poly.const(Fraction(rn, rd)))
    cache = _atom_cache()
    k = ("sqrt", x.re.key())
    s = cache.get(k)
    if s is None:
        s = _fresh("sqrt")
        cache[k] = s
        (vid,) = s.variables()
        SQ_RULES[vid] = x.re
        state.ctx().add_axiom(
            z3.Implies(x.re.z3() >= 0, z3.And(s.z3() >= 0, s.z3() * s.z3() == x.re.z3())),
            f"{s!r} = sqrt({x.re!r})",
        )
        state.ctx().note_sqrt(x.re)
    return Sc(s)


def sc_abs(x: Sc) -> Sc:
    if x.is_const():
        if not x.im.t:
            return Sc(Poly.const(abs(x.re.const_value())))
        return sc_sqrt(Sc(x.re * x.re + x.im * x.im))
    if x.im.t:
        return sc_sqrt(Sc(x.re * x.re + x.im * x.im))
    cache = _atom_cache()
    k = ("abs", x.re.key())
    a = cache.get(k)
    if a is None:
        a = _fresh("abs")
        cache[k] = a
        (vid,) = a.variables()
        SQ_RULES[vid] = x.re * x.re
        xz = x.re.z3()
        state.ctx().add_axiom(
            a.z3() == z3.If(xz >= 0, xz, -xz), f"{a!r} = |{x.re!r}|"
        )
    return Sc(a)


def ite(c, a, b):
    """if-then-else on scalars (numbers / Sc) or booleans without forking."""
    if not isinstance(c, SymBool):
        return a if c else b
    if isinstance(a, (bool, SymBool)) and isinstance(b, (bool, SymBool)):
        return SymBool(z3.If(c.e, z3_of_bool(a), z3_of_bool(b)))
    a = Sc._co(a)
    b = Sc._co(b)
    if a is None or b is None:
        raise TypeError("ite on unsupported operands")
    if a.key() == b.key():
        return a
    ctx = state.ctx()

    def part(pa: Poly, pb: Poly) -> Poly:
        if pa.key() == pb.key():
            return pa
        k = ("ite", c.e.get_id(), pa.key(), pb.key())
        r = ctx.atom_cache.get(k)
        if r is None:
            r = _fresh("ite")
            ctx.atom_cache[k] = r
            ctx.keepalive.append(c.e)
            ctx.add_axiom(
                r.z3() == z3.If(c.e, pa.z3(), pb.z3()),
                f"{r!r} = ite({c.e}, {pa!r}, {pb!r})",
            )
        return r

    return Sc(part(a.re, b.re), part(a.im, b.im))


# trigonometry ---------------------------------------------------------------
PI_NAME = "@pi"


def pi_sc() -> Sc:
    return Sc(Poly.var(PI_NAME))


def _cos_sin_of_var(vid: int) -> tuple[Poly, Poly]:
    cache = _atom_cache()
    k = ("trig", vid)
    r = cache.get(k)
    if r is None:
        n = var_name(vid)
        c = Poly.var(f"cos({n})")
        s = Poly.var(f"sin({n})")
        (sid,) = s.variables()
        SQ_RULES[sid] = P_ONE - c * c
        ctx = state.ctx()
        x = z3_var(vid)
        ctx.add_axiom(
            c.z3() * c.z3() + s.z3() * s.z3() == 1,
            f"cos^2 + sin^2 = 1 for {n} (also applied as the rewrite sin^2 -> 1 - cos^2)",
        )
        ctx.add_axiom(
            z3.Implies(x == 0, z3.And(c.z3() == 1, s.z3() == 0)),
            f"{n} = 0 => cos = 1, sin = 0",
        )
        ctx.note_trig(n)
        r = (c, s)
        cache[k] = r
    return r


def _cos_sin_term(vid: int, coeff: Fraction) -> tuple[Poly, Poly]:
    """cos and sin of coeff * var."""
    if vid == var_id(PI_NAME):
        # multiples of pi/2 are exact
        q = coeff * 2
        if q.denominator == 1:
            k = int(q) % 4
            return [
                (P_ONE, P_ZERO),
                (P_ZERO, P_ONE),
                (-P_ONE, P_ZERO),
                (P_ZERO, -P_ONE),
            ][k]
        raise TypeError(f"cos/sin of {coeff}*pi is not modelled")
    if coeff.denominator != 1:
        # opaque angle: fresh pair
        cache = _atom_cache()
        k = ("trigq", vid, coeff)
        r = cache.get(k)
        if r is None:
            n = f"{coeff}*{var_name(vid)}"
            c = Poly.var(f"cos({n})")
            s = Poly.var(f"sin({n})")
            (sid,) = s.variables()
            SQ_RULES[sid] = P_ONE - c * c
            ctx = state.ctx()
            ctx.add_axiom(
                c.z3() * c.z3() + s.z3() * s.z3() == 1,
                f"cos^2 + sin^2 = 1 for {n}",
            )
            ctx.add_axiom(
                z3.Implies(z3_var(vid) == 0, z3.And(c.z3() == 1, s.z3() == 0)),
                f"{n} = 0 => cos = 1, sin = 0",
            )
            r = (c, s)
            cache[k] = r
        return r
    n = int(coeff)
    c1, s1 = _cos_sin_of_var(vid)
    neg = n < 0
    n = abs(n)
    c, s = P_ONE, P_ZERO
    for _ in range(n):
        c, s = c * c1 - s * s1, s * c1 + c * s1
    if neg:
        s = -s
    return c, s


def cos_sin(x: Sc) -> tuple[Sc, Sc]:
    """(cos x, sin x) for a real symbolic angle that is a linear form."""
    if x.im.t:
        raise TypeError("cos/sin of a complex symbolic value is not modelled")
    p = x.re
    c, s = P_ONE, P_ZERO
    for m, coeff in sorted(p.t.items()):
        if m == ():
            if coeff == 0:
                continue
            f = float(coeff)
            # a concrete non-zero angle: keep exact only if it is a nice value
            ct, st = Poly.const(math.cos(f)), Poly.const(math.sin(f))
        elif len(m) == 1 and m[0][1] == 1:
            ct, st = _cos_sin_term(m[0][0], coeff)
        else:
            raise TypeError(f"cos/sin of a non-linear angle {p!r} is not modelled")
        c, s = c * ct - s * st, s * ct + c * st
    return Sc(c), Sc(s)


def sc_exp(x: Sc) -> Sc:
    if x.re.t:
        if x.is_const():
            import cmath

            return Sc.const(cmath.exp(x.const_complex()))
        raise TypeError("exp with a symbolic real part is not modelled")
    c, s = cos_sin(Sc(x.im))
    return Sc(c.re, s.re)
