"""symtorch: the subset of the torch API used by pasqal-io/emulators, implemented
on numpy object arrays whose elements are symbolic scalars (`symex.poly.Sc`) in
symbolic mode, or Python floats/complex in concrete ("shim validation") mode.

Shapes, strides, views and in-place aliasing are concrete and follow numpy
(which matches torch for this subset; `view` raises where torch would).
Data-dependent control flow (`bool(t)`, boolean-mask indexing, `.sum()` of a
mask, `nonzero`, `searchsorted`) concretises by forking in the explorer.
LAPACK-backed kernels exist only as declared stubs (see `STUBS`).
"""

from __future__ import annotations

import builtins
import cmath
import math
import types
from typing import Any, Callable

import numpy as np

from ..poly import (
    Sc,
    SymBool,
    ite as _ite,
    sc_sqrt,
    sc_abs,
    sc_exp,
    cos_sin,
    pi_sc,
    sym_and,
    sym_or,
    sym_not,
)
from ..core import Inconclusive

__version__ = "symtorch-0 (shim of torch 2.10)"

SYM = True  # symbolic elements (Sc) vs concrete Python floats
FORCE_NOT_CPU = False  # makes Tensor.is_cpu False to reach "GPU" code paths
STUBS: dict[str, Callable] = {}
CALL_LOG: list = []


class _Pi(float):
    pass


pi = math.pi


def _get_pi():
    return pi_sc() if SYM else math.pi


# --------------------------------------------------------------------------
# dtypes / devices
# --------------------------------------------------------------------------
class dtype:
    def __init__(self, name, kind, itemsize):
        self.name, self.kind, self.itemsize = name, kind, itemsize
        self.is_complex = kind == "c"
        self.is_floating_point = kind == "f"

    def __repr__(self):
        return f"torch.{self.name}"

    def __reduce__(self):
        return (_dtype_by_name, (self.name,))


float64 = double = dtype("float64", "f", 8)
float32 = float = dtype("float32", "f", 4)  # noqa: A001
float16 = half = dtype("float16", "f", 2)
complex128 = cdouble = dtype("complex128", "c", 16)
complex64 = cfloat = dtype("complex64", "c", 8)
int64 = long = dtype("int64", "i", 8)
int32 = int = dtype("int32", "i", 4)  # noqa: A001
int16 = short = dtype("int16", "i", 2)
int8 = dtype("int8", "i", 1)
uint8 = dtype("uint8", "i", 1)
bool = dtype("bool", "b", 1)  # noqa: A001
_DT = {
    d.name: d
    for d in (
        float64,
        float32,
        float16,
        complex128,
        complex64,
        int64,
        int32,
        int16,
        int8,
        uint8,
        bool,
    )
}


def _dtype_by_name(n):
    return _DT[n]


_KIND_DEFAULT = {"b": bool, "i": int64, "f": float64, "c": complex128}
_KIND_ORDER = "bifc"


def _promote(*kinds):
    return builtins.max(kinds, key=_KIND_ORDER.index)


class device:
    def __init__(self, spec="cpu", index=None):
        if isinstance(spec, device):
            spec = spec.type
        self.type = str(spec).split(":")[0]
        self.index = index

    def __eq__(self, o):
        return isinstance(o, device) and o.type == self.type or o == self.type

    def __hash__(self):
        return hash(self.type)

    def __repr__(self):
        return f"device(type='{self.type}')"

    def __str__(self):
        return self.type


_CPU = device("cpu")


class Size(tuple):
    def numel(self):
        return builtins.int(np.prod(self, dtype=np.int64)) if len(self) else 1


# --------------------------------------------------------------------------
# element helpers
# --------------------------------------------------------------------------
_pybool = builtins.bool
_pyint = builtins.int
_pyfloat = builtins.float
_pyabs = builtins.abs


def mk(x, kind="f"):
    """Python number -> tensor element for float/complex kinds."""
    if isinstance(x, Sc):
        if SYM:
            return x
        return x.const_complex() if kind == "c" else _pyfloat(x)
    if isinstance(x, SymBool):
        return _ite(x, Sc.const(1), Sc.const(0))
    if SYM:
        return Sc.const(x)
    if isinstance(x, (complex, np.complexfloating)):
        return complex(x)
    if kind == "c":
        return complex(x)
    return _pyfloat(x)


def _oa(x):
    a = np.empty((), dtype=object)
    a[()] = x
    return a


def _vec1(f):
    uf = np.frompyfunc(f, 1, 1)

    def g(a):
        r = uf(a)
        if not isinstance(r, np.ndarray):
            r = _oa(r)
        return r

    return g


def _e_conj(x):
    return x.conjugate() if hasattr(x, "conjugate") else x


def _e_real(x):
    if isinstance(x, Sc):
        return x.real
    return x.real if isinstance(x, complex) else x


def _e_imag(x):
    if isinstance(x, Sc):
        return x.imag
    return x.imag if isinstance(x, complex) else 0.0


def _e_abs(x):
    return _pyabs(x)


def _e_sqrt(x):
    if isinstance(x, Sc):
        return sc_sqrt(x)
    if isinstance(x, complex):
        return cmath.sqrt(x)
    return math.sqrt(x) if x >= 0 else _pyfloat("nan")


def _e_cos(x):
    if isinstance(x, Sc):
        return cos_sin(x)[0]
    return cmath.cos(x) if isinstance(x, complex) else math.cos(x)


def _e_sin(x):
    if isinstance(x, Sc):
        return cos_sin(x)[1]
    return cmath.sin(x) if isinstance(x, complex) else math.sin(x)


def _e_exp(x):
    if isinstance(x, Sc):
        return sc_exp(x)
    return cmath.exp(x) if isinstance(x, complex) else math.exp(x)


def _e_abs2(x):
    if isinstance(x, Sc):
        return Sc(x.re * x.re + x.im * x.im)
    return (x * x.conjugate()).real if isinstance(x, complex) else x * x


def _e_nonzero(x):
    if isinstance(x, (SymBool, _pybool, np.bool_)):
        return x
    return x != 0


_v_conj = _vec1(_e_conj)
_v_real = _vec1(_e_real)
_v_imag = _vec1(_e_imag)
_v_abs = _vec1(_e_abs)
_v_sqrt = _vec1(_e_sqrt)
_v_cos = _vec1(_e_cos)
_v_sin = _vec1(_e_sin)
_v_exp = _vec1(_e_exp)
_v_abs2 = _vec1(_e_abs2)
_v_nonzero = _vec1(_e_nonzero)
_v_not = _vec1(sym_not)
_v_ite = np.frompyfunc(_ite, 3, 1)
import operator as _op

_c_lt = np.frompyfunc(_op.lt, 2, 1)
_c_le = np.frompyfunc(_op.le, 2, 1)
_c_gt = np.frompyfunc(_op.gt, 2, 1)
_c_ge = np.frompyfunc(_op.ge, 2, 1)
_c_eq = np.frompyfunc(_op.eq, 2, 1)
_c_ne = np.frompyfunc(_op.ne, 2, 1)


def _boolarr(a) -> np.ndarray:
    """Concrete numpy bool array; forks on symbolic entries."""
    if isinstance(a, Tensor):
        a = a.a
    a = np.asarray(a)
    if a.dtype == np.bool_:
        return a
    if a.dtype != object:
        return a != 0
    out = np.empty(a.shape, dtype=np.bool_)
    flat = a.reshape(-1)
    of = out.reshape(-1)
    for i in range(flat.shape[0]):
        x = flat[i]
        if isinstance(x, (_pybool, np.bool_)):
            of[i] = x
        else:
            of[i] = _pybool(_e_nonzero(x))
    return out


def _kind_of_scalar(x) -> str:
    if isinstance(x, (_pybool, np.bool_, SymBool)):
        return "b"
    if isinstance(x, (_pyint, np.integer)):
        return "i"
    if isinstance(x, (_pyfloat, np.floating)):
        return "f"
    if isinstance(x, (complex, np.complexfloating)):
        return "c"
    if isinstance(x, Sc):
        return "c" if x.im.t else "f"
    raise TypeError(f"unsupported scalar {type(x).__name__}")


# --------------------------------------------------------------------------
# Tensor
# --------------------------------------------------------------------------
def _conv_index(idx):
    """torch index -> numpy index (always yields a view for basic indexing)."""
    if not isinstance(idx, tuple):
        idx = (idx,)
    out = []
    has_ellipsis = False
    adv = False
    for i in idx:
        if isinstance(i, Tensor):
            if i.dtype.kind == "b":
                out.append(_boolarr(i))
            else:
                out.append(i._intarr())
            adv = True
        elif isinstance(i, Sc):
            out.append(i.__index__())
        elif isinstance(i, (list, np.ndarray)):
            arr = np.asarray(i)
            if arr.dtype == object:
                arr = np.array([_pyint(x) for x in arr.reshape(-1)]).reshape(arr.shape)
            out.append(arr)
            adv = True
        elif i is Ellipsis:
            has_ellipsis = True
            out.append(i)
        elif isinstance(i, slice):
            out.append(
                slice(
                    *(
                        None if s is None else _pyint(s)
                        for s in (i.start, i.stop, i.step)
                    )
                )
            )
        else:
            out.append(i)
    if not has_ellipsis and not adv:
        out.append(Ellipsis)
    return tuple(out)


class Tensor:
    __array_ufunc__ = None
    __slots__ = ("a", "dtype", "requires_grad", "grad", "_is_sparse")

    def __init__(self, a=None, dtype_=None):
        if a is None:
            a = np.empty((0,), dtype=object)
            dtype_ = dtype_ or float32
        if not isinstance(a, np.ndarray):
            a = _oa(a) if not isinstance(a, (list, tuple)) else np.asarray(a, dtype=object)
        self.a = a
        self.dtype = dtype_ or float64
        self.requires_grad = False
        self.grad = None

    # -- basic properties ----------------------------------------------------
    @property
    def shape(self):
        return Size(self.a.shape)

    def size(self, dim=None):
        return Size(self.a.shape) if dim is None else self.a.shape[dim]

    @property
    def ndim(self):
        return self.a.ndim

    def dim(self):
        return self.a.ndim

    def numel(self):
        return _pyint(self.a.size)

    def nelement(self):
        return _pyint(self.a.size)

    def element_size(self):
        return self.dtype.itemsize

    def __len__(self):
        if self.a.ndim == 0:
            raise TypeError("len() of a 0-d tensor")
        return self.a.shape[0]

    @property
    def device(self):
        return _CPU

    @property
    def is_cuda(self):
        return False

    @property
    def is_cpu(self):
        return not FORCE_NOT_CPU

    @property
    def is_sparse(self):
        return False

    @property
    def layout(self):
        return "strided"

    @property
    def _base(self):
        return None

    def is_complex(self):
        return self.dtype.kind == "c"

    def is_floating_point(self):
        return self.dtype.kind == "f"

    def is_contiguous(self):
        return _pybool(self.a.flags["C_CONTIGUOUS"])

    def _intarr(self) -> np.ndarray:
        if self.a.dtype == object:
            return np.array(
                [x.__index__() for x in self.a.reshape(-1)], dtype=np.int64
            ).reshape(self.a.shape)
        return self.a.astype(np.int64, copy=False)

    # -- conversion -----------------------------------------------------------
    def _single(self):
        if self.a.size != 1:
            raise RuntimeError(
                f"a Tensor with {self.a.size} elements cannot be converted to Scalar"
            )
        return self.a.reshape(-1)[0]

    def item(self):
        x = self._single()
        k = self.dtype.kind
        if k == "i":
            return _pyint(x)
        if k == "b":
            return x if isinstance(x, SymBool) else _pybool(x)
        if isinstance(x, Sc):
            if x.is_const():
                if k == "c":
                    return x.const_complex() if not SYM else x
                return x
            return x
        return x

    def tolist(self):
        if self.dtype.kind == "i":
            return self._intarr().tolist()
        if self.dtype.kind == "b" and self.a.dtype != object:
            return self.a.tolist()
        return self.a.tolist()

    def numpy(self):
        if self.dtype.kind in "ib" and self.a.dtype != object:
            return self.a
        flat = [complex(x) for x in self.a.reshape(-1)]
        arr = np.array(flat).reshape(self.a.shape)
        return arr if self.dtype.kind == "c" else arr.real

    def __bool__(self):
        x = self._single()
        if isinstance(x, (_pybool, np.bool_)):
            return _pybool(x)
        return _pybool(_e_nonzero(x))

    def is_nonzero(self):
        return self.__bool__()

    def __int__(self):
        return _pyint(self._single())

    def __index__(self):
        if self.dtype.kind not in "ib":
            raise TypeError("only integer tensors can be used as an index")
        return _pyint(self._single())

    def __float__(self):
        return _pyfloat(self._single())

    def __complex__(self):
        return complex(self._single())

    def __iter__(self):
        if self.a.ndim == 0:
            raise TypeError("iteration over a 0-d tensor")
        for i in range(self.a.shape[0]):
            yield Tensor(self.a[i, ...], self.dtype)

    __hash__ = object.__hash__

    def __repr__(self):
        return f"symtensor({self.a.tolist()!r}, dtype={self.dtype})"

    def __format__(self, spec):
        # torch: a 0-d tensor formats like its Python scalar (`format(idx, "03b")`)
        if self.a.ndim == 0 and self.dtype.kind in "ib":
            return self.item().__format__(spec)
        return repr(self)

    # -- to / device / copies ---------------------------------------------------
    def to(self, *args, **kw):
        dt = kw.get("dtype")
        for x in args:
            if isinstance(x, dtype):
                dt = x
            elif isinstance(x, Tensor):
                dt = x.dtype
        if dt is None or dt is self.dtype or dt.name == self.dtype.name:
            return self
        return self._cast(dt)

    def type(self, dt):
        return self.to(dt)

    def _cast(self, dt):
        k0, k1 = self.dtype.kind, dt.kind
        a = self.a
        if k1 in "fc":
            if k0 in "ib":
                out = np.empty(a.shape, dtype=object)
                of = out.reshape(-1)
                for i, x in enumerate(a.reshape(-1)):
                    if isinstance(x, np.generic):
                        x = x.item()
                    of[i] = mk(x, k1)
                return Tensor(out, dt)
            if k0 == "c" and k1 == "f":
                return Tensor(_v_real(a), dt)
            if not SYM and k1 == "c":
                return Tensor(np.frompyfunc(complex, 1, 1)(a) if a.ndim else _oa(complex(a[()])), dt)
            return Tensor(a.copy(), dt)
        if k1 == "i":
            if k0 in "ib":
                return Tensor(_boolarr(a).astype(np.int64) if k0 == "b" else a.astype(np.int64), dt)
            out = np.array([_pyint(x) for x in a.reshape(-1)], dtype=np.int64).reshape(a.shape)
            return Tensor(out, dt)
        if k1 == "b":
            if k0 == "b":
                return Tensor(a.copy(), dt)
            return Tensor(_v_nonzero(a) if a.dtype == object else a != 0, dt)
        raise TypeError(f"cast {self.dtype} -> {dt}")

    def cpu(self):
        return self

    def cuda(self, *a, **k):
        return self

    def detach(self):
        return Tensor(self.a, self.dtype)

    def clone(self):
        return Tensor(self.a.copy(), self.dtype)

    def contiguous(self):
        if self.a.flags["C_CONTIGUOUS"]:
            return self
        return Tensor(np.ascontiguousarray(self.a), self.dtype)

    def new_zeros(self, *shape, dtype=None, device=None):
        return zeros(*shape, dtype=dtype or self.dtype)

    def new_ones(self, *shape, dtype=None, device=None):
        return ones(*shape, dtype=dtype or self.dtype)

    def requires_grad_(self, flag=True):
        self.requires_grad = flag
        return self

    def copy_(self, src):
        self[...] = src
        return self

    @property
    def data(self):
        return self

    # -- shape ops --------------------------------------------------------------
    @staticmethod
    def _shape_args(args):
        if len(args) == 1 and isinstance(args[0], (tuple, list, Size)):
            args = tuple(args[0])
        return tuple(_pyint(x) for x in args)

    def view(self, *shape):
        if len(shape) == 1 and isinstance(shape[0], dtype):
            return self.to(shape[0])
        shape = self._shape_args(shape)
        r = self.a.reshape(shape)
        if self.a.size and not np.shares_memory(r, self.a):
            raise RuntimeError(
                "view size is not compatible with input tensor's size and stride"
            )
        return Tensor(r, self.dtype)

    def reshape(self, *shape):
        return Tensor(self.a.reshape(self._shape_args(shape)), self.dtype)

    def flatten(self, start_dim=0, end_dim=-1):
        nd = self.a.ndim
        if nd == 0:
            return Tensor(self.a.reshape(1), self.dtype)
        s = start_dim % nd
        e = end_dim % nd
        shp = self.a.shape
        new = shp[:s] + (-1,) + shp[e + 1 :]
        return Tensor(self.a.reshape(new), self.dtype)

    def permute(self, *dims):
        return Tensor(np.transpose(self.a, self._shape_args(dims)), self.dtype)

    def transpose(self, d0, d1):
        return Tensor(np.swapaxes(self.a, d0, d1), self.dtype)

    @property
    def T(self):
        return Tensor(self.a.T, self.dtype)

    @property
    def mT(self):
        return Tensor(np.swapaxes(self.a, -1, -2), self.dtype)

    @property
    def mH(self):
        return Tensor(_v_conj(np.swapaxes(self.a, -1, -2)), self.dtype)

    @property
    def H(self):
        return self.mH

    def t(self):
        return self.T

    def unsqueeze(self, d):
        return Tensor(np.expand_dims(self.a, d), self.dtype)

    def squeeze(self, d=None):
        return Tensor(np.squeeze(self.a, axis=d), self.dtype)

    def select(self, d, i):
        return Tensor(
            self.a[(slice(None),) * (d % self.a.ndim) + (_pyint(i), Ellipsis)], self.dtype
        )

    def unbind(self, d=0):
        n = self.a.shape[d]
        return tuple(self.select(d, i) for i in range(n))

    def diagonal(self, offset=0, dim1=0, dim2=1):
        v = self.a.diagonal(offset, dim1, dim2)
        try:
            v.flags.writeable = True
        except ValueError:
            pass
        return Tensor(v, self.dtype)

    def expand(self, *shape):
        shape = self._shape_args(shape)
        shape = tuple(s if s != -1 else self.a.shape[i - len(shape)] for i, s in enumerate(shape))
        return Tensor(np.broadcast_to(self.a, shape), self.dtype)

    def repeat(self, *reps):
        return Tensor(np.tile(self.a, self._shape_args(reps)), self.dtype)

    def flip(self, *dims):
        return flip(self, self._shape_args(dims))

    # -- indexing ---------------------------------------------------------------
    def __getitem__(self, idx):
        return Tensor(self.a[_conv_index(idx)], self.dtype)

    def __setitem__(self, idx, value):
        self.a[_conv_index(idx)] = self._coerce_value(value)

    def _coerce_value(self, value):
        k = self.dtype.kind
        if isinstance(value, Tensor):
            va = value.a
            if k in "fc":
                if value.dtype.kind in "ib":
                    return value._cast(self.dtype).a
                if k == "f" and value.dtype.kind == "c":
                    return _v_real(va)
                return va
            if k == "i":
                return value._intarr()
            if k == "b":
                return va
            return va
        if isinstance(value, np.ndarray):
            return value
        if k in "fc":
            return _oa(mk(value, k))
        if k == "i":
            return _pyint(value)
        return value

    # -- arithmetic ---------------------------------------------------------------
    def _operand(self, o):
        """-> (array, kind)"""
        if isinstance(o, Tensor):
            return o.a, o.dtype.kind
        if isinstance(o, np.ndarray):
            return o, "f"
        k = _kind_of_scalar(o)
        if self.dtype.kind in "fc" or k in "fc":
            return _oa(mk(o, "c" if k == "c" else "f")), k
        return o, k

    def _bin(self, o, f, force_float=False):
        try:
            oa, ok = self._operand(o)
        except TypeError:
            return NotImplemented  # let the other operand's reflected method run
        k = _promote(self.dtype.kind, ok)
        if force_float and k in "bi":
            k = "f"
            a = self._cast(float64).a
            oa = Tensor(oa, _KIND_DEFAULT[ok])._cast(float64).a if isinstance(oa, np.ndarray) else mk(oa)
        else:
            a = self.a
            if k in "fc":
                if self.dtype.kind in "ib":
                    a = self._cast(float64).a
                if ok in "ib" and isinstance(o, Tensor):
                    oa = o._cast(float64).a
        r = f(a, oa)
        if not isinstance(r, np.ndarray):
            r = _oa(r) if k in "fc" else np.asarray(r)
        dt = _KIND_DEFAULT[k]
        if k == self.dtype.kind:
            dt = self.dtype
        elif isinstance(o, Tensor) and k == o.dtype.kind:
            dt = o.dtype
        return Tensor(r, dt)

    def __add__(self, o):
        return self._bin(o, np.add)

    __radd__ = __add__

    def __sub__(self, o):
        return self._bin(o, np.subtract)

    def __rsub__(self, o):
        return self._bin(o, lambda a, b: np.subtract(b, a))

    def __mul__(self, o):
        if isinstance(o, SparseTensor):
            return NotImplemented
        return self._bin(o, np.multiply)

    __rmul__ = __mul__

    def __truediv__(self, o):
        return self._bin(o, np.true_divide, force_float=True)

    def __rtruediv__(self, o):
        return self._bin(o, lambda a, b: np.true_divide(b, a), force_float=True)

    def __floordiv__(self, o):
        return self._bin(o, np.floor_divide)

    def __mod__(self, o):
        return self._bin(o, np.mod)

    def __pow__(self, n):
        if isinstance(n, Tensor):
            n = n.item()
        k = self.dtype.kind
        if k in "ib":
            return Tensor(self.a ** n, self.dtype)
        return Tensor(np.frompyfunc(lambda x: x ** n, 1, 1)(self.a) if self.a.ndim else _oa(self.a[()] ** n), self.dtype)

    def __rpow__(self, b):
        return Tensor(np.frompyfunc(lambda x: b ** x, 1, 1)(self.a), self.dtype)

    def __neg__(self):
        return Tensor(-self.a, self.dtype)

    def __pos__(self):
        return self

    def __abs__(self):
        return self.abs()

    def __matmul__(self, o):
        if isinstance(o, SparseTensor):
            return NotImplemented
        return matmul(self, o)

    def __rmatmul__(self, o):
        return matmul(o, self)

    def _inplace(self, o, f, force_float=False):
        r = self._bin(o, f, force_float)
        if self.dtype.kind in "ib" and r.dtype.kind in "fc":
            raise RuntimeError("result type can't be cast to the in-place operand type")
        self.a[...] = r.a
        return self

    def __iadd__(self, o):
        return self._inplace(o, np.add)

    def __isub__(self, o):
        return self._inplace(o, np.subtract)

    def __imul__(self, o):
        return self._inplace(o, np.multiply)

    def __itruediv__(self, o):
        return self._inplace(o, np.true_divide, True)

    def __imatmul__(self, o):
        r = matmul(self, o)
        if r.a.shape != self.a.shape:
            raise RuntimeError("in-place matmul changes the shape")
        self.a[...] = r.a
        return self

    def add_(self, o, alpha=1):
        return self._inplace(o * alpha if alpha != 1 else o, np.add)

    def sub_(self, o):
        return self._inplace(o, np.subtract)

    def mul_(self, o):
        return self._inplace(o, np.multiply)

    def div_(self, o):
        return self._inplace(o, np.true_divide, True)

    def add(self, o):
        return self + o

    def mul(self, o):
        return self * o

    # comparisons -------------------------------------------------------------
    def _cmp(self, o, f):
        oa, _ = self._operand(o)
        a = self.a
        r = f(a, oa)
        if not isinstance(r, np.ndarray):
            r = np.asarray(r) if isinstance(r, (_pybool, np.bool_)) else _oa(r)
        if r.dtype == object and not builtins.any(isinstance(x, SymBool) for x in r.reshape(-1)):
            r = r.astype(np.bool_)
        return Tensor(r, bool)

    def __lt__(self, o):
        return self._cmp(o, _c_lt)

    def __le__(self, o):
        return self._cmp(o, _c_le)

    def __gt__(self, o):
        return self._cmp(o, _c_gt)

    def __ge__(self, o):
        return self._cmp(o, _c_ge)

    def __eq__(self, o):  # type: ignore[override]
        if o is None or isinstance(o, (str, tuple, list, dict)):
            return False
        return self._cmp(o, _c_eq)

    def __ne__(self, o):  # type: ignore[override]
        if o is None or isinstance(o, (str, tuple, list, dict)):
            return True
        return self._cmp(o, _c_ne)

    def __and__(self, o):
        oa = o.a if isinstance(o, Tensor) else o
        if self.dtype.kind == "b":
            r = np.frompyfunc(lambda x, y: sym_and(x, y), 2, 1)(self.a, oa)
            return Tensor(r if isinstance(r, np.ndarray) else _oa(r), bool)._tidy_bool()
        return Tensor(self.a & oa, self.dtype)

    __rand__ = __and__

    def __or__(self, o):
        oa = o.a if isinstance(o, Tensor) else o
        if self.dtype.kind == "b":
            r = np.frompyfunc(lambda x, y: sym_or(x, y), 2, 1)(self.a, oa)
            return Tensor(r if isinstance(r, np.ndarray) else _oa(r), bool)._tidy_bool()
        return Tensor(self.a | oa, self.dtype)

    __ror__ = __or__

    def __invert__(self):
        if self.dtype.kind == "b":
            if self.a.dtype == object:
                return Tensor(_v_not(self.a), bool)
            return Tensor(~self.a, bool)
        return Tensor(~self.a, self.dtype)

    def logical_not(self):
        return ~(self if self.dtype.kind == "b" else (self != 0))

    def _tidy_bool(self):
        if self.a.dtype == object and not builtins.any(
            isinstance(x, SymBool) for x in self.a.reshape(-1)
        ):
            self.a = self.a.astype(np.bool_)
        return self

    # reductions ---------------------------------------------------------------
    def any(self, dim=None, keepdim=False):
        b = self if self.dtype.kind == "b" else (self != 0)
        a = b.a
        if a.dtype != object:
            return Tensor(np.asarray(a.any(axis=dim, keepdims=keepdim)), bool)
        red = np.frompyfunc(lambda x, y: sym_or(x, y), 2, 1)
        if dim is None:
            r = False
            for x in a.reshape(-1):
                r = sym_or(r, x)
            return Tensor(_oa(r), bool)._tidy_bool()
        if a.shape[dim] == 0:
            shp = list(a.shape)
            del shp[dim]
            return Tensor(np.zeros(shp, dtype=np.bool_), bool)
        r = red.reduce(a, axis=dim, keepdims=keepdim)
        return Tensor(r if isinstance(r, np.ndarray) else _oa(r), bool)._tidy_bool()

    def all(self, dim=None, keepdim=False):
        b = self if self.dtype.kind == "b" else (self != 0)
        a = b.a
        if a.dtype != object:
            return Tensor(np.asarray(a.all(axis=dim, keepdims=keepdim)), bool)
        if dim is None:
            r = True
            for x in a.reshape(-1):
                r = sym_and(r, x)
            return Tensor(_oa(r), bool)._tidy_bool()
        red = np.frompyfunc(lambda x, y: sym_and(x, y), 2, 1)
        r = red.reduce(a, axis=dim, keepdims=keepdim)
        return Tensor(r if isinstance(r, np.ndarray) else _oa(r), bool)._tidy_bool()

    def sum(self, dim=None, keepdim=False, dtype=None):
        k = self.dtype.kind
        if k == "b":
            a = _boolarr(self.a).astype(np.int64)
            return Tensor(np.asarray(a.sum(axis=dim, keepdims=keepdim)), int64)
        if k == "i":
            return Tensor(np.asarray(self.a.sum(axis=dim, keepdims=keepdim)), int64)
        if isinstance(dim, list):
            dim = tuple(dim)
        if self.a.size == 0 and dim is None:
            return Tensor(_oa(mk(0, k)), self.dtype)
        r = np.sum(self.a, axis=dim, keepdims=keepdim)
        if not isinstance(r, np.ndarray):
            r = _oa(mk(r, k) if isinstance(r, (_pyint, _pyfloat)) else r)
        elif r.dtype != object:
            r2 = np.empty(r.shape, dtype=object)
            r2[...] = mk(0, k)
            r = r2
        return Tensor(r, self.dtype)

    def prod(self):
        r = mk(1, self.dtype.kind)
        for x in self.a.reshape(-1):
            r = r * x
        return Tensor(_oa(r), self.dtype)

    def mean(self):
        return self.sum() / self.numel()

    def trace(self):
        return trace(self)

    def norm(self, p=2, dim=None):
        return _vector_norm(self, dim=dim)

    def max(self, dim=None):
        return max(self, dim)

    def min(self, dim=None):
        return min(self, dim)

    def abs(self):
        if self.dtype.kind in "ib":
            return Tensor(np.abs(self.a), self.dtype)
        return Tensor(_v_abs(self.a), float64 if self.dtype.kind == "c" else self.dtype)

    def conj(self):
        if self.dtype.kind != "c":
            return self
        return Tensor(_v_conj(self.a), self.dtype)

    def conj_physical(self):
        return self.conj()

    def resolve_conj(self):
        return self

    def conjugate(self):
        return self.conj()

    @property
    def real(self):
        if self.dtype.kind != "c":
            return self
        return Tensor(_v_real(self.a), float64)

    @property
    def imag(self):
        if self.dtype.kind != "c":
            raise RuntimeError("imag is not implemented for real tensors")
        return Tensor(_v_imag(self.a), float64)

    def sqrt(self):
        return sqrt(self)

    def cos(self):
        return cos(self)

    def sin(self):
        return sin(self)

    def exp(self):
        return exp(self)

    def clamp(self, min=None, max=None):
        return clamp(self, min, max)

    def nonzero(self):
        b = _boolarr(self.a if self.dtype.kind == "b" else _v_nonzero(self.a) if self.a.dtype == object else self.a)
        return Tensor(np.argwhere(b).astype(np.int64), int64)

    def fill_(self, v):
        if isinstance(v, Tensor):
            v = v.item()
        self.a[...] = self._coerce_value(v)
        return self

    def zero_(self):
        return self.fill_(0)

    def fill_diagonal_(self, v):
        n = builtins.min(self.a.shape)
        val = self._coerce_value(v)
        for i in range(n):
            self.a[(i,) * self.a.ndim] = val if not isinstance(val, np.ndarray) else val[()]
        return self

    def index_add_(self, dim, index, source, alpha=1):
        idx = index._intarr().reshape(-1) if isinstance(index, Tensor) else np.asarray(index).reshape(-1)
        if isinstance(alpha, Tensor):
            alpha = alpha.item()
        src = source.a
        if src.shape[dim] != idx.shape[0]:
            raise RuntimeError("index_add_: index length does not match source")
        d = dim % self.a.ndim
        for j, i in enumerate(idx):
            sl_self = (slice(None),) * d + (_pyint(i), Ellipsis)
            sl_src = (slice(None),) * d + (j, Ellipsis)
            piece = src[sl_src]
            if not (isinstance(alpha, (_pyint, _pyfloat)) and alpha == 1):
                piece = piece * _oa(mk(alpha, "c" if _kind_of_scalar(alpha) == "c" else "f"))
            self.a[sl_self] = self.a[sl_self] + piece
        return self

    def to_sparse_coo(self):
        assert self.a.ndim == 2
        idx = []
        vals = []
        for i in range(self.a.shape[0]):
            for j in range(self.a.shape[1]):
                x = self.a[i, j]
                if isinstance(x, Sc):
                    if x.is_zero():
                        continue
                elif x == 0:
                    continue
                idx.append((i, j))
                vals.append(x)
        ia = np.array(idx, dtype=np.int64).reshape(-1, 2).T
        va = np.empty(len(vals), dtype=object)
        for k, v in enumerate(vals):
            va[k] = v
        return SparseTensor(ia, va, self.a.shape, self.dtype, coalesced=True)

    def to_sparse_csr(self):
        s = self.to_sparse_coo()
        s.layout_ = "csr"
        return s

    def to_dense(self):
        return self

    def resize_(self, *a):
        raise Inconclusive("Tensor.resize_ is not modelled (deallocate_tensor must be stubbed)")

    def set_(self, *a, **k):
        raise Inconclusive("Tensor.set_ is not modelled")

    def _use_count(self):
        return 1

    def untyped_storage(self):
        return None

    def backward(self, *a, **k):
        raise Inconclusive("autograd is not modelled")


def _t(x, like: Tensor | None = None) -> Tensor:
    if isinstance(x, Tensor):
        return x
    return tensor(x)


# --------------------------------------------------------------------------
# creation
# --------------------------------------------------------------------------
def _shape(args):
    if len(args) == 1 and isinstance(args[0], (tuple, list, Size)):
        args = tuple(args[0])
    return tuple(_pyint(x) for x in args)


def _filled(shape, value, dt):
    dt = dt or float32
    k = dt.kind
    if k == "i":
        return Tensor(np.full(shape, _pyint(value), dtype=np.int64), dt)
    if k == "b":
        return Tensor(np.full(shape, _pybool(value), dtype=np.bool_), dt)
    a = np.empty(shape, dtype=object)
    a[...] = mk(value, k)
    return Tensor(a, dt)


def zeros(*shape, dtype=None, device=None, requires_grad=False, **kw):
    return _filled(_shape(shape), 0, dtype)


def ones(*shape, dtype=None, device=None, **kw):
    return _filled(_shape(shape), 1, dtype)


def empty(*shape, dtype=None, device=None, **kw):
    return _filled(_shape(shape), 0, dtype)


def full(shape, value, dtype=None, device=None):
    if dtype is None:
        dtype = _KIND_DEFAULT[_kind_of_scalar(value)]
        if dtype is float64:
            dtype = float32
    return _filled(_shape((shape,)), value, dtype)


def zeros_like(t, dtype=None, device=None, **kw):
    return _filled(t.a.shape, 0, dtype or t.dtype)


def ones_like(t, dtype=None, device=None, **kw):
    return _filled(t.a.shape, 1, dtype or t.dtype)


def empty_like(t, dtype=None, device=None, **kw):
    return _filled(t.a.shape, 0, dtype or t.dtype)


def eye(n, m=None, dtype=None, device=None):
    m = n if m is None else m
    r = zeros(n, m, dtype=dtype)
    one = mk(1, r.dtype.kind) if r.dtype.kind in "fc" else 1
    for i in range(builtins.min(n, m)):
        r.a[i, i] = one
    return r


def arange(start, end=None, step=1, dtype=None, device=None):
    def cv(x):
        if isinstance(x, Tensor):
            x = x.item()
        if isinstance(x, Sc):
            f = x.re.const_value()
            return _pyint(f) if f.denominator == 1 else _pyfloat(f)
        return x

    start, end, step = cv(start), cv(end), cv(step)
    if end is None:
        start, end = 0, start
    isint = builtins.all(isinstance(x, (_pyint, np.integer)) for x in (start, end, step))
    if dtype is None:
        dtype = int64 if isint else float32
    n = builtins.max(0, math.ceil((end - start) / step))
    if dtype.kind == "i":
        return Tensor(np.array([start + i * step for i in range(n)], dtype=np.int64), dtype)
    a = np.empty(n, dtype=object)
    for i in range(n):
        a[i] = mk(start + i * step, dtype.kind)
    return Tensor(a, dtype)


def _unwrap(x):
    if isinstance(x, Tensor):
        return x.a.tolist()
    if isinstance(x, np.ndarray):
        return x.tolist()
    if isinstance(x, (list, tuple)):
        return [_unwrap(y) for y in x]
    return x


def _flat_elems(x):
    if isinstance(x, list):
        for y in x:
            yield from _flat_elems(y)
    else:
        yield x


def _list_shape(x):
    if isinstance(x, list):
        if not x:
            return (0,)
        return (len(x),) + _list_shape(x[0])
    return ()


def tensor(data, dtype=None, device=None, requires_grad=False):
    src_kind = data.dtype.kind if isinstance(data, Tensor) else None
    raw = _unwrap(data)
    shape = _list_shape(raw)
    flat = list(_flat_elems(raw))
    if dtype is None:
        if src_kind is not None:
            dtype = data.dtype
        elif not flat:
            dtype = float32
        else:
            k = _promote(*[_kind_of_scalar(x) for x in flat])
            dtype = _KIND_DEFAULT[k]
            if k == "f":
                dtype = float32
    k = dtype.kind
    if k == "i":
        arr = np.array([_pyint(x) for x in flat], dtype=np.int64).reshape(shape)
        return Tensor(arr, dtype)
    if k == "b":
        if builtins.any(isinstance(x, SymBool) for x in flat):
            arr = np.empty(len(flat), dtype=object)
            for i, x in enumerate(flat):
                arr[i] = x
            return Tensor(arr.reshape(shape), dtype)
        arr = np.array([_pybool(_e_nonzero(x)) if not isinstance(x, (_pybool, np.bool_)) else _pybool(x) for x in flat], dtype=np.bool_).reshape(shape)
        return Tensor(arr, dtype)
    arr = np.empty(len(flat), dtype=object)
    for i, x in enumerate(flat):
        if isinstance(x, (np.generic,)):
            x = x.item()
        e = mk(x, k)
        if k == "f" and isinstance(e, Sc) and e.im.t:
            e = e.real
        arr[i] = e
    return Tensor(arr.reshape(shape), dtype)


def as_tensor(data, dtype=None, device=None):
    if isinstance(data, Tensor):
        if dtype is None or dtype.name == data.dtype.name:
            return data
        return data._cast(dtype)
    return tensor(data, dtype=dtype)


def from_numpy(a):
    a = np.asarray(a)
    if a.dtype.kind in "iu":
        return Tensor(a.astype(np.int64), int64 if a.dtype.itemsize == 8 else int32)
    if a.dtype.kind == "b":
        return Tensor(a, bool)
    return tensor(a.tolist(), dtype=complex128 if a.dtype.kind == "c" else float64)


def clone(t):
    return t.clone()


def is_tensor(x):
    return isinstance(x, Tensor)


def is_complex(t):
    return t.is_complex()


def is_floating_point(t):
    return t.is_floating_point()


def numel(t):
    return t.numel()


def manual_seed(s):
    return None


def set_default_dtype(d):
    return None


def get_default_dtype():
    return float32


# --------------------------------------------------------------------------
# algebra
# --------------------------------------------------------------------------
def _res_dtype(*ts):
    k = _promote(*[t.dtype.kind for t in ts])
    for t in ts:
        if t.dtype.kind == k:
            return t.dtype
    return _KIND_DEFAULT[k]


def _num(t: Tensor) -> np.ndarray:
    """array usable in numeric contraction (ints promoted to elements)."""
    if t.dtype.kind in "ib":
        return t._cast(float64).a
    return t.a


def _fix_empty(r, dt):
    if not isinstance(r, np.ndarray):
        r = _oa(r)
    if r.dtype != object:
        r2 = np.empty(r.shape, dtype=object)
        r2[...] = mk(0, dt.kind)
        r = r2
    else:
        flat = r.reshape(-1)
        for i in range(flat.shape[0]):
            x = flat[i]
            if isinstance(x, (_pyint, _pybool)) and SYM:
                flat[i] = mk(x, dt.kind)
    return r


def tensordot(a, b, dims=2):
    a, b = _t(a), _t(b)
    if isinstance(dims, Tensor):
        dims = dims.item()
    if isinstance(dims, (tuple, list)):
        dims = (list(dims[0]), list(dims[1]))
    dt = _res_dtype(a, b)
    r = np.tensordot(_num(a), _num(b), axes=dims)
    return Tensor(_fix_empty(r, dt), dt)


def matmul(a, b):
    a, b = _t(a), _t(b)
    dt = _res_dtype(a, b)
    if a.dtype.kind in "ib" and b.dtype.kind in "ib":
        return Tensor(np.matmul(a.a, b.a), dt)
    r = np.matmul(_num(a), _num(b))
    return Tensor(_fix_empty(r, dt), dt)


mm = matmul


def kron(a, b):
    a, b = _t(a), _t(b)
    dt = _res_dtype(a, b)
    return Tensor(np.kron(_num(a), _num(b)), dt)


def outer(a, b):
    a, b = _t(a), _t(b)
    dt = _res_dtype(a, b)
    return Tensor(np.multiply.outer(_num(a), _num(b)), dt)


def vdot(a, b):
    a, b = _t(a), _t(b)
    if a.a.ndim != 1 or b.a.ndim != 1:
        raise RuntimeError("vdot: 1D tensors expected")
    dt = _res_dtype(a, b)
    if a.a.shape != b.a.shape:
        raise RuntimeError("vdot: inconsistent tensor size")
    r = np.dot(_v_conj(_num(a)), _num(b)) if a.a.size else mk(0, dt.kind)
    return Tensor(_fix_empty(r, dt), dt)


def dot(a, b):
    dt = _res_dtype(a, b)
    return Tensor(_fix_empty(np.dot(_num(a), _num(b)), dt), dt)


def trace(t):
    r = np.trace(_num(t))
    return Tensor(_fix_empty(r, t.dtype), t.dtype)


def stack(ts, dim=0):
    ts = list(ts)
    dt = _res_dtype(*ts)
    return Tensor(np.stack([_num(t) if dt.kind in "fc" else t.a for t in ts], axis=dim), dt)


def cat(ts, dim=0):
    ts = list(ts)
    dt = _res_dtype(*ts)
    arrs = [_num(t) if dt.kind in "fc" else t.a for t in ts]
    return Tensor(np.concatenate(arrs, axis=dim), dt)


concat = cat
concatenate = cat


def block_diag(*ts):
    dt = _res_dtype(*ts)
    n = builtins.sum(t.a.shape[0] for t in ts)
    m = builtins.sum(t.a.shape[1] for t in ts)
    r = zeros(n, m, dtype=dt)
    i = j = 0
    for t in ts:
        r.a[i : i + t.a.shape[0], j : j + t.a.shape[1]] = _num(t)
        i += t.a.shape[0]
        j += t.a.shape[1]
    return r


def flip(t, dims):
    if isinstance(dims, _pyint):
        dims = (dims,)
    return Tensor(np.flip(t.a, axis=tuple(dims)).copy(), t.dtype)


def where(cond, a=None, b=None):
    if a is None:
        m = _boolarr(cond)
        return tuple(Tensor(x.astype(np.int64), int64) for x in np.nonzero(m))
    cond = _t(cond)
    ca = cond.a
    ta = a if isinstance(a, Tensor) else None
    tb = b if isinstance(b, Tensor) else None
    ks = [t.dtype.kind for t in (ta, tb) if t is not None] + [
        _kind_of_scalar(x) for x, t in ((a, ta), (b, tb)) if t is None
    ]
    k = _promote(*ks)
    dt = next((t.dtype for t in (ta, tb) if t is not None and t.dtype.kind == k), _KIND_DEFAULT[k])
    aa = _num(ta) if ta is not None and k in "fc" else (ta.a if ta is not None else (_oa(mk(a, k)) if k in "fc" else a))
    ba = _num(tb) if tb is not None and k in "fc" else (tb.a if tb is not None else (_oa(mk(b, k)) if k in "fc" else b))
    if ca.dtype != object:
        r = np.where(ca, aa, ba)
        if k in "fc" and r.dtype != object:
            r = r.astype(object)
        return Tensor(r, dt)
    if WHERE_FORKS:
        # decide every symbolic condition by forking the path (2^k paths, but ite-free polynomials):
        # z3 case-splits poorly on nested divisions of ite terms (PCHIP's safe-secant harmonic mean)
        cb = np.asarray(np.frompyfunc(lambda c: _pybool(c), 1, 1)(ca)).astype(np.bool_)
        r = np.where(cb, aa, ba)
        if r.dtype != object:
            r = r.astype(object)
        return Tensor(r, dt)
    r = _v_ite(ca, aa, ba)
    if not isinstance(r, np.ndarray):
        r = _oa(r)
    return Tensor(r, dt)


# when set, torch.where on symbolic conditions forks the path instead of building if-then-else atoms
WHERE_FORKS = False


def any(t, dim=None):  # noqa: A001
    return t.any(dim)


def all(t, dim=None):  # noqa: A001
    return t.all(dim)


def sum(t, dim=None, **kw):  # noqa: A001
    return t.sum(dim)


def abs(t):  # noqa: A001
    return _t(t).abs()


def conj(t):
    return t.conj()


def real(t):
    return t.real


def imag(t):
    return t.imag


def _unary(v):
    def f(t):
        t = _t(t)
        if t.dtype.kind in "ib":
            t = t._cast(float64)
        return Tensor(v(t.a), t.dtype)

    return f


sqrt = _unary(_v_sqrt)
cos = _unary(_v_cos)
sin = _unary(_v_sin)
exp = _unary(_v_exp)


def _e_sign(x):
    if isinstance(x, Sc):
        return _ite(x > 0, Sc.const(1), _ite(x < 0, Sc.const(-1), Sc.const(0)))
    return (x > 0) - (x < 0) + 0.0


_v_sign = _vec1(_e_sign)


def sign(t):
    t = _t(t)
    if t.dtype.kind in "ib":
        return Tensor(np.sign(t.a), t.dtype)
    return Tensor(_v_sign(t.a), t.dtype)


def logical_not(t):
    return _t(t).logical_not()


def logical_and(a, b):
    return _t(a) & _t(b)


def logical_or(a, b):
    return _t(a) | _t(b)


def _vector_norm(t, ord=2, dim=None, keepdim=False):
    t = _t(t)
    sq = Tensor(_v_abs2(_num(t)), float64)
    s = sq.sum(dim=dim, keepdim=keepdim)
    return Tensor(_v_sqrt(s.a), float64)


def norm(t, p=2, dim=None):
    return _vector_norm(t, dim=dim)


def _sym_max2(x, y):
    return _ite(x >= y, x, y)


def _sym_min2(x, y):
    return _ite(x <= y, x, y)


def _reduce_minmax(t, dim, f2, npf):
    t = _t(t)
    if t.dtype.kind in "ib" and t.a.dtype != object:
        if dim is None:
            return Tensor(np.asarray(npf(t.a)), t.dtype)
        return Tensor(np.asarray(npf(t.a, axis=dim)), t.dtype)
    if dim is not None:
        red = np.frompyfunc(f2, 2, 1)
        r = red.reduce(t.a, axis=dim)
        return Tensor(r if isinstance(r, np.ndarray) else _oa(r), t.dtype)
    flat = t.a.reshape(-1)
    if flat.shape[0] == 0:
        raise RuntimeError("max(): expected a non-empty tensor")
    r = flat[0]
    for x in flat[1:]:
        r = f2(r, x)
    return Tensor(_oa(r), t.dtype)


def max(t, dim=None):  # noqa: A001
    if isinstance(dim, Tensor):
        return maximum(t, dim)
    return _reduce_minmax(t, dim, _sym_max2, np.max)


def min(t, dim=None):  # noqa: A001
    if isinstance(dim, Tensor):
        return minimum(t, dim)
    return _reduce_minmax(t, dim, _sym_min2, np.min)


def maximum(a, b):
    a, b = _t(a), _t(b)
    r = np.frompyfunc(_sym_max2, 2, 1)(_num(a), _num(b))
    return Tensor(r if isinstance(r, np.ndarray) else _oa(r), _res_dtype(a, b))


def minimum(a, b):
    a, b = _t(a), _t(b)
    r = np.frompyfunc(_sym_min2, 2, 1)(_num(a), _num(b))
    return Tensor(r if isinstance(r, np.ndarray) else _oa(r), _res_dtype(a, b))


def clamp(t, min=None, max=None):  # noqa: A002
    t = _t(t)
    if t.dtype.kind == "i":
        return Tensor(np.clip(t.a, min, max), t.dtype)
    r = t
    if min is not None:
        r = maximum(r, tensor(min, dtype=t.dtype))
    if max is not None:
        r = minimum(r, tensor(max, dtype=t.dtype))
    return r


def _close_elem(atol, rtol):
    def f(x, y):
        d = x - y
        if isinstance(d, Sc):
            if d.is_zero():
                return True
            ay = _pyabs(y) if rtol else 0
            tol = ay * rtol + atol if rtol else atol
            if isinstance(tol, Sc) and not tol.is_const():
                return _pyabs(d) <= tol
            tolv = tol if not isinstance(tol, Sc) else tol.re.const_value()
            if not d.im.t:
                return sym_and(d.real <= tolv, d.real >= -tolv)
            return Sc(d.re * d.re + d.im * d.im) <= tolv * tolv
        return builtins.abs(d) <= atol + rtol * builtins.abs(y)

    return np.frompyfunc(f, 2, 1)


def isclose(a, b, rtol=1e-5, atol=1e-8):
    a, b = _t(a), _t(b)
    if (a.dtype.kind == "c") != (b.dtype.kind == "c"):
        # torch.isclose / torch.allclose require equal dtypes ("ComplexDouble did not match Double")
        raise RuntimeError(f"{a.dtype} did not match {b.dtype}")
    r = _close_elem(atol, rtol)(_num(a), _num(b))
    return Tensor(r if isinstance(r, np.ndarray) else _oa(r), bool)._tidy_bool()


def allclose(a, b, rtol=1e-5, atol=1e-8, equal_nan=False):
    a, b = _t(a), _t(b)
    np.broadcast_shapes(a.a.shape, b.a.shape)
    return _pybool(isclose(a, b, rtol, atol).all())


def equal(a, b):
    if a.a.shape != b.a.shape:
        return False
    if a.a.dtype != object and b.a.dtype != object:
        return _pybool((a.a == b.a).all())
    return _pybool((a == b).all())


def searchsorted(sorted_sequence, values, right=False, side=None):
    if side is not None:
        right = side == "right"
    seq = sorted_sequence.a
    vals = _t(values)
    out = np.empty(vals.a.shape, dtype=np.int64)
    of = out.reshape(-1)
    for k, v in enumerate(vals.a.reshape(-1)):
        idx = 0
        for s in seq:
            c = (s <= v) if right else (s < v)
            if _pybool(c):
                idx += 1
            else:
                break
        of[k] = idx
    return Tensor(out, int64)


def nonzero(t):
    return t.nonzero()


def index_select(t, dim, index):
    return Tensor(np.take(t.a, index._intarr(), axis=dim), t.dtype)


def einsum(equation, *operands, **k):
    """explicit-subscript einsum on object arrays (numpy's einsum runs Python arithmetic on them)."""
    if not isinstance(equation, str) or "..." in equation:
        raise Inconclusive("einsum: only explicit subscript strings are modelled")
    if len(operands) == 1 and isinstance(operands[0], (list, tuple)):
        operands = tuple(operands[0])
    ts = [_t(o) for o in operands]
    dt = _res_dtype(*ts)
    r = np.einsum(equation, *[_num(t) for t in ts], optimize=False)
    if not isinstance(r, np.ndarray):
        r = _oa(r)
    return Tensor(_fix_empty(r, dt), dt)


# --------------------------------------------------------------------------
# sparse
# --------------------------------------------------------------------------
class SparseTensor(Tensor):
    # a torch sparse tensor *is* a torch.Tensor (`isinstance(x, torch.Tensor)` in emu_sv/sparse_operator.py);
    # the dense-only methods inherited from Tensor fail loudly (no `.a`) instead of being silently wrong
    __array_ufunc__ = None

    def __init__(self, indices, values, shape, dtype_, coalesced=False, layout="coo"):
        self.idx = np.asarray(indices, dtype=np.int64).reshape(2, -1)
        self.vals = values
        self._shape = Size(_pyint(s) for s in shape)
        self.dtype = dtype_
        self.coalesced = coalesced
        self.layout_ = layout

    is_cuda = False
    is_cpu = True
    is_sparse = True
    device = _CPU

    @property
    def shape(self):
        return self._shape

    def size(self, dim=None):
        return self._shape if dim is None else self._shape[dim]

    @property
    def layout(self):
        return "sparse_" + self.layout_

    def _nnz(self):
        return _pyint(self.idx.shape[1])

    def coalesce(self):
        acc: dict = {}
        for k in range(self.idx.shape[1]):
            key = (_pyint(self.idx[0, k]), _pyint(self.idx[1, k]))
            acc[key] = acc[key] + self.vals[k] if key in acc else self.vals[k]
        keys = sorted(acc)
        vals = np.empty(len(keys), dtype=object)
        for i, key in enumerate(keys):
            vals[i] = acc[key]
        return SparseTensor(
            np.array(keys, dtype=np.int64).reshape(-1, 2).T, vals, self.shape, self.dtype, True, self.layout_
        )

    def indices(self):
        if not self.coalesced:
            raise RuntimeError("Cannot get indices on an uncoalesced tensor, please call .coalesce() first")
        return Tensor(self.idx, int64)

    def values(self):
        if not self.coalesced:
            raise RuntimeError("Cannot get values on an uncoalesced tensor, please call .coalesce() first")
        return Tensor(self.vals, self.dtype)

    def is_coalesced(self):
        return self.coalesced

    def to(self, *a, **k):
        return self

    def cpu(self):
        return self

    def clone(self):
        return SparseTensor(self.idx.copy(), self.vals.copy(), self.shape, self.dtype, self.coalesced, self.layout_)

    def detach(self):
        return self

    def to_sparse_coo(self):
        c = self.coalesce() if not self.coalesced else self
        return SparseTensor(c.idx, c.vals, c.shape, c.dtype, True, "coo")

    def to_sparse_csr(self):
        c = self.coalesce()
        c.layout_ = "csr"
        return c

    def to_dense(self):
        r = zeros(*self.shape, dtype=self.dtype)
        for k in range(self.idx.shape[1]):
            i, j = _pyint(self.idx[0, k]), _pyint(self.idx[1, k])
            r.a[i, j] = r.a[i, j] + self.vals[k]
        return r

    def _scale(self, s):
        if isinstance(s, Tensor):
            s = s.item()
        k = _promote(self.dtype.kind, _kind_of_scalar(s))
        e = mk(s, k)
        vals = np.empty(self.vals.shape, dtype=object)
        for i in range(vals.shape[0]):
            vals[i] = self.vals[i] * e
        return SparseTensor(self.idx, vals, self.shape, _KIND_DEFAULT[k] if k != self.dtype.kind else self.dtype, self.coalesced, self.layout_)

    def __mul__(self, s):
        return self._scale(s)

    __rmul__ = __mul__

    def __add__(self, o):
        if not isinstance(o, SparseTensor):
            return NotImplemented
        return SparseTensor(
            np.concatenate([self.idx, o.idx], axis=1),
            np.concatenate([self.vals, o.vals]),
            self.shape,
            _res_dtype(self, o),
            False,
            self.layout_,
        ).coalesce()

    def __iadd__(self, o):
        return self.__add__(o)

    def __matmul__(self, o):
        o = _t(o)
        dt = _res_dtype(self, o)
        oa = _num(o)
        out_shape = (self.shape[0],) + oa.shape[1:]
        r = np.empty(out_shape, dtype=object)
        r[...] = mk(0, dt.kind)
        for k in range(self.idx.shape[1]):
            i, j = _pyint(self.idx[0, k]), _pyint(self.idx[1, k])
            r[i] = r[i] + self.vals[k] * oa[j]
        return Tensor(r, dt)

    def __repr__(self):
        return f"symsparse(shape={tuple(self.shape)}, nnz={self.idx.shape[1]})"


def sparse_coo_tensor(indices, values, size=None, dtype=None, device=None, is_coalesced=None, **kw):
    idx = indices._intarr() if isinstance(indices, Tensor) else np.asarray(indices, dtype=np.int64)
    vt = _t(values)
    vals = _num(vt) if vt.dtype.kind in "ib" else vt.a
    vdt = vt.dtype if vt.dtype.kind in "fc" else float64
    if size is None:
        size = tuple(_pyint(x) + 1 for x in idx.max(axis=1))
    idx = idx.reshape(2, -1)
    # torch flags a freshly built COO tensor with fewer than two entries as coalesced
    return SparseTensor(idx, np.asarray(vals, dtype=object).copy(), size, dtype or vdt, _pybool(is_coalesced) or idx.shape[1] < 2)


# --------------------------------------------------------------------------
# stubs for LAPACK / RNG kernels
# --------------------------------------------------------------------------
def _stub(name):
    def f(*a, **k):
        fn = STUBS.get(name)
        CALL_LOG.append((name,))
        if fn is None:
            raise Inconclusive(f"torch.{name} reached without a declared stub")
        return fn(*a, **k)

    f.__name__ = name.replace(".", "_")
    return f


multinomial = _stub("multinomial")
randperm = _stub("randperm")
rand = _stub("rand")
randn = _stub("randn")
matrix_exp = _stub("linalg.matrix_exp")

linalg = types.ModuleType("torch.linalg")
linalg.qr = _stub("linalg.qr")
linalg.eigh = _stub("linalg.eigh")
linalg.svdvals = _stub("linalg.svdvals")
linalg.svd = _stub("linalg.svd")
linalg.matrix_exp = _stub("linalg.matrix_exp")
linalg.vector_norm = _vector_norm
linalg.norm = lambda t, *a, **k: _vector_norm(t)

special = types.ModuleType("torch.special")
special.entr = _stub("special.entr")

cuda = types.ModuleType("torch.cuda")
cuda.device_count = lambda: 0
cuda.is_available = lambda: False
cuda.max_memory_allocated = lambda d=None: 0


class _Ctx:
    def __init__(self):
        self.saved_tensors = ()
        self.needs_input_grad = ()

    def save_for_backward(self, *ts):
        self.saved_tensors = ts


class _Function:
    @classmethod
    def apply(cls, *args):
        return cls.forward(_Ctx(), *args)


autograd = types.ModuleType("torch.autograd")
autograd.Function = _Function


class _NoGrad:
    def __enter__(self):
        return self

    def __exit__(self, *a):
        return False

    def __call__(self, f):
        return f


def no_grad():
    return _NoGrad()


def enable_grad():
    return _NoGrad()


def set_grad_enabled(flag):
    return _NoGrad()


def __getattr__(name):
    if name == "pi":
        return _get_pi()
    raise AttributeError(f"symtorch has no attribute {name!r}")


# `torch.pi` is looked up as a module attribute: provide it dynamically
del pi
