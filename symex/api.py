"""Declarative description of a check: a property module exposes
`PROPERTY`, `LEVEL`, and `cases(tier) -> list[Case]`."""

from __future__ import annotations

from dataclasses import dataclass, field
from typing import Callable


@dataclass
class Case:
    name: str
    fn: Callable
    covers: list = field(default_factory=list)  # [(repo file, qualname), ...]
    bounds: dict = field(default_factory=dict)
    canaries: list = field(default_factory=list)  # mutant names that must be caught
    assumptions: list = field(default_factory=list)
    outside: list = field(default_factory=list)
    conc_samples: int = 2
    timeout_ms: int = 20000
    deadline_s: float = 600.0
    max_paths: int = 20000
    modes: tuple = ("real", "shim", "sym")  # which interpretations apply
    tol: float = 1e-8
    expect_violation: bool = False  # for self-tests
    weight: float = 1.0  # scheduling hint (bigger first)


REGISTRY: dict = {}


def register(prop: str):
    def deco(mod_cases):
        REGISTRY[prop] = mod_cases
        return mod_cases

    return deco
