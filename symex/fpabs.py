"""Engine F-abs: floating-point arithmetic over-approximated in real arithmetic.

`RR` duck-types a Python float.  Every arithmetic result is the exact real
result times (1 + e) with a fresh |e| <= 2**-53 (the standard model of IEEE
double rounding, valid in the normal range, no overflow/underflow).  Because
the rounding errors are universally quantified, `unsat` for a violated property
proves the property for every double in the stated range; `sat` is only a
candidate (the errors chosen by the solver need not be realisable).
Comparisons, abs, negation, min/max and multiplication by 0/1 are exact.
"""

from __future__ import annotations

from fractions import Fraction

import z3

from . import state
from .poly import Sc, Poly, SymBool

U = Fraction(1, 2**53)


def _val(x):
    if isinstance(x, RR):
        return x.v
    if isinstance(x, Sc):
        return x
    if isinstance(x, (int, float, Fraction)):
        return Sc.const(x)
    return None


def _round(exact: Sc) -> "RR":
    if exact.is_const():
        # constants are folded exactly (a concrete double computation would
        # round them, but only by a relative 2**-53 which the callers' claims
        # tolerate; keeping them exact keeps the terms small)
        return RR(exact)
    ctx = state.ctx()
    e = Sc.var(ctx.fresh_name("eps"))
    ctx.assume(e >= -U, "")
    ctx.assume(e <= U, "")
    ctx.features.add("fp-rounding-error")
    return RR(exact * (1 + e))


class RR:
    __slots__ = ("v",)
    __array_ufunc__ = None

    def __init__(self, v):
        self.v = v if isinstance(v, Sc) else Sc.const(v)

    # arithmetic with rounding ------------------------------------------------
    def __add__(self, o):
        b = _val(o)
        if b is None:
            return NotImplemented
        if b.is_zero():
            return self
        if self.v.is_zero():
            return RR(b)
        return _round(self.v + b)

    __radd__ = __add__

    def __sub__(self, o):
        b = _val(o)
        if b is None:
            return NotImplemented
        if b.is_zero():
            return self
        return _round(self.v - b)

    def __rsub__(self, o):
        b = _val(o)
        if b is None:
            return NotImplemented
        return _round(b - self.v)

    def __mul__(self, o):
        b = _val(o)
        if b is None:
            return NotImplemented
        if b.is_const() and b.re.const_value() in (0, 1, -1):
            return RR(self.v * b)
        if self.v.is_const() and self.v.re.const_value() in (0, 1, -1):
            return RR(self.v * b)
        return _round(self.v * b)

    __rmul__ = __mul__

    def __truediv__(self, o):
        b = _val(o)
        if b is None:
            return NotImplemented
        if b.is_const() and b.re.const_value() in (1, -1):
            return RR(self.v / b)
        return _round(self.v / b)

    def __rtruediv__(self, o):
        b = _val(o)
        if b is None:
            return NotImplemented
        return _round(b / self.v)

    def __neg__(self):
        return RR(-self.v)

    def __pos__(self):
        return self

    def __abs__(self):
        return RR(abs(self.v))

    def __float__(self):
        return self  # type: ignore[return-value]

    # exact comparisons -------------------------------------------------------
    def __lt__(self, o):
        return self.v < _val(o)

    def __le__(self, o):
        return self.v <= _val(o)

    def __gt__(self, o):
        return self.v > _val(o)

    def __ge__(self, o):
        return self.v >= _val(o)

    def __eq__(self, o):  # type: ignore[override]
        b = _val(o)
        if b is None:
            return NotImplemented
        return self.v == b

    def __ne__(self, o):  # type: ignore[override]
        b = _val(o)
        if b is None:
            return NotImplemented
        return self.v != b

    def __hash__(self):
        return 0

    def __repr__(self):
        return f"RR{self.v!r}"

    def __format__(self, spec):
        return repr(self)

    def floor(self):
        """math.floor: a fresh integer n with n <= x < n + 1."""
        if self.v.is_const():
            import math

            return math.floor(float(self.v))
        ctx = state.ctx()
        n = Sc.var(ctx.fresh_name("floor"))
        # integrality of n is deliberately dropped (over-approximation: keeps the
        # queries in QF_NRA); n is any real with x - 1 < n <= x
        ctx.assume(n <= self.v, "")
        ctx.assume(self.v < n + 1, "")
        ctx.soft.append(z3.IsInt(n.re.z3()))
        return IntRR(n)


class IntRR(RR):
    """An integer-valued RR (result of floor); adding a Python int stays exact."""

    __slots__ = ()

    def __add__(self, o):
        if isinstance(o, int):
            return IntRR(self.v + o)
        return RR.__add__(self, o)

    __radd__ = __add__

    def __sub__(self, o):
        if isinstance(o, int):
            return IntRR(self.v - o)
        return RR.__sub__(self, o)

    def __hash__(self):
        return 0
