"""Reference models, written once against the torch API so that they run under
the real torch and under symtorch alike.

Provenance of the Hamiltonian oracle: Pulser's documented convention is
  H = sum_j Omega_j/2 (cos phi_j sx_j - sin phi_j sy_j) - sum_j delta_j n_j
      + sum_{i<j} U_ij n_i n_j                      (basis ordered (r, g))
The emulators order the basis (g, r); conjugating with the swap turns
-sin(phi) sy into +sin(phi) sy and n into diag(0, 1).  XY:  U_ij (s+_i s-_j + h.c.)
= U_ij * 2 (Sx_i Sx_j + Sy_i Sy_j) with S = sigma/2.
"""

from __future__ import annotations

from functools import reduce


def c128(T):
    return T.complex128


def mat(T, rows):
    return T.tensor(rows, dtype=T.complex128)


def sigma_x(T, d=2):
    m = [[0.0] * d for _ in range(d)]
    m[0][1] = 1.0
    m[1][0] = 1.0
    return mat(T, m)


def sigma_y(T, d=2):
    m = [[0.0 + 0.0j] * d for _ in range(d)]
    m[0][1] = -1.0j
    m[1][0] = 1.0j
    return mat(T, m)


def n_op(T, d=2):
    m = [[0.0] * d for _ in range(d)]
    m[1][1] = 1.0
    return mat(T, m)


def ident(T, d=2):
    return T.eye(d, dtype=T.complex128)


def kron_all(T, mats):
    return reduce(T.kron, mats)


def embed(T, op, site: int, n: int, d: int = 2):
    """I x ... x op(site) x ... x I, site 0 most significant."""
    return kron_all(T, [op if k == site else ident(T, d) for k in range(n)])


def embed2(T, op_i, i: int, op_j, j: int, n: int, d: int = 2):
    return kron_all(
        T, [op_i if k == i else op_j if k == j else ident(T, d) for k in range(n)]
    )


def dense_single_terms(T, omega, delta, phi, n: int, d: int = 2, noise=None):
    """sum_j Omega_j/2 (cos phi_j sx + sin phi_j sy) - delta_j n  [+ noise_j]."""
    H = T.zeros(d**n, d**n, dtype=T.complex128)
    sx, sy, nn = sigma_x(T, d), sigma_y(T, d), n_op(T, d)
    for j in range(n):
        c = T.cos(phi[j])
        s = T.sin(phi[j])
        local = 0.5 * omega[j] * (c * sx + s * sy) - delta[j] * nn
        if noise is not None:
            local = local + noise
        H = H + embed(T, local, j, n, d)
    return H


def dense_rydberg(T, omega, delta, phi, U, n: int, d: int = 2, noise=None):
    H = dense_single_terms(T, omega, delta, phi, n, d, noise)
    nn = n_op(T, d)
    for i in range(n):
        for j in range(i + 1, n):
            H = H + U[i, j] * embed2(T, nn, i, nn, j, n, d)
    return H


def dense_xy(T, omega, delta, phi, U, n: int, d: int = 2, noise=None):
    H = dense_single_terms(T, omega, delta, phi, n, d, noise)
    sp = [[0.0] * d for _ in range(d)]
    sp[1][0] = 1.0  # |1><0| : raises 0 -> 1
    sp = mat(T, sp)
    sm = sp.T.contiguous() if hasattr(sp.T, "contiguous") else sp.T
    for i in range(n):
        for j in range(i + 1, n):
            H = H + U[i, j] * (embed2(T, sp, i, sm, j, n, d) + embed2(T, sm, i, sp, j, n, d))
    return H


def contract_mpo(T, factors):
    """Dense matrix of a list of MPO factors (Dl, out, in, Dr)."""
    acc = factors[0]  # (1, o, i, D)
    for f in factors[1:]:
        acc = T.tensordot(acc, f, dims=([acc.dim() - 1], [0]))
    # acc: (1, o1, i1, o2, i2, ..., 1)
    n = len(factors)
    acc = acc.reshape(*acc.shape[1:-1])
    outs = [2 * k for k in range(n)]
    ins = [2 * k + 1 for k in range(n)]
    acc = acc.permute(*(outs + ins))
    dim_out = 1
    for k in range(n):
        dim_out *= factors[k].shape[1]
    return acc.reshape(dim_out, -1)


def contract_mps(T, factors):
    """Dense vector of a list of MPS factors (Dl, d, Dr)."""
    acc = factors[0]
    for f in factors[1:]:
        acc = T.tensordot(acc, f, dims=([acc.dim() - 1], [0]))
    return acc.reshape(-1)


def permutation_operator(T, perm, d: int = 2):
    """P such that (P psi)[s_0..s_{n-1}] = psi[t] with t[perm[k]] = s_k, i.e.
    site k of the permuted system holds original site perm[k]."""
    n = len(perm)
    dim = d**n
    rows = [[0.0] * dim for _ in range(dim)]
    for idx in range(dim):
        digits = []
        x = idx
        for _ in range(n):
            digits.append(x % d)
            x //= d
        s = digits[::-1]  # s[k] = level of permuted site k
        t = [0] * n
        for k in range(n):
            t[perm[k]] = s[k]
        src = 0
        for k in range(n):
            src = src * d + t[k]
        rows[idx][src] = 1.0
    return mat(T, rows)
